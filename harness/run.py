#!/venv/bin/python
"""Entry point of every check:  run.py <Cxx> quick|thorough [--replay <file>]

Exit 0: the property held on everything explored (KNOWN-FINDING lines may be
printed).  Exit 1: at least one line `VIOLATION property=<id> replay=<path>`.
"""
import importlib
import os
import sys
import traceback
from pathlib import Path

sys.path.insert(0, str(Path(__file__).resolve().parent))
os.environ.setdefault("PYTHONDONTWRITEBYTECODE", "1")
os.environ.setdefault("PYTHONHASHSEED", "0")
os.environ.setdefault("MPLBACKEND", "Agg")

from lib import common  # noqa: E402


def main(argv):
    if len(argv) < 2:
        print(__doc__)
        return 2
    prop = argv[1].upper()
    tier = argv[2] if len(argv) > 2 and not argv[2].startswith("--") else os.environ.get("VERIF_TIER", "quick")
    if tier not in ("quick", "thorough"):
        tier = "quick"
    replay = None
    if "--replay" in argv:
        replay = argv[argv.index("--replay") + 1]
    mod = importlib.import_module(f"props.{prop.lower()}")
    rep = common.Report(prop, tier)
    try:
        if replay is not None:
            return mod.replay(replay)
        return mod.run(rep, tier)
    except Exception:  # a crash of the machinery is not a verdict about the code
        traceback.print_exc()
        print(f"ERROR property={prop}: the check itself crashed (no verdict)", file=sys.stderr)
        return 3


if __name__ == "__main__":
    sys.exit(main(sys.argv))
