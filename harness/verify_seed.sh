#!/bin/bash
# usage: verify_seed.sh <seed dir> -- confirms: patch applies to /repo HEAD, demo exits 1 with it and 0 without, full test suite passes with it
D=$1; WT=/tmp/wt-verify-$$
git -C /repo worktree add --detach $WT HEAD >/dev/null 2>&1 || exit 9
cd $WT
PYTHONPATH=$WT /venv/bin/python $D/demo.py >/dev/null 2>&1; CLEAN=$?
if ! git apply $D/patch.diff; then echo "applies=no" > $D/verify.txt; git -C /repo worktree remove --force $WT; exit 1; fi
PYTHONPATH=$WT /venv/bin/python $D/demo.py >/dev/null 2>&1; WITH=$?
TESTS=$(cd $WT && /venv/bin/python -m pytest -q -p no:cacheprovider --timeout=900 tests 2>&1 | tail -1)
echo "applies=yes demo_without=$CLEAN demo_with=$WITH tests_with_change='$TESTS' head=$(git -C /repo rev-parse --short HEAD)" | tee $D/verify.txt
git -C /repo worktree remove --force $WT >/dev/null 2>&1
