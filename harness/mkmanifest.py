#!/usr/bin/env python3
"""Regenerates /verif/MANIFEST.json from the table below (run after adding a check)."""
import json
from pathlib import Path

VERIF = Path(__file__).resolve().parents[1]
TECH = "machine-checked proof in Coq 8.16.1 about an executable model + correspondence check against the real code"

CHECKS = {
    "C01": dict(
        category="proof",
        text="Partial. Proved in Coq: Metropolis detailed balance and stationarity of the single-attempt kernel on finite "
             "state spaces; the executable accept decision of the sampler models is u < exp(p_new - p_old) over the reals "
             "(rational enclosures of exp proved against Coq's exp); every compared quantity is beta*(logp y - logp x); "
             "stretch-move reverse / balance / z-sampler range and inverse CDF; the retry-until-accept chain has stationary "
             "weights pi*A (so the pinned samplers' first sentence fails: known finding) and the pinned stretch proposal is "
             "irreversible (repaired); a reflected proposal along an oblique direction (PCA with bounds) and a reflected stretch move "
             "(ensemble with bounds) admit NO reverse move at exact rational witnesses (Properties/C01Oblique.v: known finding); "
             "the on-line tuning of widths / step size keeps every width positive, clamps every factor, moves towards the target "
             "rate and never shrinks the check interval (Properties/Adaptation.v, tied by exact bookkeeping comparison and interval "
             "goals on real Parameter / EpsilonSelector objects); mass consistency (Properties/C01Mass.v: L^T M^-1 L = I implies "
             "K(Lz) = z.z/2 for any dimension and all three mass kinds, so exp(H0-H) is the MH probability for the momentum "
             "actually drawn; transposed factor refuted), guarded on every recorded Hamiltonian transition incl. full SPD masses "
             "and masses from estimate_mass; every sampler is also driven with list / tuple / int64 / int32 / float32 inputs. "
             "Every recorded transition of the five real samplers (every proposal point, accept and "
             "reject branch, tempering, bounds) is replayed through Model/Samplers.v inside Coq. Not proved: the ergodic limit, "
             "P(U<p)=p, the stretch Jacobian, HMC detailed balance in the continuum, effect of adaptation.",
        note="Trusted: Coq kernel + vm_compute; Reals axioms (sig_forall_dec, sig_not_dec, functional_extensionality_dep, classic); "
             "Python harness (scripted RNG, recording posterior); adaptation frozen during recorded transitions; quadratic "
             "rational log-densities in executions.",
        design="DESIGN.md section 5, C01"),
    "C03": dict(
        category="proof",
        text="The alignment invariant probs = map (beta*logp) samples is a Coq theorem for every operation sequence (take_step "
             "of Gibbs/Metropolis/PCA/HMC for any tape, installs by tempering exchange / replace_last, ensemble iterations and "
             "stored snapshots) for every log-density and temperature; mode() is the arg-max. The models are tied to the code by "
             "replaying every recorded transition inside Coq; the exact alignment oracle runs on every real object after steps, "
             "advance and exchanges driven through the real worker loop; aliasing / independence of samplers built from shared "
             "arrays is decided by the run. Round 4: the chain as a store grown by single writes with the log-density evaluations as "
             "crash points (Model/ChainStore.v, Properties/C03Store.v: alignment at EVERY moment of every history of completed and "
             "interrupted calls; interleaved Gibbs store and a mode() that skips the start refuted); every chain is looked at before "
             "the first and after every step, from inside every evaluation and right after interruptions.",
        note="Trusted: Coq kernel + vm_compute; Python harness; value-semantics model (aliasing decided by the run); adaptation "
             "frozen during recorded transitions.",
        design="DESIGN.md section 5, C03"),
    "C09": dict(
        category="proof",
        text="Three ties re-established on every run: (1) an AST translator regenerates from the current source the field lists "
             "of save()/load()/constructors/methods a reloaded sampler must support and Coq re-proves load_complete, save_ready "
             "and keys_available over them; (2) scripted runs of the four real sampler classes are cut at crash points (before "
             "any step, early, around the first width / step-size / direction update, later), saved, reloaded and every "
             "transition of the RELOADED object is replayed through Model/Samplers.v inside Coq (the model never saved); (3) a "
             "never-saved twin with the same generator state must agree exactly in all read-outs and in its continuation. "
             "Theorems: decode . encode = id on the key/value store, a missing key is an error, continuation corollary, "
             "injectivity of rendered parameter keys (swept for indices < 40).",
        note="Trusted: Coq kernel + vm_compute; numpy.savez/load round-trip arrays; the AST translator (fail-closed); plotting "
             "calls of a reloaded sampler are not exercised in the quick tier.",
        design="DESIGN.md section 5, C09"),
    "C13": dict(
        category="proof",
        text="All clauses of C13 (end points are sample values, coverage > fraction, optimality against every closed interval, "
             "permutation invariance, positive-affine covariance, column independence, fallback) are Coq theorems about "
             "Model/Hdi.v for every sample and every L, closed under the global context; the model is compared exactly "
             "(inside Coq, no tolerance) with the real sample_hdi on 600 (quick) / 6000 (thorough) integer and dyadic inputs per run. "
             "Round 4: a storage-level model (Model/HdiStorage.v, Properties/C13Storage.v: byte-addressed memory, dtype kind / size / "
             "byte order, strided views, items decoded from the raw bytes incl. IEEE floats, wrapping machine arithmetic; the result is "
             "independent of the storage format, native-width arithmetic refuted) and 240 / 2048 cases over {int8..uint64, "
             "float16..longdouble} x {little, big endian} x {C, Fortran, strided, reversed, 0-stride, read-only, unaligned, subclass}.",
        note="Trusted: Coq kernel + vm_compute; the Python harness; NumPy sort/argmin semantics as modelled; L=int(fraction*n) is a "
             "model input checked exactly against floor(fraction*n) per case; 'caller's array not modified' is decided by the run.",
        design="DESIGN.md section 5, C13"),
}


def main():
    extra = VERIF / "harness" / "manifest_extra.json"
    table = dict(CHECKS)
    if extra.exists():
        table.update(json.loads(extra.read_text()))
    ids = [json.loads(l)["id"] for l in (VERIF / "properties.jsonl").read_text().splitlines() if l.strip()]
    checks = []
    for pid in ids:
        if pid not in table:
            continue
        e = table[pid]
        checks.append({
            "property_id": pid,
            "quick_cmd": f"/venv/bin/python /verif/harness/run.py {pid} quick",
            "thorough_cmd": f"/venv/bin/python /verif/harness/run.py {pid} thorough",
            "evidence_file": f"/verif/evidence/{pid}.json",
            "replay_cmd_template": f"/venv/bin/python /verif/harness/run.py {pid} quick --replay {{path}}",
            "engine": "coq-proof+correspondence",
            "level_claimed": {"category": e["category"], "text": e["text"], "design_ref": e["design"]},
            "level_note": e["note"],
            "technique": e.get("technique", TECH),
        })
    hooks_commits = []
    m = {
        "version": 1,
        "setup_cmd": "cd /verif/coq && coq_makefile -f _CoqProject -o Makefile && timeout 3000 make -j16",
        "hooks": {
            "guard": "C_BOWMAN_INFERENCE_TOOLS_VERIF",
            "enable": "no source hooks are needed: every RNG, clock and posterior the checks script is a plain attribute or "
                      "module global that the harness replaces at run time; the variable is exported by the harness for completeness",
            "baseline_off_cmd": "cd /repo && /venv/bin/python -m pytest -ra -q -p no:cacheprovider --timeout=900 --continue-on-collection-errors",
            "source_commits": hooks_commits,
            "add_only": True,
        },
        "engines": [{
            "name": "coq-proof+correspondence", "path": "/verif/harness/run.py",
            "serves_properties": [c["property_id"] for c in checks],
            "kind_free_text": "Coq 8.16.1 theorems about hand-written executable models (coq/theories), tied to /repo on every run "
                              "by a correspondence check that evaluates the model inside Coq (vm_compute / coq-interval) on the "
                              "inputs and outputs of the real code"}],
        "checks": checks,
        "not_applicable": [{"property_id": i, "reason": "check not integrated yet in this round (being built; see DESIGN.md section 5)"}
                           for i in ids if i not in table],
        "notes": "every property is decided by Coq theorems about an executable model plus a per-run correspondence check; "
                 "see DESIGN.md for the trusted base and for what is proved / only run per property",
    }
    (VERIF / "MANIFEST.json").write_text(json.dumps(m, indent=1) + "\n")
    print("claimed:", [c["property_id"] for c in checks])


if __name__ == "__main__":
    main()
