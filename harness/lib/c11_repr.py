"""Representations of hyper-parameter vectors and data for the C11 check (used only by props/c11.py).

The model is coq/theories/Matrix/SelectionRepr.v: a represented vector is a carrier (element type),
a container (ndarray / list / tuple) and the numbers it holds.  This module only
  * builds the Python object for a (carrier, container) pair from a float64 array WITHOUT changing a
    number (it refuses otherwise -- and Coq re-checks validity on the literal: obligation k = 0),
  * writes the Coq `rvec` literal,
  * generates the whole-number configurations on which the integer carriers are applicable,
  * runs the real code on one variant.
Nothing here evaluates the model.
"""
from __future__ import annotations

import copy
import math
import warnings

import numpy as np

from . import common as C
from . import matrix as MX

# carrier -> (Coq term, numpy dtype | None)
CARRIERS = {
    "f64": ("(CFloat 53)", np.float64), "f32": ("(CFloat 24)", np.float32), "f16": ("(CFloat 11)", np.float16),
    "i8": ("(CInt true 8)", np.int8), "i16": ("(CInt true 16)", np.int16), "i32": ("(CInt true 32)", np.int32),
    "i64": ("(CInt true 64)", np.int64), "u8": ("(CInt false 8)", np.uint8), "u16": ("(CInt false 16)", np.uint16),
    "u32": ("(CInt false 32)", np.uint32), "u64": ("(CInt false 64)", np.uint64),
    "pyint": ("CPyInt", None), "pyfloat": ("(CFloat 53)", None),
}
CONTAINERS = {"ndarray": "Ndarray", "list": "PyList", "tuple": "PyTuple"}
# working precision of a float ufunc on an element of the carrier (SelectionRepr.ufunc_prec)
UFUNC_PREC = {"f64": 53, "f32": 24, "f16": 11, "i8": 11, "u8": 11, "i16": 24, "u16": 24, "i32": 53, "u32": 53,
              "i64": 53, "u64": 53, "pyint": 53, "pyfloat": 53}


def fits(values, carrier) -> bool:
    """Every number of `values` (float64) can be held by the carrier exactly."""
    v = np.asarray(values, dtype=float).reshape(-1)
    if not np.all(np.isfinite(v)):
        return False
    if carrier in ("f64", "pyfloat"):
        return True
    if carrier in ("f32", "f16"):
        dt = CARRIERS[carrier][1]
        with np.errstate(over="ignore"):
            w = v.astype(dt)
        return bool(np.all(np.isfinite(w)) and np.all(w.astype(float) == v))
    if not np.all(v == np.round(v)) or np.any(np.abs(v) >= 2.0 ** 53):
        return False
    if carrier == "pyint":
        return True
    info = np.iinfo(CARRIERS[carrier][1])
    return bool(np.all(v >= info.min) and np.all(v <= info.max))


def valid_pair(carrier, container) -> bool:
    return not (carrier in ("pyint", "pyfloat") and container == "ndarray")


def _scalar(v, carrier):
    if carrier == "pyint":
        return int(v)
    if carrier == "pyfloat":
        return float(v)
    return CARRIERS[carrier][1](v)


def to_repr(values, carrier, container):
    """float64 array (1-D or 2-D) -> the Python object; raises if a number would change."""
    a = np.asarray(values, dtype=float)
    if not fits(a, carrier) or not valid_pair(carrier, container):
        raise ValueError(f"{carrier}/{container} cannot hold these numbers")
    if container == "ndarray":
        return np.array(a, dtype=CARRIERS[carrier][1])
    seq = list if container == "list" else tuple
    if a.ndim == 1:
        return seq(_scalar(v, carrier) for v in a)
    if carrier in ("pyint", "pyfloat"):
        return seq(seq(_scalar(v, carrier) for v in row) for row in a)
    return seq(np.array(row, dtype=CARRIERS[carrier][1]) for row in a)     # a list of array-like rows


def back_to_float(obj):
    """The numbers an object holds, as a float64 array (to verify that nothing was modified)."""
    return np.array([np.asarray(r, dtype=float) for r in obj], dtype=float) if isinstance(obj, (list, tuple)) \
        else np.asarray(obj, dtype=float)


def coq_rvec(values, carrier, container) -> str:
    return f"(RVec {CARRIERS[carrier][0]} {CONTAINERS[container]} {MX.qvec(np.asarray(values, dtype=float).reshape(-1))})"


def pick(options, start, values):
    """First (carrier, container) of `options`, cyclically from `start`, that can hold `values`."""
    for t in range(len(options)):
        c, k = options[(start + t) % len(options)]
        if fits(values, c):
            return [c, k]
    return ["f64", "ndarray"]


# ---------------------------------------------------------------- what is exercised
THETA_WHOLE = [("i64", "ndarray"), ("pyint", "list"), ("pyint", "tuple"), ("i32", "ndarray"), ("pyfloat", "list"),
               ("f32", "ndarray"), ("i64", "list"), ("i16", "ndarray"), ("pyfloat", "tuple"), ("u64", "ndarray"),
               ("f64", "tuple"), ("i32", "tuple"), ("u32", "ndarray"), ("f32", "list")]
DATA_WHOLE = [("i64", "ndarray"), ("pyint", "list"), ("i8", "ndarray"), ("u8", "ndarray"), ("f32", "ndarray"),
              ("pyfloat", "tuple"), ("i16", "ndarray"), ("u16", "ndarray"), ("f64", "ndarray"), ("i32", "ndarray"),
              ("f16", "ndarray"), ("pyint", "tuple"), ("u64", "ndarray"), ("f64", "list"), ("u32", "ndarray"),
              ("i64", "list"), ("pyfloat", "list")]
THETA_ANY = [("pyfloat", "list"), ("pyfloat", "tuple"), ("f64", "list"), ("f64", "tuple")]
DATA_ANY = [("pyfloat", "list"), ("f32", "ndarray"), ("f64", "ndarray"), ("pyfloat", "tuple"), ("f16", "ndarray"),
            ("f64", "list"), ("f32", "tuple")]


def plan_variants(case, k, whole, n_var):
    """Variant specs {"theta": [carrier, container], "x": ..., "y": ..., "err": ...} for configuration k."""
    n, d = case["n"], case["d"]
    x = MX.unhex(case["x"], (n, d))
    y = MX.unhex(case["y"])
    th = MX.unhex(case["hyperpars"])
    ev = MX.unhex(case["err"]["values"]) if case["err"]["kind"] != "none" else np.zeros(0)
    T, D = (THETA_WHOLE, DATA_WHOLE) if whole else (THETA_ANY, DATA_ANY)
    out = []
    for j in range(n_var):
        s = k * n_var + j
        spec = {"theta": pick([t for t in T if UFUNC_PREC[t[0]] >= 24], s, th),
                "x": pick(D, 3 * s + 1, x), "y": pick(D, 5 * s + 2, y),
                "err": pick(D, 7 * s + 3, ev) if ev.size else ["f64", "ndarray"]}
        if whole and j % 3 == 2:        # one role at a time as well: only theta differs from the baseline
            spec.update(x=["f64", "ndarray"], y=["f64", "ndarray"], err=["f64", "ndarray"])
        out.append(spec)
    return out


# ---------------------------------------------------------------- whole-number configurations
def _whole_kernel_hp(r, spec, n, d, xmax):
    k = spec[0]
    if k == "SE":
        return [r.choice([0, 1, 1, 2])] + [r.choice([0, 1, 2, 2]) for _ in range(d)]
    if k == "RQ":
        return [r.choice([0, 1, 1, 2]), r.choice([0, 1, 2])] + [r.choice([0, 1, 2, 2]) for _ in range(d)]
    if k == "WN":
        return [r.choice([-1, 0, 0, 1])]
    if k == "sum":
        return [v for s in spec[1:] for v in _whole_kernel_hp(r, s, n, d, xmax)]
    if k == "CP":
        out = [v for s in spec[1] for v in _whole_kernel_hp(r, s, n, d, xmax)]
        for _ in range(len(spec[1]) - 1):
            out += [r.randint(1, max(1, xmax - 1)), r.choice([1, 2, 3])]
        return out
    raise ValueError(spec)


def _whole_mean_hp(r, name, d):
    if name == "const":
        return [r.randint(-2, 2)]
    if name == "linear":
        return [r.randint(-2, 2)] + [r.choice([-1, 0, 1]) for _ in range(d)]
    return [r.randint(-2, 2)] + [r.choice([-1, 0, 1]) for _ in range(d)] + [r.choice([-1, 0, 0, 1]) for _ in range(d)]


def gen_whole_case(r, k, kernels, means, errs, data_cov_float, cond_max):
    """A configuration whose data AND hyper-parameters are whole numbers (every integer carrier applies).
    Coordinates run up to ~100 with steps of 1..20 and the errors up to 20, so that squares and squared
    differences leave the int8 / uint8 range."""
    kern = kernels[k % len(kernels)]
    mean = means[(k + k // len(kernels)) % len(means)]
    err_kind = errs[(k + 1) % len(errs)]
    n = [3, 4, 5, 3, 4, 5, 4][k % 7]
    d = [1, 2, 1, 1, 2][k % 5]
    for attempt in range(400):
        steps = [r.choice([1, 2, 3, 5, 14, 20]) for _ in range(n)]
        x0 = np.cumsum(steps).astype(float) - steps[0]
        cols = [x0] + [np.array([float(r.randint(0, 30)) for _ in range(n)]) for _ in range(d - 1)]
        x = np.stack(cols, axis=1)
        y = np.array([float(r.randint(-6, 6)) for _ in range(n)])
        if np.ptp(y) == 0:
            continue
        e = np.array([float(r.choice([1, 1, 2, 3, 12, 16, 20])) for _ in range(n)])
        case = {"n": n, "d": d, "x": MX.hexlist(x), "y": MX.hexlist(y), "kernel": kern, "mean": mean, "whole": True}
        if err_kind == "none":
            err = {"kind": "none", "values": []}
        elif err_kind == "y_err":
            err = {"kind": "y_err", "values": MX.hexlist(e)}
        elif err_kind == "y_cov_diag":
            err = {"kind": "y_cov", "diag": True, "values": MX.hexlist(np.diag(e ** 2))}
        else:
            B = np.array([[float(r.randint(-1, 1)) for _ in range(2)] for _ in range(n)])
            err = {"kind": "y_cov", "diag": False, "values": MX.hexlist(np.diag(e ** 2) + B @ B.T)}
        case["err"] = err
        hp = _whole_mean_hp(r, mean, d) + _whole_kernel_hp(r, kern, n, d, int(x0.max()))
        case["hyperpars"] = MX.hexlist(np.array(hp, dtype=float))
        A = data_cov_float(case)
        if A is not None and np.all(np.isfinite(A)):
            c = np.linalg.cond(A)
            if c <= cond_max:
                case["cond"] = float(c)
                return case
    raise RuntimeError("could not condition a whole-number case")


# ---------------------------------------------------------------- running the code on one variant
def variant_objects(case, spec):
    n, d = case["n"], case["d"]
    x = MX.unhex(case["x"], (n, d))
    y = MX.unhex(case["y"])
    th = MX.unhex(case["hyperpars"])
    objs = {"theta": to_repr(th, *spec["theta"]), "x": to_repr(x, *spec["x"]), "y": to_repr(y, *spec["y"])}
    e = case["err"]
    if e["kind"] == "y_err":
        objs["y_err"] = to_repr(MX.unhex(e["values"]), *spec["err"])
    elif e["kind"] == "y_cov":
        objs["y_cov"] = to_repr(MX.unhex(e["values"], (n, n)), *spec["err"])
    return objs


def run_variant(case, spec, GP):
    """The five model-selection functions of the real code on the numbers of `case` in representation `spec`."""
    out = {"status": "ok", "spec": spec}
    stage = "building the represented inputs"
    n = case["n"]
    try:
        objs = variant_objects(case, spec)
        keep = copy.deepcopy(objs)
        theta = objs["theta"]
        kw = {k_: objs[k_] for k_ in ("y_err", "y_cov") if k_ in objs}
        with warnings.catch_warnings():
            warnings.simplefilter("ignore")
            stage = "constructor"
            gp = GP(objs["x"], objs["y"], hyperpars=theta, kernel=MX.make_kernel(case["kernel"]),
                    mean=MX.make_mean(case["mean"]), **kw)
            stage = "marginal_likelihood"
            ml = float(gp.marginal_likelihood(theta))
            stage = "marginal_likelihood_gradient"
            mlg, mlgrad = gp.marginal_likelihood_gradient(theta)
            stage = "loo_likelihood"
            loo = float(gp.loo_likelihood(theta))
            stage = "loo_likelihood_gradient"
            loog, loograd = gp.loo_likelihood_gradient(theta)
            stage = "loo_predictions"
            lmu, lsig = gp.loo_predictions()
        stage = "reading the stored data"
        for k_ in objs:
            if type(objs[k_]) is not type(keep[k_]) or not np.array_equal(back_to_float(objs[k_]), back_to_float(keep[k_])):
                return {"status": "mutated", "stage": k_, "spec": spec,
                        "error": f"a model-selection function modified the caller's {k_} object"}
        out.update(gp=gp, gx=np.asarray(gp.x, dtype=float).reshape(-1), gy=np.asarray(gp.y, dtype=float).reshape(-1),
                   gsig=np.asarray(gp.sig, dtype=float).reshape(-1),
                   ml=ml, mlg=float(mlg), loo=loo, loog=float(loog),
                   ml_grad=np.array(mlgrad, dtype=float).reshape(-1), loo_grad=np.array(loograd, dtype=float).reshape(-1),
                   loo_mu=np.array(lmu, dtype=float).reshape(-1), loo_sig=np.array(lsig, dtype=float).reshape(-1),
                   grad_dtypes=[str(np.asarray(mlgrad).dtype), str(np.asarray(loograd).dtype)])
    except Exception as e:
        return {"status": "exception", "stage": stage, "spec": spec, "error": f"{type(e).__name__}: {e}"}
    nh = len(MX.unhex(case["hyperpars"]))
    if out["ml_grad"].shape != (nh,) or out["loo_grad"].shape != (nh,):
        return {"status": "shape", "stage": "gradients", "spec": spec, "error": "gradient length differs from the number of hyper-parameters"}
    if out["loo_mu"].shape != (n,) or out["loo_sig"].shape != (n,) or out["gsig"].shape != (n * n,) \
            or out["gy"].shape != (n,) or out["gx"].shape != (n * case["d"],):
        return {"status": "shape", "stage": "loo_predictions / stored data", "spec": spec, "error": "shape"}
    for k_ in ("ml", "mlg", "loo", "loog"):
        if not math.isfinite(out[k_]):
            return {"status": "nonfinite", "stage": k_, "spec": spec, "error": f"{k_} = {out[k_]}"}
    for k_ in ("ml_grad", "loo_grad", "loo_mu", "loo_sig", "gx", "gy", "gsig"):
        if not np.all(np.isfinite(out[k_])):
            return {"status": "nonfinite", "stage": k_, "spec": spec, "error": f"{k_} is not finite"}
    return out


def describe_spec(spec):
    return ", ".join(f"{k_} as {spec[k_][0]} {spec[k_][1]}" for k_ in ("theta", "x", "y", "err"))


def coq_variant(case, spec, vo, nm) -> str:
    n, d = case["n"], case["d"]
    e = case["err"]
    ev = MX.unhex(e["values"]) if e["kind"] != "none" else np.zeros(0)
    kind = {"none": 0, "y_err": 1, "y_cov": 2}[e["kind"]]
    f = [("v_theta", coq_rvec(MX.unhex(case["hyperpars"]), *spec["theta"])),
         ("v_x", coq_rvec(MX.unhex(case["x"]), *spec["x"])), ("v_y", coq_rvec(MX.unhex(case["y"]), *spec["y"])),
         ("v_err", coq_rvec(ev, *spec["err"])), ("v_err_kind", C.cnat(kind)),
         ("v_gx", MX.qvec(vo["gx"])), ("v_gy", MX.qvec(vo["gy"])), ("v_gsig", MX.qvec(vo["gsig"])),
         ("v_ml", C.cq(vo["ml"])), ("v_mlg", C.cq(vo["mlg"])),
         ("v_ml_grad_mean", MX.qvec(vo["ml_grad"][:nm])), ("v_ml_grad_cov", MX.qvec(vo["ml_grad"][nm:])),
         ("v_loo", C.cq(vo["loo"])), ("v_loog", C.cq(vo["loog"])),
         ("v_loo_grad_mean", MX.qvec(vo["loo_grad"][:nm])), ("v_loo_grad_cov", MX.qvec(vo["loo_grad"][nm:])),
         ("v_loo_mu", MX.qvec(vo["loo_mu"])), ("v_loo_sig", MX.qvec(vo["loo_sig"]))]
    return "{| " + ";\n      ".join(f"{k_} := {v}" for k_, v in f) + " |}"
