"""Correspondence for real-valued formula models (DESIGN.md 2.2).

A *goal* is a Coq statement about a model over R at one sampled input, e.g.
    Rabs (model x - y) <= tol
with x, y exact rationals (y = what the implementation returned).  Goals are
batched into files; coqc accepts a file only if every goal in it is proved by
the verified interval evaluator (coq-interval's `interval` / `integral`).
When a file is rejected the failing goal is located from the error position,
recorded, and the remaining goals are re-run.
"""
from __future__ import annotations

import re
from concurrent.futures import ThreadPoolExecutor
from pathlib import Path

from . import common as C

PREAMBLE = """From Coq Require Import Reals List.
From Interval Require Import Tactic.
Import ListNotations.
Open Scope R_scope.
"""

DEFAULT_TACTIC = "interval with (i_prec 90)"


def goal_abs_close(model_term: str, observed, tol) -> str:
    """|model - observed| <= tol   (observed, tol exact rationals)."""
    return f"Rabs ({model_term} - {C.cR(observed)}) <= {C.cR(tol)}"


def tolerance(observed, rel=1e-9, absolute=1e-12):
    from fractions import Fraction
    o = abs(C.frac(observed))
    return Fraction(rel).limit_denominator(10 ** 15) * o + Fraction(absolute).limit_denominator(10 ** 18)


def _write(prop, name, preamble, unfold, goals):
    d = C.GEN / prop
    d.mkdir(parents=True, exist_ok=True)
    p = d / f"{name}.v"
    lines = [preamble]
    starts = []
    for gid, stmt, tac in goals:
        starts.append(len("\n".join(lines).splitlines()) + 1)
        lines.append(f"Lemma verif_goal_{gid} : {stmt}.")
        lines.append(f"Proof. {unfold} {tac or DEFAULT_TACTIC}. Qed.")
    p.write_text("\n".join(lines) + "\n")
    return p, starts


def _run_chunk(prop, name, preamble, unfold, goals, timeout, max_fail=6):
    """Returns (failed ids, broken?: str|None)."""
    failed = []
    todo = list(goals)
    rounds = 0
    while todo:
        rounds += 1
        p, starts = _write(prop, f"{name}_r{rounds}", preamble, unfold, todo)
        rc, out, dt = C.sh(["timeout", str(timeout), "coqc"] + C.COQFLAGS + [str(p)], timeout=timeout + 30)
        if rc == 0:
            return failed, None
        # the location that belongs to the Error (warnings, e.g. Coquelicot's ambiguous-paths
        # notice, also print a `File ..., line N` header and must be skipped)
        errs = re.findall(r'File "[^"]*", line (\d+), characters [^\n]*\n(?:Error|[^\n]*\nError)', out)
        m = re.search(r'line (\d+), characters', out) if not errs else None
        if errs:
            class _M:      # minimal match-like object
                def __init__(self, v): self.v = v
                def group(self, i): return self.v
            m = _M(errs[-1])
        if not m:
            return failed, out[-1500:]
        line = int(m.group(1))
        k = max(i for i, s in enumerate(starts) if s <= line) if any(s <= line for s in starts) else None
        if k is None:
            return failed, out[-1500:]      # the preamble itself failed
        failed.append((todo[k][0], out[-600:]))
        todo = todo[k + 1:]
        if len(failed) >= max_fail:
            return failed, None
    return failed, None


def check_goals(prop: str, name: str, goals, preamble: str = PREAMBLE, unfold: str = "",
                chunk: int = 40, jobs: int = 10, timeout: int = 900):
    """goals: list of (id, statement, tactic-or-None).
    Returns (failed: list[(id, log)], broken: list[str])."""
    chunks = [goals[i:i + chunk] for i in range(0, len(goals), chunk)]
    failed, broken = [], []
    with ThreadPoolExecutor(max_workers=jobs) as ex:
        futs = [ex.submit(_run_chunk, prop, f"{name}_{i}", preamble, unfold, ch, timeout)
                for i, ch in enumerate(chunks)]
        for f in futs:
            fl, br = f.result()
            failed.extend(fl)
            if br:
                broken.append(br)
    return failed, broken
