"""Helpers shared by the matrix-algebra checks (C02, C17; later C11, C16).

  * exact conversion of NumPy arrays to Coq `qmat` / `qvec` literals for
    coq/theories/Matrix/ListOps.v.  Every matrix is written over ONE common
    (power-of-two) denominator: ListOps.qplus' then adds numerators without
    any gcd, which is what makes n = 8 affordable under vm_compute;
  * exact linear algebra on Fractions (Gaussian elimination) for the
    *property oracles* -- never used as the model;
  * decoding of the `case*100 + obligation` failure lists printed by the
    generated files;
  * construction of kernels / mean functions from JSON-able specs so that replay
    files are self-contained.
"""
from __future__ import annotations

from fractions import Fraction

import numpy as np

from . import common as C

HEADER = """From Coq Require Import List QArith.
From IT Require Import Matrix.MxOps Matrix.ListOps {mods}.
Import ListNotations.
Open Scope Q_scope.
"""


# ----------------------------------------------------------------- Coq literals
def _fr(a):
    return [[C.frac(v) for v in row] for row in a]


def qmat(a) -> str:
    """2-D array -> Coq `qmat` literal, all entries over one common denominator."""
    a = np.asarray(a, dtype=float)
    assert a.ndim == 2, a.shape
    fr = _fr(a)
    den = 1
    for row in fr:
        for v in row:
            den = max(den, v.denominator)          # all are powers of two
    for row in fr:
        for v in row:
            assert den % v.denominator == 0
    rows = ["[" + "; ".join(f"({v.numerator * (den // v.denominator)} # {den})" for v in row) + "]"
            for row in fr]
    return "[" + ";\n    ".join(rows) + "]"


def qvec(a) -> str:
    a = np.asarray(a, dtype=float).reshape(-1)
    fr = [C.frac(v) for v in a]
    den = max([1] + [v.denominator for v in fr])
    return "[" + "; ".join(f"({v.numerator * (den // v.denominator)} # {den})" for v in fr) + "]"


def qtol(x) -> str:
    """A tolerance as a small rational (rounded UP to 2 significant digits is not
    needed: the value itself is written exactly)."""
    return C.cq(float(x))


def decode_failures(codes):
    """[case*100 + obligation] -> {case: [obligations]}"""
    out = {}
    for c in codes:
        out.setdefault(c // 100, []).append(c % 100)
    return out


# ----------------------------------------------------------------- exact linear algebra (oracles)
def fmat(a):
    a = np.asarray(a, dtype=float)
    if a.ndim == 1:
        a = a.reshape(-1, 1)
    return [[C.frac(v) for v in row] for row in a]


def f_mul(A, B):
    Bt = list(zip(*B))
    return [[sum((x * y for x, y in zip(r, c)), Fraction(0)) for c in Bt] for r in A]


def f_add(A, B):
    return [[x + y for x, y in zip(r, s)] for r, s in zip(A, B)]


def f_sub(A, B):
    return [[x - y for x, y in zip(r, s)] for r, s in zip(A, B)]


def f_tr(A):
    return [list(r) for r in zip(*A)]


def f_eye(n):
    return [[Fraction(int(i == j)) for j in range(n)] for i in range(n)]


def f_solve(A, B):
    """Exact solution X of A X = B (A square, Fractions).  Raises ZeroDivisionError
    if A is singular."""
    n = len(A)
    M = [list(A[i]) + list(B[i]) for i in range(n)]
    for k in range(n):
        p = next((i for i in range(k, n) if M[i][k] != 0), None)
        if p is None:
            raise ZeroDivisionError("singular matrix")
        M[k], M[p] = M[p], M[k]
        pk = M[k][k]
        M[k] = [v / pk for v in M[k]]
        for i in range(n):
            if i != k and M[i][k] != 0:
                f = M[i][k]
                M[i] = [a - f * b for a, b in zip(M[i], M[k])]
    return [row[n:] for row in M]


def f_max_abs_diff(A, B):
    """max |A - B| where B is a NumPy array / list of floats of the same shape."""
    Bf = fmat(B)
    assert len(A) == len(Bf) and all(len(r) == len(s) for r, s in zip(A, Bf)), "shape"
    return max((abs(x - y) for r, s in zip(A, Bf) for x, y in zip(r, s)), default=Fraction(0))


# ----------------------------------------------------------------- kernels / means from specs
def make_kernel(spec):
    """spec: ["SE"] | ["RQ"] | ["WN"] | ["HN"] | ["sum", spec, ...] | ["CP", [spec, ...], axis]"""
    from inference.gp import (SquaredExponential, RationalQuadratic, WhiteNoise,
                              HeteroscedasticNoise, ChangePoint)
    from inference.gp.covariance import CompositeCovariance
    k = spec[0]
    if k == "SE":
        return SquaredExponential()
    if k == "RQ":
        return RationalQuadratic()
    if k == "WN":
        return WhiteNoise()
    if k == "HN":
        return HeteroscedasticNoise()
    if k == "sum":
        ks = [make_kernel(s) for s in spec[1:]]
        out = ks[0]
        for kk in ks[1:]:
            out = out + kk
        assert isinstance(out, CompositeCovariance)
        return out
    if k == "CP":
        return ChangePoint([make_kernel(s) for s in spec[1]], axis=spec[2])
    raise ValueError(spec)


def kernel_name(spec):
    k = spec[0]
    if k == "sum":
        return "+".join(kernel_name(s) for s in spec[1:])
    if k == "CP":
        return "CP(" + ",".join(kernel_name(s) for s in spec[1]) + ")"
    return k


def kernel_has(spec, what):
    if spec[0] == what:
        return True
    if spec[0] == "sum":
        return any(kernel_has(s, what) for s in spec[1:])
    if spec[0] == "CP":
        return any(kernel_has(s, what) for s in spec[1])
    return False


def kernel_hyperpars(r, spec, n, d, amp_lo=0.5, amp_hi=3.0, noise_lo=0.15, noise_hi=0.6):
    """Random hyper-parameter vector (list of floats) for `spec` on n points in
    [0,4]^d.  Log-parameters are drawn so that amplitudes are O(1)."""
    import math
    k = spec[0]
    if k == "SE":
        return [math.log(r.uniform(amp_lo, amp_hi))] + [math.log(r.uniform(0.4, 2.5)) for _ in range(d)]
    if k == "RQ":
        return ([math.log(r.uniform(amp_lo, amp_hi)), math.log(r.uniform(0.5, 4.0))]
                + [math.log(r.uniform(0.4, 2.5)) for _ in range(d)])
    if k == "WN":
        return [math.log(r.uniform(noise_lo, noise_hi))]
    if k == "HN":
        return [math.log(r.uniform(noise_lo, noise_hi)) for _ in range(n)]
    if k == "sum":
        out = []
        for s in spec[1:]:
            out += kernel_hyperpars(r, s, n, d, amp_lo, amp_hi, noise_lo, noise_hi)
        return out
    if k == "CP":
        out = []
        for s in spec[1]:
            out += kernel_hyperpars(r, s, n, d, amp_lo, amp_hi, noise_lo, noise_hi)
        for _ in range(len(spec[1]) - 1):
            out += [r.uniform(1.0, 3.0), r.uniform(0.15, 1.0)]
        return out
    raise ValueError(spec)


def make_mean(name):
    from inference.gp import ConstantMean, LinearMean, QuadraticMean
    return {"const": ConstantMean, "linear": LinearMean, "quadratic": QuadraticMean}[name]()


def mean_hyperpars(r, name, d):
    if name == "const":
        return [r.uniform(-2, 2)]
    if name == "linear":
        return [r.uniform(-2, 2)] + [r.uniform(-1, 1) for _ in range(d)]
    return [r.uniform(-2, 2)] + [r.uniform(-1, 1) for _ in range(d)] + [r.uniform(-0.3, 0.3) for _ in range(d)]


def hexlist(a):
    return [float(v).hex() for v in np.asarray(a, dtype=float).reshape(-1)]


def unhex(lst, shape=None):
    a = np.array([float.fromhex(h) for h in lst], dtype=float)
    return a.reshape(shape) if shape is not None else a
