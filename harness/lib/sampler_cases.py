"""Generation of sampler configurations and recorded transitions shared by the
C01 / C03 / C09 checks."""
from __future__ import annotations

import warnings
from fractions import Fraction as F

import numpy as np

from . import common as C
from . import samplers as S
from .scripted import ScriptedRNG, RecordingPosterior, quadratic_logp

SAMPLERS = ["gibbs", "metro", "pca", "hmc", "ensemble"]


def dy(r, lo, hi, den):
    return float(F(r.randint(lo * den, hi * den), den))


def make_config(r, kind):
    """A random, mostly-valid configuration (plain data; picklable)."""
    n = r.choice([1, 2, 2, 3, 3, 4])
    a, m, c = S.random_quadratic(r, n)
    cfg = {"kind": kind, "n": n, "a": a, "m": m, "c": c,
           "T": r.choice([1.0, 1.0, 2.0, 4.0, 8.0, 0.5]),
           "start": [dy(r, -4, 4, 2) for _ in range(n)],
           "widths": [dy(r, 0, 2, 4) or 0.5 for _ in range(n)],
           "rng_seed": r.randint(0, 10 ** 9), "bounds": None}
    if r.random() < 0.5:
        lo = [s - dy(r, 0, 3, 2) - 0.5 for s in cfg["start"]]
        hi = [s + dy(r, 0, 3, 2) + 0.5 for s in cfg["start"]]
        cfg["bounds"] = (lo, hi)
    if kind in ("gibbs", "metro"):
        # per-parameter limits chosen through the public setters
        lim = []
        for i in range(n):
            u = r.random()
            if u < 0.3 and cfg["bounds"]:
                lim.append(("bnd", cfg["bounds"][0][i], cfg["bounds"][1][i]))
            elif u < 0.4 and cfg["bounds"] and cfg["start"][i] >= 0 and cfg["bounds"][1][i] > 0:
                lim.append(("both", cfg["bounds"][0][i], cfg["bounds"][1][i]))
            elif u < 0.5 and cfg["start"][i] >= 0:
                lim.append(("abs",))
            else:
                lim.append(("std",))
        cfg["limits"] = lim
        cfg["max_tries"] = r.choice([50, 50, 3])
    if kind == "pca":
        cfg["rotate"] = r.random() < 0.5 and n >= 2
    if kind == "hmc":
        cfg["eps"] = float(F(1, r.choice([4, 8, 16])))
        cfg["steps"] = r.randint(1, 6)
        mk = r.choice(["none", "scalar", "vector", "matrix"])
        cfg["mass_kind"] = mk
        if mk == "scalar":
            cfg["inv_mass"] = r.choice([4.0, 0.25, 16.0])
        elif mk == "vector":
            cfg["inv_mass"] = [r.choice([1.0, 4.0, 0.25]) for _ in range(n)]
        elif mk == "matrix":
            d = [r.choice([1.0, 2.0, 4.0]) for _ in range(n)]
            M = np.diag(d)
            if n > 1:
                i, j = r.sample(range(n), 2)
                M[i, j] = M[j, i] = 0.5
            cfg["inv_mass"] = M.tolist()
            cfg["bounds"] = None if r.random() < 0.7 else cfg["bounds"]
        cfg["T"] = r.choice([1.0, 2.0, 4.0])
        # keep the leapfrog stable: eps^2 * max(inv_mass) * 2 max(a) / T <= 1/2
        im = cfg.get("inv_mass", 1.0)
        im_max = float(np.max(np.abs(np.asarray(im, dtype=float)))) * (1.5 if mk == "matrix" else 1.0)
        curv = 2 * float(max(a)) * (1.0 + 1.0 * bool(c)) / cfg["T"]
        while cfg["eps"] ** 2 * im_max * curv > 0.5:
            cfg["eps"] /= 2
    if kind == "ensemble":
        nw = n + 1 + r.randint(0, 3)
        cfg["alpha"] = r.choice([2.0, 2.0, 8.0, 1.5, 3.0, 5.0])
        # a small attempt budget makes the failed-update path (walker keeps its position) common
        cfg["max_attempts"] = r.choice([100, 100, 1, 2, 3])
        def valid(sp):
            arr = np.array(sp, dtype=float)
            try:
                if n == 1:
                    return bool(np.var(arr) > 0)
                cv = np.cov(arr.T)
                sd = np.sqrt(np.diag(cv))
                if not (sd > 0).all():
                    return False
                return not (abs(np.triu(cv / (sd[:, None] * sd[None, :]), k=1)) > 0.99).any()
            except Exception:
                return False

        def draw():
            if cfg["bounds"]:
                lo, hi = cfg["bounds"]
                # dyadic points strictly inside the box (never clipped onto a wall)
                return [[lo[i] + (hi[i] - lo[i]) * r.randint(1, 63) / 64.0 for i in range(n)] for _ in range(nw)]
            return [[dy(r, -3, 3, 4) for _ in range(n)] for _ in range(nw)]

        sp = draw()
        for _ in range(200):
            if valid(sp):
                break
            sp = draw()
        else:
            cfg["bounds"] = None
            sp = [[float(i * (j + 2) % (nw + 1)) + 0.25 * j for j in range(n)] for i in range(nw)]
            while not valid(sp):
                sp = [[dy(r, -3, 3, 4) for _ in range(n)] for _ in range(nw)]
        cfg["positions"] = sp
        cfg["T"] = 1.0
    return cfg


INPUT_FORMS = ("f64", "flist", "ftuple", "ilist", "ituple", "i64", "i32", "f32")
INTEGER_FORMS = ("ilist", "ituple", "i64", "i32")


def as_form(values, form=None, array_only=False):
    """The numbers `values` (vector or matrix) in one of the forms a caller may reasonably
    pass them in: float64 array (None / "f64", the default everywhere), list / tuple of
    Python floats, list / tuple of Python ints, int64 / int32 / float32 array.  Integer
    forms need integral values.  array_only: the argument must be an ndarray (list and
    tuple forms fall back to the array of the same element type)."""
    a = np.array(values, dtype=float)
    if form in (None, "f64"):
        return a
    if form not in INPUT_FORMS:
        raise ValueError(form)
    if form in INTEGER_FORMS and not (a == np.round(a)).all():
        raise ValueError(f"form {form} needs integral values, got {a.tolist()}")
    if array_only:
        form = {"flist": "f64", "ftuple": "f64", "ilist": "i64", "ituple": "i64"}.get(form, form)
    if form == "f64":
        return a
    if form == "f32":
        return a.astype(np.float32)
    if form == "i64":
        return a.astype(np.int64)
    if form == "i32":
        return a.astype(np.int32)
    conv = int if form in INTEGER_FORMS else float
    seq = tuple if form.endswith("tuple") else list

    def rec(x):
        return seq(rec(v) for v in x) if isinstance(x, list) else conv(x)
    return rec(a.tolist())


def build(cfg, uniform_bits=None, inputs=None):
    """Construct the real sampler for cfg with scripted randomness.
    Returns (sampler, posterior recorder, rng, exact fn).

    inputs (optional dict): receives the very objects that were handed to the constructor
    ("start", "widths", "bounds" = (lower, upper), "positions", "inv_mass"), so that a check can
    go on using them the way a caller would (e.g. modify them in place afterwards).

    cfg["input_form"] (optional): {"start" | "widths" | "bounds" | "positions" | "inv_mass":
    one of INPUT_FORMS} -- the form in which that argument is handed to the sampler
    (default: float64 arrays)."""
    from inference.mcmc.gibbs import GibbsChain, MetropolisChain
    from inference.mcmc.pca import PcaChain
    from inference.mcmc.hmc import HamiltonianChain
    from inference.mcmc.ensemble import EnsembleSampler

    fn, g = quadratic_logp(cfg["a"], cfg["m"], cfg["c"])
    post = RecordingPosterior(fn, g)
    kind = cfg["kind"]
    ub = uniform_bits or {"ensemble": 6, "hmc": 14}.get(kind, 30)
    rng = ScriptedRNG(cfg["rng_seed"], uniform_bits=ub)
    forms = cfg.get("input_form") or {}
    start = as_form(cfg["start"], forms.get("start"))
    widths = as_form(cfg["widths"], forms.get("widths"))
    b = cfg["bounds"]
    bounds = None if b is None else (as_form(b[0], forms.get("bounds")), as_form(b[1], forms.get("bounds")))
    if inputs is not None:
        inputs.update(start=start, widths=widths, bounds=bounds)
    with warnings.catch_warnings():
        warnings.simplefilter("ignore")
        if kind in ("gibbs", "metro"):
            cls = GibbsChain if kind == "gibbs" else MetropolisChain
            ch = cls(posterior=post, start=start, widths=widths, temperature=cfg["T"], display_progress=False)
            for i, lim in enumerate(cfg["limits"]):
                if forms.get("bounds") in INTEGER_FORMS and lim[0] in ("bnd", "both"):
                    lim = (lim[0], int(lim[1]), int(lim[2]))
                if lim[0] == "bnd":
                    ch.set_boundaries(i, (lim[1], lim[2]))
                elif lim[0] == "both":
                    ch.set_boundaries(i, (lim[1], lim[2]))
                    ch.set_non_negative(i, True)
                elif lim[0] == "abs":
                    ch.set_non_negative(i, True)
            for p in ch.params:
                p.max_tries = cfg["max_tries"]
            S.attach_rng(ch, rng)
        elif kind == "pca":
            ch = PcaChain(posterior=post, start=start, widths=widths, temperature=cfg["T"], bounds=bounds,
                          display_progress=False)
            if cfg.get("rotate"):
                d0, d1 = np.zeros(cfg["n"]), np.zeros(cfg["n"])
                d0[0], d0[1], d1[0], d1[1] = 0.6, 0.8, -0.8, 0.6
                ch.directions[0], ch.directions[1] = d0, d1
            S.attach_rng(ch, rng)
        elif kind == "hmc":
            im = cfg.get("inv_mass")
            if isinstance(im, list):
                im = as_form(im, forms.get("inv_mass"), array_only=True)
            elif im is not None and forms.get("inv_mass") in INTEGER_FORMS:
                im = int(im)
            if inputs is not None:
                inputs["inv_mass"] = im
            ch = HamiltonianChain(posterior=post, start=start, grad=post.gradient, epsilon=cfg["eps"],
                                  temperature=cfg["T"], bounds=bounds, inverse_mass=im, display_progress=False)
            ch.steps = cfg["steps"]
            ch.rng = rng
        elif kind == "ensemble":
            positions = as_form(cfg["positions"], forms.get("positions"), array_only=True)
            if inputs is not None:
                inputs["positions"] = positions
            ch = EnsembleSampler(posterior=post, starting_positions=positions,
                                 alpha=cfg["alpha"], bounds=bounds, display_progress=False)
            ch.rng = rng
            ch.max_attempts = int(cfg.get("max_attempts", 100))
        else:
            raise ValueError(kind)
    S.freeze_adaptation(ch)
    return ch, post, rng, fn


def record(cfg, nsteps):
    """Returns (sampler, post, rng, fn, records) -- may raise on a broken tree."""
    ch, post, rng, fn = build(cfg)
    k = cfg["kind"]
    if k in ("gibbs", "metro"):
        recs = S.record_gibbs_like(ch, post, rng, nsteps, k)
    elif k == "pca":
        recs = S.record_pca(ch, post, rng, nsteps)
    elif k == "hmc":
        recs = S.record_hmc(ch, post, rng, nsteps)
    else:
        recs = S.record_ensemble(ch, post, rng, nsteps)
    return ch, post, rng, fn, recs


def coq_terms(cfg, recs, ens_pinned=False):
    qp = S.coq_qpost(cfg["a"], cfg["m"], cfg["c"])
    k = cfg["kind"]
    if k == "gibbs":
        return [S.coq_gibbs_case(rc, qp, "check_gibbs") for rc in recs]
    if k == "metro":
        return [S.coq_gibbs_case(rc, qp, "check_metro") for rc in recs]
    if k == "pca":
        return [S.coq_pca_case(rc, qp) for rc in recs]
    if k == "hmc":
        return [S.coq_hmc_case(rc, qp) for rc in recs]
    return [S.coq_ens_case(rc, qp, pinned=ens_pinned) for rc in recs]


def describe(cfg):
    d = dict(cfg)
    d["a"] = [str(x) for x in cfg["a"]]
    d["m"] = [str(x) for x in cfg["m"]]
    d["c"] = {f"{i},{j}": str(v) for (i, j), v in cfg["c"].items()}
    return d


def undescribe(d):
    cfg = dict(d)
    cfg["a"] = [F(x) for x in d["a"]]
    cfg["m"] = [F(x) for x in d["m"]]
    cfg["c"] = {tuple(int(t) for t in k.split(",")): F(v) for k, v in d["c"].items()}
    if cfg.get("bounds") is not None:
        cfg["bounds"] = (list(cfg["bounds"][0]), list(cfg["bounds"][1]))
    if "limits" in cfg:
        cfg["limits"] = [tuple(l) for l in cfg["limits"]]
    return cfg


# ---------------------------------------------------------------- the C03 oracle
def stored(ch, kind):
    """(samples as list of tuples of Fractions, probs as Fractions, beta)."""
    if kind in ("gibbs", "metro", "pca"):
        n = len(ch.params[0].samples)
        samples = [tuple(C.frac(p.samples[k]) for p in ch.params) for k in range(n)]
        return samples, [C.frac(v) for v in ch.probs], C.frac(ch.inv_temp)
    if kind == "hmc":
        return [tuple(S.frs(t)) for t in ch.theta], [C.frac(v) for v in ch.probs], C.frac(ch.inv_temp)
    if ch.sample is None:
        return [], [], F(1)
    return [tuple(S.frs(t)) for t in ch.sample], [C.frac(v) for v in ch.sample_probs], F(1)


def alignment_failures(ch, kind, fn):
    """Evaluate C03 itself on the implementation: k-th stored log-probability =
    logp(k-th stored sample) * beta, exactly."""
    samples, probs, beta = stored(ch, kind)
    bad = []
    if len(samples) != len(probs):
        bad.append(f"{len(samples)} stored samples but {len(probs)} stored log-probabilities")
    for k, (x, p) in enumerate(zip(samples, probs)):
        want = fn(list(x)) * beta
        if want != p:
            bad.append(f"index {k}: stored log-probability {float(p)!r} but logp(sample)/T = {float(want)!r}")
            if len(bad) > 3:
                break
    if kind == "ensemble":
        for i, (x, p) in enumerate(zip(ch.walker_positions, ch.walker_probs)):
            if fn(S.frs(x)) != C.frac(p):
                bad.append(f"walker {i}: stored value is not logp(position)")
    return bad
