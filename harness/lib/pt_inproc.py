"""The REAL ParallelTempering coordinator code (swap / tight_pairs / uniform_pairs /
take_steps) and the REAL worker loop (tempering_process), run in one process:
every Connection is replaced by an object that hands each message to the real
worker loop for that chain synchronously.  No processes, no timing -- used where
only the exchange bookkeeping matters (C01, C03); the multi-process behaviour is
C08's subject."""
from __future__ import annotations

import threading

import numpy as np


class _End:
    def __init__(self):
        self.flag = False

    def is_set(self):
        return self.flag

    def set(self):
        self.flag = True


class _WorkerSide:
    def __init__(self, messages, end):
        self.inbox, self.sent, self.end = list(messages), [], end

    def poll(self, timeout=None):
        if not self.inbox:
            self.end.set()
            return False
        return True

    def recv(self):
        return self.inbox.pop(0)

    def send(self, obj):
        self.sent.append(obj)


class InProcessPipe:
    """Parent end of a pipe whose child end is served on the spot by the real worker loop."""

    def __init__(self, chain):
        self.chain = chain
        self.replies = []

    def send(self, msg):
        from inference.mcmc.parallel import tempering_process
        end = _End()
        side = _WorkerSide([msg], end)
        tempering_process(self.chain, side, end)
        self.replies.extend(side.sent)

    def recv(self):
        return self.replies.pop(0)


def make_pt(chains, rng, choice_fn):
    """A ParallelTempering object around `chains` without processes.  `rng` replaces pt.rng,
    `choice_fn` replaces the module-level random.choice used by tight_pairs."""
    import inference.mcmc.parallel as par
    pt = object.__new__(par.ParallelTempering)
    pt.rng = rng
    pt.shutdown_evt = _End()
    pt.connections = [InProcessPipe(c) for c in chains]
    pt.processes = []
    pt.temperatures = [1.0 / c.inv_temp for c in chains]
    pt.inv_temps = [c.inv_temp for c in chains]
    pt.N_chains = len(chains)
    pt.attempted_swaps = np.identity(pt.N_chains)
    pt.successful_swaps = np.zeros([pt.N_chains, pt.N_chains])
    par.choice = choice_fn
    return pt
