"""Scripted random generators, recording posteriors and scripted clocks.

Every source of randomness in inference-tools is a plain attribute
(`chain.rng`, `Parameter.rng`, `pt.rng`) or a module global (`priors.rng`,
`conditional.rng`, `base.permutation`, `parallel.choice`, `gp.*.random`,
`kde.random`), so the harness can substitute a ScriptedRNG without touching the
source.  A ScriptedRNG hands out *dyadic* numbers from one seeded PRNG stream and
logs every draw, so that (a) the implementation's arithmetic on them is exact in
double precision and (b) the same tape can be replayed through the Coq model.

It accepts the call signatures numpy.random.Generator accepts (positional or
keyword), so a harmless change of calling style is not a disagreement.
"""
from __future__ import annotations

import random as _random
from fractions import Fraction

import numpy as np


def _f64(v):
    """numpy.random.Generator converts loc / scale / low / high to double before use; a
    NumPy scalar or array of another dtype (float32, integers) must not drag the scripted
    draw down to its own precision (NumPy 2 promotion keeps float32 against a Python float)."""
    if isinstance(v, np.generic) and not isinstance(v, np.float64):
        return np.float64(v)
    if isinstance(v, np.ndarray) and v.dtype != np.float64 and v.dtype.kind in "fiub":
        return v.astype(np.float64)
    return v


class ScriptedRNG:
    def __init__(self, seed, normal_bits=6, normal_range=3, uniform_bits=30, tape=None):
        """normal draws: k / 2^normal_bits with |k| <= normal_range * 2^normal_bits
        uniform draws: k / 2^uniform_bits in [0, 1).
        `tape`: optional list of pre-set values (Fractions/floats) consumed first."""
        self.r = _random.Random(seed)
        self.nb, self.nr, self.ub = normal_bits, normal_range, uniform_bits
        self.log = []          # (kind, Fraction value | list)
        self.preset = list(tape or [])
        self.uniform_hook = None   # callable() -> float|None : lets a test place u

    # ---- primitive draws
    def _std_normal(self):
        if self.preset:
            v = Fraction(self.preset.pop(0))
        else:
            k = 0
            while k == 0:      # an exact 0.0 has probability zero for a real generator
                k = self.r.randint(-self.nr * (1 << self.nb), self.nr * (1 << self.nb))
            v = Fraction(k, 1 << self.nb)
        self.log.append(("normal", v))
        return float(v)

    def _uniform(self):
        v = None
        if self.preset:
            v = Fraction(self.preset.pop(0))
        elif self.uniform_hook is not None:
            h = self.uniform_hook()
            if h is not None:
                v = Fraction(h)
        if v is None:
            mode = self.r.random()
            if mode < 0.15:      # tiny u: accepts almost anything
                v = Fraction(self.r.randint(1, 1 << 10), 1 << 40)
            elif mode < 0.30:    # u close to one: rejects almost anything
                v = 1 - Fraction(self.r.randint(1, 1 << 10), 1 << 30)
            else:
                v = Fraction(self.r.randint(1, (1 << self.ub) - 1), 1 << self.ub)
        self.log.append(("uniform", v))
        return float(v)

    def _shape(self, size):
        if size is None:
            return None
        if isinstance(size, (int, np.integer)):
            return (int(size),)
        return tuple(int(s) for s in size)

    def _fill(self, size, draw):
        shp = self._shape(size)
        if shp is None:
            return draw()
        n = int(np.prod(shp)) if shp else 1
        return np.array([draw() for _ in range(n)], dtype=float).reshape(shp)

    # ---- numpy.random.Generator interface (the part the code base uses)
    def normal(self, loc=0.0, scale=1.0, size=None):
        if size is None:
            shp = np.broadcast(np.asarray(loc), np.asarray(scale)).shape
            size = shp if shp != () else None
        z = self._fill(size, self._std_normal)
        return _f64(loc) + _f64(scale) * z

    def standard_normal(self, size=None):
        return self._fill(size, self._std_normal)

    def random(self, size=None):
        return self._fill(size, self._uniform)

    def uniform(self, low=0.0, high=1.0, size=None):
        if size is None:
            shp = np.broadcast(np.asarray(low), np.asarray(high)).shape
            size = shp if shp != () else None
        u = self._fill(size, self._uniform)
        low, high = _f64(low), _f64(high)
        return low + (high - low) * u

    def exponential(self, scale=1.0, size=None):
        if size is None:
            shp = np.asarray(scale).shape
            size = shp if shp != () else None

        def draw():
            k = self.r.randint(1, 8 << 6)
            v = Fraction(k, 1 << 6)
            self.log.append(("exponential", v))
            return float(v)
        return scale * self._fill(size, draw)

    def integers(self, low, high=None, size=None, endpoint=False):
        if high is None:
            low, high = 0, low
        hi = int(high) + (1 if endpoint else 0)

        def draw():
            if self.preset:
                v = int(self.preset.pop(0))
            else:
                v = self.r.randrange(int(low), hi)
            self.log.append(("integer", v))
            return v
        shp = self._shape(size)
        if shp is None:
            return draw()
        return np.array([draw() for _ in range(int(np.prod(shp)))], dtype=int).reshape(shp)

    def permutation(self, x):
        n = int(x) if isinstance(x, (int, np.integer)) else len(x)
        perm = list(range(n))
        self.r.shuffle(perm)
        self.log.append(("permutation", list(perm)))
        if isinstance(x, (int, np.integer)):
            return np.array(perm)
        return np.asarray(x)[perm]

    def shuffle(self, x):
        n = len(x)
        perm = list(range(n))
        self.r.shuffle(perm)
        self.log.append(("shuffle", list(perm)))
        vals = [x[i] for i in perm]
        for i in range(n):
            x[i] = vals[i]

    def choice(self, a, size=None, replace=True, p=None):
        """numpy Generator.choice and random.choice(seq) both route here."""
        n = int(a) if isinstance(a, (int, np.integer)) else len(a)
        pv = None if p is None else [Fraction(float(q)) for q in np.asarray(p, dtype=float)]
        self.log.append(("choice_call", {"n": n, "p": pv}))

        def draw():
            if self.preset:
                k = int(self.preset.pop(0))
            else:
                k = self.r.randrange(n)
            self.log.append(("choice", k))
            return k
        shp = self._shape(size)
        if shp is None:
            k = draw()
            return k if isinstance(a, (int, np.integer)) else a[k]
        ks = np.array([draw() for _ in range(int(np.prod(shp)))], dtype=int).reshape(shp)
        return ks if isinstance(a, (int, np.integer)) else np.asarray(a)[ks]

    # helpers for tests
    def draws(self, kind=None):
        return [v for k, v in self.log if kind is None or k == kind]

    def mark(self):
        return len(self.log)


class RecordingPosterior:
    """Wraps an exact rational log-density.  `fn(theta: list[Fraction]) -> Fraction`.
    Logs every evaluation; flags evaluations whose exact value is not a double
    (then the run is not exact and the case must be dropped)."""

    def __init__(self, fn, grad=None, delay=None):
        self.fn, self.gfn = fn, grad
        self.evals = []     # (tuple of Fractions, Fraction)
        self.grad_evals = []
        self.inexact = 0
        self.delay = delay

    def __call__(self, theta):
        th = [Fraction(float(t)) for t in np.atleast_1d(np.asarray(theta, dtype=float))]
        v = self.fn(th)
        f = float(v)
        if Fraction(f) != v:
            self.inexact += 1
        self.evals.append((tuple(th), v))
        if self.delay:
            self.delay(th)
        return f

    def gradient(self, theta):
        th = [Fraction(float(t)) for t in np.atleast_1d(np.asarray(theta, dtype=float))]
        g = self.gfn(th)
        out = np.array([float(x) for x in g])
        if any(Fraction(float(x)) != x for x in g):
            self.inexact += 1
        self.grad_evals.append((tuple(th), tuple(g)))
        return out


def quadratic_logp(a, m, c=None):
    """logp(x) = - sum_i a_i (x_i - m_i)^2 - sum_{i<j} c_ij x_i x_j  (Fractions).
    Returns (fn, grad)."""
    n = len(a)
    c = c or {}

    def fn(x):
        s = sum(-a[i] * (x[i] - m[i]) ** 2 for i in range(n))
        for (i, j), cij in c.items():
            s -= cij * x[i] * x[j]
        return s

    def grad(x):
        g = [-2 * a[i] * (x[i] - m[i]) for i in range(n)]
        for (i, j), cij in c.items():
            g[i] -= cij * x[j]
            g[j] -= cij * x[i]
        return g
    return fn, grad


class ScriptedClock:
    """Replacement for time.time inside a module: advances by a scripted cost on
    every call and/or when `tick(dt)` is called by a stub chain's take_step."""

    def __init__(self, start=1_000_000.0, per_call=0.0):
        self.t = start
        self.per_call = per_call
        self.calls = 0

    def __call__(self):
        self.calls += 1
        self.t += self.per_call
        return self.t

    def tick(self, dt):
        self.t += dt
