"""Shared machinery of the /verif checks (see DESIGN.md sections 2-4).

Everything a property module needs:
  * exact float <-> rational conversion and Coq literal printing,
  * (re)building the Coq development and auditing a property file
    (Print Assumptions + forbidden-token scan),
  * writing generated case files, running coqc on them in parallel and
    reading back which cases disagree,
  * the violation protocol (replay files, VIOLATION / KNOWN-FINDING lines),
  * the evidence writer.
"""
from __future__ import annotations

import hashlib
import json
import os
import random
import re
import subprocess
import sys
import time
from concurrent.futures import ThreadPoolExecutor
from fractions import Fraction
from pathlib import Path

VERIF = Path(__file__).resolve().parents[2]
COQ = VERIF / "coq"
GEN = COQ / "gen"
EVID = Path(os.environ.get("VERIF_EVIDENCE_DIR", str(VERIF / "evidence")))   # scratch dir for trial runs
REPLAYS = EVID / "replays"
REPO = Path(os.environ.get("VERIF_REPO", "/repo"))
KNOWN = VERIF / "known_findings.json"

# make the implementation importable from the working tree, never write .pyc
os.environ.setdefault("PYTHONDONTWRITEBYTECODE", "1")
os.environ.setdefault("PYTHONHASHSEED", "0")
os.environ.setdefault("MPLBACKEND", "Agg")
os.environ.setdefault("C_BOWMAN_INFERENCE_TOOLS_VERIF", "1")
sys.dont_write_bytecode = True
if str(REPO) not in sys.path:
    sys.path.insert(0, str(REPO))

COQFLAGS = ["-Q", str(COQ / "theories"), "IT", "-Q", str(GEN), "ITGen"]

# Axioms of the standard library that the development is allowed to depend on.
# Anything else reported by Print Assumptions fails the audit.
ALLOWED_AXIOMS = {
    "ClassicalDedekindReals.sig_forall_dec",
    "ClassicalDedekindReals.sig_not_dec",
    "FunctionalExtensionality.functional_extensionality_dep",
    "Classical_Prop.classic",
    "Eqdep.Eq_rect_eq.eq_rect_eq",
    "JMeq.JMeq_eq",
    "ProofIrrelevance.proof_irrelevance",
    "ClassicalEpsilon.constructive_indefinite_description",
    "PropExtensionality.propositional_extensionality",
    "Epsilon.epsilon_statement",      # Coq.Logic.Epsilon: choiceType structure on R (Common/Rstruct.v)
}
# primitive machine integers / floats / arrays used by coq-interval's evaluator
ALLOWED_PRIMITIVE_PREFIXES = ("Uint63.", "PrimInt63.", "PrimFloat.", "Sint63.",
                              "FloatAxioms.", "FloatOps.", "PArray.", "Uint63Axioms.",
                              "CarryType.", "PrimString.")

FORBIDDEN = re.compile(
    r"\b(Admitted|admit|Axiom|Axioms|Parameter|Parameters|Conjecture|Conjectures|"
    r"Admit Obligations|bypass_check|Unset Guard Checking|Unset Positivity Checking|"
    r"Unset Universe Checking|type-in-type|impredicative-set|native_compute)\b"
)


# --------------------------------------------------------------------------
# configuration of a run
# --------------------------------------------------------------------------
def seed() -> int:
    try:
        return int(os.environ.get("VERIF_SEED", "0"))
    except ValueError:
        return int(hashlib.sha256(os.environ["VERIF_SEED"].encode()).hexdigest()[:8], 16)


def rng_for(prop: str, stream: str = "") -> random.Random:
    """All random choices of a check derive from VERIF_SEED through here."""
    h = hashlib.sha256(f"{seed()}/{prop}/{stream}".encode()).hexdigest()
    return random.Random(int(h[:16], 16))


# --------------------------------------------------------------------------
# exact numbers and Coq literals
# --------------------------------------------------------------------------
def frac(x) -> Fraction:
    """Exact rational value of a Python / NumPy number (no rounding)."""
    if isinstance(x, Fraction):
        return x
    if isinstance(x, bool):
        return Fraction(int(x))
    if isinstance(x, int):
        return Fraction(x)
    try:
        import numpy as np
        if isinstance(x, np.integer):
            return Fraction(int(x))
        if isinstance(x, np.floating):
            x = float(x)
    except ImportError:
        pass
    x = float(x)
    if x != x or x in (float("inf"), float("-inf")):
        raise ValueError(f"not a finite number: {x!r}")
    return Fraction(*x.as_integer_ratio())


def dyadic(r: random.Random, bits: int = 8, scale_pow: int = 0) -> Fraction:
    """Random dyadic rational  m / 2^k * 2^scale_pow  with |m| < 2^bits."""
    m = r.randint(-(1 << bits) + 1, (1 << bits) - 1)
    k = r.randint(0, bits)
    return Fraction(m, 1 << k) * (Fraction(2) ** scale_pow)


def cz(n) -> str:
    n = int(n)
    return f"({n})" if n < 0 else f"{n}"


def cq(x) -> str:
    f = frac(x)
    return f"({f.numerator} # {f.denominator})"


def cnat(n) -> str:
    n = int(n)
    assert n >= 0
    return f"{n}%nat"


def cbool(b) -> str:
    return "true" if b else "false"


def clist(items, sep="; ") -> str:
    return "[" + sep.join(items) + "]"


def cR(x) -> str:
    """A real-number literal for coq-interval goals: exact, no decimals."""
    f = frac(x)
    if f.denominator == 1:
        return f"(IZR ({f.numerator}))"
    return f"(IZR ({f.numerator}) / IZR {f.denominator})"


# --------------------------------------------------------------------------
# building and auditing the proofs
# --------------------------------------------------------------------------
class ProofFailure(Exception):
    def __init__(self, what: str, log: str = ""):
        super().__init__(what)
        self.what = what
        self.log = log


def sh(cmd, timeout=600, cwd=None, env=None, retry_killed=2):
    """Run a command.  A process that was KILLED from outside (SIGKILL: the kernel's out-of-memory
    killer when the machine is overcommitted) says nothing about the code or the proofs: it is run
    again, after a pause, up to `retry_killed` times before its failure is reported."""
    t0 = time.time()
    for attempt in range(retry_killed + 1):
        try:
            p = subprocess.run(cmd, cwd=cwd, env=env, stdout=subprocess.PIPE,
                               stderr=subprocess.STDOUT, timeout=timeout, text=True,
                               errors="replace")
        except subprocess.TimeoutExpired as e:
            out = e.stdout.decode(errors="replace") if isinstance(e.stdout, bytes) else (e.stdout or "")
            return 124, out + f"\n[timeout after {timeout}s]", time.time() - t0
        if p.returncode in (-9, 137) and attempt < retry_killed:
            time.sleep(20 * (attempt + 1))
            continue
        out = p.stdout
        if p.returncode in (-9, 137):
            out += f"\n[process killed by SIGKILL {retry_killed + 1} times: out of memory?]"
        return p.returncode, out, time.time() - t0


def coq_build(timeout=3000) -> float:
    """Full .vo build of the hand-written development (incremental)."""
    lock = COQ / ".build.lock"
    if os.environ.get("VERIF_SKIP_BUILD") == "1":   # development only: .vo files compiled by hand
        return 0.0
    if not (COQ / "Makefile").exists():
        rc, out, _ = sh(["flock", str(lock), "coq_makefile", "-f", "_CoqProject", "-o", "Makefile"],
                        cwd=COQ)
        if rc != 0:
            raise ProofFailure("coq_makefile failed", out)
    rc, out, dt = sh(["flock", str(lock), "timeout", str(timeout), "make", "-j16"],
                     cwd=COQ, timeout=timeout + 60)
    if rc != 0:
        raise ProofFailure("the Coq development does not build", out[-4000:])
    return dt


def forbidden_scan() -> list[str]:
    hits = []
    listed = [COQ / l.strip() for l in (COQ / "_CoqProject").read_text().splitlines()
              if l.strip().endswith(".v")]
    for p in sorted(listed):     # the development = exactly the files _CoqProject builds
        if not p.exists():
            hits.append(f"{p.relative_to(COQ)}: listed in _CoqProject but missing")
            continue
        txt = p.read_text()
        # strip comments (non-nested is enough: we do not nest them)
        txt_nc = re.sub(r"\(\*.*?\*\)", lambda m: " " * len(m.group(0)), txt, flags=re.S)
        for m in FORBIDDEN.finditer(txt_nc):
            line = txt_nc.count("\n", 0, m.start()) + 1
            hits.append(f"{p.relative_to(COQ)}:{line}: {m.group(0)}")
    proj = (COQ / "_CoqProject").read_text()
    for bad in ("-type-in-type", "-impredicative-set", "-native", "-vos", "-vok", "-noinit"):
        if bad in proj:
            hits.append(f"_CoqProject: {bad}")
    return hits


def parse_assumptions(out: str) -> list[list[str]]:
    """Split the output of several Print Assumptions commands."""
    blocks, cur = [], None
    for line in out.splitlines():
        if line.startswith("Closed under the global context"):
            blocks.append([])
            cur = None
        elif line.startswith("Axioms:"):
            cur = []
            blocks.append(cur)
        elif cur is not None and line and not line[0].isspace():
            m = re.match(r"([A-Za-z_][\w.']*)\s*(:|$)", line)
            if m:
                cur.append(m.group(1))
    return blocks


def coq_audit(prop: str, theorems: list[str], module: str | None = None) -> dict:
    """Check that the property theorems exist, are closed up to whitelisted
    standard-library axioms, and that nothing forbidden occurs in the sources."""
    module = module or f"IT.Properties.{prop}"
    d = GEN / prop
    d.mkdir(parents=True, exist_ok=True)
    src = d / "Audit.v"
    body = [f"Require Import {module}."]
    for t in theorems:
        body.append(f"Check {t}.")
    for t in theorems:
        body.append(f"Print Assumptions {t}.")
    src.write_text("\n".join(body) + "\n")
    rc, out, dt = sh(["timeout", "600", "coqc"] + COQFLAGS + [str(src)], timeout=660)
    if rc != 0:
        raise ProofFailure(f"audit of {module} failed (a property theorem is missing or does not check)", out[-3000:])
    blocks = parse_assumptions(out)
    if len(blocks) != len(theorems):
        raise ProofFailure(f"audit of {module}: expected {len(theorems)} Print Assumptions blocks, got {len(blocks)}", out[-3000:])
    axioms = {}
    bad = []
    for t, b in zip(theorems, blocks):
        axioms[t] = b
        for a in b:
            if a in ALLOWED_AXIOMS or a.startswith(ALLOWED_PRIMITIVE_PREFIXES):
                continue
            bad.append(f"{t}: {a}")
    if bad:
        raise ProofFailure("theorem depends on a non-whitelisted axiom: " + "; ".join(bad), out[-3000:])
    hits = forbidden_scan()
    if hits:
        raise ProofFailure("forbidden token in the development: " + "; ".join(hits[:10]))
    used = sorted({a for b in blocks for a in b})
    return {"theorems": theorems, "axioms_used": used, "per_theorem": axioms, "audit_s": round(dt, 2)}


# --------------------------------------------------------------------------
# generated case files
# --------------------------------------------------------------------------
def write_case_file(prop: str, name: str, header: str, cases_def: str, evals: list[str]) -> Path:
    """Write coq/gen/<prop>/<name>.v.  `evals` are terms of type list nat (indices
    of failing cases); each is printed by one Eval vm_compute."""
    d = GEN / prop
    d.mkdir(parents=True, exist_ok=True)
    p = d / f"{name}.v"
    lines = [header, cases_def]
    for i, e in enumerate(evals):
        lines.append(f'Definition verif_result_{i} := Eval vm_compute in ({e}).')
        lines.append(f"Print verif_result_{i}.")
    p.write_text("\n".join(lines) + "\n")
    return p


_RES = re.compile(r"verif_result_(\d+)\s*=\s*(.*?)\s*:\s*list\s+nat", re.S)


def run_case_file(path: Path, timeout=900):
    """Returns (ok, {result index: [failing case indices]}, log)."""
    rc, out, dt = sh(["timeout", str(timeout), "coqc"] + COQFLAGS + [str(path)], timeout=timeout + 30)
    if rc != 0:
        return False, {}, out[-3000:]
    res = {}
    for m in _RES.finditer(out):
        body = m.group(2).strip()
        body = re.sub(r"%nat", "", body)
        if body in ("[]", "nil"):
            res[int(m.group(1))] = []
        else:
            res[int(m.group(1))] = [int(x) for x in re.findall(r"\d+", body)]
    return True, res, out[-3000:]


def run_case_files(paths, jobs=8, timeout=900):
    with ThreadPoolExecutor(max_workers=jobs) as ex:
        return list(ex.map(lambda p: run_case_file(p, timeout), paths))


def run_goal_file(path: Path, timeout=900):
    """For files of interval goals: every goal is a Lemma; coqc either accepts the
    whole file or stops at the first failing one.  Returns (ok, log)."""
    rc, out, dt = sh(["timeout", str(timeout), "coqc"] + COQFLAGS + [str(path)], timeout=timeout + 30)
    return rc == 0, out[-3000:]


def clean_gen(prop: str):
    d = GEN / prop
    if d.exists():
        for p in d.iterdir():
            if p.is_file():
                p.unlink()


# --------------------------------------------------------------------------
# shrinking
# --------------------------------------------------------------------------
def shrink_list(xs: list, still_fails, min_len: int = 0, budget: int = 200) -> list:
    """Greedy delta-debugging: drop chunks while `still_fails(xs)` holds."""
    xs = list(xs)
    n = max(len(xs) // 2, 1)
    while n >= 1 and budget > 0:
        i, changed = 0, False
        while i < len(xs) and budget > 0:
            cand = xs[:i] + xs[i + n:]
            budget -= 1
            if len(cand) >= min_len and cand != xs and still_fails(cand):
                xs, changed = cand, True
            else:
                i += n
        if not changed:
            n //= 2
    return xs


# --------------------------------------------------------------------------
# violations, known findings, evidence
# --------------------------------------------------------------------------
def load_known(prop: str) -> list[dict]:
    if not KNOWN.exists():
        return []
    data = json.loads(KNOWN.read_text())
    return [e for e in data.get("findings", []) if e.get("property") == prop]


def jsonable(x):
    if isinstance(x, Fraction):
        return {"num": str(x.numerator), "den": str(x.denominator), "float": float(x)}
    if isinstance(x, dict):
        return {str(k): jsonable(v) for k, v in x.items()}
    if isinstance(x, (list, tuple)):
        return [jsonable(v) for v in x]
    try:
        import numpy as np
        if isinstance(x, np.ndarray):
            return jsonable(x.tolist())
        if isinstance(x, np.generic):
            return jsonable(x.item())
    except ImportError:
        pass
    if isinstance(x, float) and (x != x or x in (float("inf"), float("-inf"))):
        return repr(x)
    if isinstance(x, (str, int, float, bool)) or x is None:
        return x
    return repr(x)


class Report:
    """Collects what a run did; prints the verdict; writes evidence + replays."""

    def __init__(self, prop: str, tier: str):
        self.prop, self.tier = prop, tier
        self.t0 = time.time()
        self.violations: list[dict] = []
        self.known_hits: list[dict] = []
        self.coverage: dict = {}
        self.assumptions: list[str] = []
        self.obligations = 0
        self.discharged = 0
        self.samples: list = []
        self.evaluations = 0
        self.distinct = set()
        self.hist: dict = {}
        self.known = load_known(prop)

    # ---- bookkeeping
    def count(self, key: str, n: int = 1):
        self.hist[key] = self.hist.get(key, 0) + n

    def case(self, digest_src, nontrivial: bool = True):
        self.evaluations += 1
        if nontrivial:
            self.distinct.add(hashlib.sha1(repr(digest_src).encode()).hexdigest())

    def sample(self, s, limit=4):
        if len(self.samples) < limit:
            self.samples.append(jsonable(s))

    def obligation(self, ok: bool, n: int = 1):
        self.obligations += n
        if ok:
            self.discharged += n

    # ---- violations
    def violation(self, key: str, what: str, replay: dict, found_input: bool):
        """key identifies the failing call site / input class (matched against
        known_findings.json); replay is the concrete input or the name of the
        broken theorem / correspondence."""
        for k in self.known:
            if k.get("status") == "known" and k.get("key") == key:
                if not any(h["key"] == key for h in self.known_hits):
                    self.known_hits.append({"key": key, "what": k.get("what", what)})
                return
        self.violations.append({"key": key, "what": what, "replay": replay,
                                "found_input": found_input})

    def finish(self, level: str = "proof", checker_cmd: str = "", trusted_base=None,
               rule: str = "", extra: dict | None = None) -> int:
        REPLAYS.mkdir(parents=True, exist_ok=True)
        EVID.mkdir(parents=True, exist_ok=True)
        for h in self.known_hits:
            print(f"KNOWN-FINDING: property={self.prop} {h['what']}")
        lines = []
        self.violations.sort(key=lambda v: not v["found_input"])   # concrete failing inputs first
        for i, v in enumerate(self.violations[:5]):
            rp = REPLAYS / f"{self.prop}_{seed()}_{i}.json"
            rp.write_text(json.dumps(jsonable({
                "property": self.prop, "seed": seed(), "tier": self.tier,
                "key": v["key"], "what": v["what"],
                "failing_input_found": v["found_input"], "replay": v["replay"]}), indent=1))
            tail = "" if v["found_input"] else " no-failing-input-found"
            lines.append(f"VIOLATION property={self.prop} replay={rp}{tail}")
            print(f"  [{self.prop}] {v['what']}", file=sys.stderr)
        cov = {
            "obligations": self.obligations,
            "discharged": self.discharged,
            "checker_cmd": checker_cmd,
            "trusted_base": trusted_base or [],
            "evaluations": self.evaluations,
            "distinct_nontrivial": len(self.distinct),
            "rule": rule,
            "samples": self.samples or ["(none generated)"],
            "input_distribution": self.hist,
            "known_findings_hit": [h["key"] for h in self.known_hits],
        }
        if extra:
            cov.update(jsonable(extra))
        cov.update(jsonable(self.coverage))
        # keys the evidence schema types as integers must be integers (details go beside them)
        for key in ("states", "transitions", "traces_validated_against_impl", "obligations", "discharged",
                    "programs", "disagreements_checked", "evaluations", "distinct_nontrivial"):
            v = cov.get(key)
            if v is not None and not (isinstance(v, int) and not isinstance(v, bool)):
                cov[key + "_detail"] = v
                try:
                    cov[key] = int(sum(v.values())) if isinstance(v, dict) else int(v)
                except Exception:
                    cov[key] = 0
        if not isinstance(cov.get("samples"), list) or not cov["samples"]:
            cov["samples"] = ["(none generated)"]
        ev = {
            "property_id": self.prop,
            "tier": self.tier,
            "seed": seed(),
            "level": level,
            "coverage": cov,
            "assumptions": self.assumptions,
            "wall_s": round(time.time() - self.t0, 2),
            "violations": len(self.violations),
        }
        (EVID / f"{self.prop}.json").write_text(json.dumps(ev, indent=1))
        for l in lines:
            print(l)
        if not lines:
            print(f"OK property={self.prop} tier={self.tier} seed={seed()} "
                  f"obligations={self.discharged}/{self.obligations} cases={self.evaluations} "
                  f"wall={ev['wall_s']}s")
        sys.stdout.flush()
        return 1 if lines else 0


KERNEL_TB = [
    "Coq 8.16.1 kernel incl. its vm_compute machine (no native_compute)",
    "correspondence harness (Python): case generators, scripted RNG, exact float<->rational conversion",
]


def prove_and_audit(rep: Report, prop: str, theorems: list[str], module: str | None = None) -> dict | None:
    """Steps 1 of the protocol.  A failure is recorded as a violation without a
    failing input (the caller may go on to search for one)."""
    try:
        dt = coq_build()
        info = coq_audit(prop, theorems, module)
        info["build_s"] = round(dt, 2)
        rep.obligation(True, len(theorems))
        rep.coverage["proof_audit"] = info
        return info
    except ProofFailure as e:
        rep.obligation(False, len(theorems))
        rep.violation(f"{prop}/proof", f"proof obligation no longer checks: {e.what}",
                      {"theorem_or_correspondence": e.what, "log": e.log[-1500:]}, False)
        return None
