"""C15, interrupted call histories (used only by harness/props/c15.py).

Real samplers (lib/sampler_cases.build: scripted randomness, exact quadratic posterior) are
driven through histories of take_step() / advance(m) calls in which chosen evaluations of the
posterior (or of its gradient) raise -- a model failure, FloatingPointError, KeyboardInterrupt.
A hook inside the posterior notes the length counters (stored values of every parameter list,
stored log-probabilities, chain_length, n_iterations) as seen by EVERY evaluation, and they are
noted again after every call, returned or raised.  Model/AdvanceSteps.v (`icase_failures`,
evaluated by vm_compute) must reproduce all of them; the inputs of the model are the numbers of
evaluations each step makes, measured on an identically built second sampler ("scout") that
repeats the history and then takes the steps of the next call one at a time without interruption.

The property itself (the three counts agree after every call; a returned call adds exactly
m * samples-per-step; an interrupted call adds exactly its completed steps -- nothing for the
ensemble's advance) is evaluated on the implementation by `oracle`.
"""
from __future__ import annotations

import math

import numpy as np

from . import common as C
from . import samplers as S
from . import sampler_cases as SC

KINDS = ["gibbs", "metro", "pca", "hmc", "ensemble"]
NAME = {"gibbs": "GibbsChain", "metro": "MetropolisChain", "pca": "PcaChain", "hmc": "HamiltonianChain",
        "ensemble": "EnsembleSampler"}

HEADER = """From Coq Require Import List Arith Bool ZArith.
From IT Require Import Model.Advance Model.AdvanceSteps.
Import ListNotations.
Open Scope Z_scope.
"""


class ModelFailure(Exception):
    """an error raised by the user's model"""


EXCS = {"KeyboardInterrupt": KeyboardInterrupt, "FloatingPointError": FloatingPointError,
        "ModelFailure": ModelFailure}


class RunawayCall(Exception):
    pass


class Unsteady(Exception):
    """the sampler could not be driven through the history (an uninterrupted call raised, ...)"""


def counters(ch, kind):
    """(stored values per storage list, stored log-probabilities, chain_length, n_iterations)"""
    if kind in ("gibbs", "metro", "pca"):
        return ([len(p.samples) for p in ch.params], len(ch.probs), int(ch.chain_length), 0)
    if kind == "hmc":
        return ([len(ch.theta)], len(ch.probs), int(ch.chain_length), 0)
    return ([0 if ch.sample is None else int(np.shape(ch.sample)[0])],
            0 if ch.sample_probs is None else int(np.size(ch.sample_probs)),
            int(ch.chain_length), int(ch.n_iterations))


def readouts(ch, kind, npar):
    """Sizes of the public read-outs of the whole chain: ([get_parameter(i) sizes], get_probabilities size,
    rows of get_sample) -- an entry is the repr of the exception if the read-out raised."""
    if kind == "ensemble" and ch.sample is None:
        return None

    def size(f):
        try:
            return int(np.asarray(f()).shape[0])
        except Exception as e:         # noqa: BLE001 - a raising read-out is an observation
            return repr(e)
    return ([size(lambda i=i: ch.get_parameter(i, burn=0, thin=1)) for i in range(npar)],
            size(lambda: ch.get_probabilities(burn=0, thin=1)),
            size(lambda: ch.get_sample(burn=0, thin=1)))


class Hook:
    """Runs inside every evaluation of the posterior / its gradient."""
    LIMIT = 20000     # evaluations in one call; a tree whose chain state is inconsistent can loop for ever

    def __init__(self, ch, kind):
        self.ch, self.kind = ch, kind
        self.begin()

    def begin(self):
        self.count, self.seen, self.crash_at, self.exc, self.fired = 0, [], 0, None, False

    def arm(self, k, exc):
        self.crash_at, self.exc = k, exc

    def __call__(self, *_):
        self.count += 1
        if self.count > self.LIMIT:
            raise RunawayCall(f"more than {self.LIMIT} evaluations of the posterior in one call")
        self.seen.append(counters(self.ch, self.kind))
        if self.crash_at and self.count == self.crash_at:
            self.crash_at, self.fired = 0, True
            raise self.exc("simulated interruption inside the posterior")


def open_sampler(cfg):
    ch, post, rng, fn = SC.build(cfg)
    hook = Hook(ch, cfg["kind"])
    post.delay = hook                      # called from inside RecordingPosterior.__call__
    if post.gfn is not None:
        g0 = post.gfn

        def gfn(th, _g0=g0, _hook=hook):   # ... and from inside RecordingPosterior.gradient
            _hook()
            return _g0(th)
        post.gfn = gfn
    return ch, hook


def do_call(ch, hook, call):
    """One call of the history.  Returns True if it returned, False if the armed evaluation raised."""
    hook.begin()
    if call["crash"]:
        hook.arm(call["crash"], EXCS[call["exc"]])
    try:
        with S.quiet():
            if call["entry"] == "take_step":
                ch.take_step()
            else:
                ch.advance(call["m"])
    except BaseException:                  # noqa: BLE001 - KeyboardInterrupt is one of the simulated interruptions
        if not hook.fired:
            raise
        return False
    return True


def n_steps(call):
    return 1 if call["entry"] == "take_step" else int(call["m"])


class Driver:
    """Drives histories on one configuration; scouting results are cached per resolved prefix."""

    def __init__(self, cfg):
        self.cfg, self.kind = cfg, cfg["kind"]
        self.cache = {}

    @staticmethod
    def _key(calls):
        return tuple((c["entry"], c["m"], c["crash"], c["exc"]) for c in calls)

    def scout(self, prefix, nsteps):
        """Evaluations made by each of the next `nsteps` steps after the (resolved) history `prefix`."""
        key = (self._key(prefix), nsteps)
        if key in self.cache:
            return self.cache[key]
        # a longer scouting run after the same prefix answers a shorter one
        for (pk, n), es in self.cache.items():
            if pk == key[0] and n >= nsteps:
                return es[:nsteps]
        ch, hook = open_sampler(self.cfg)
        try:
            for c in prefix:
                do_call(ch, hook, c)
            es = []
            for _ in range(nsteps):
                hook.begin()
                with S.quiet():
                    ch.take_step()
                es.append(hook.count)
        except Exception as e:             # noqa: BLE001
            raise Unsteady(f"a call that is not interrupted raised {e!r}") from e
        self.cache[key] = es
        return es

    def drive(self, calls):
        """calls: dicts with entry, m, exc and either crash (absolute, 0 = none) or crash_frac in (0, 1]
        (resolved against the evaluations the call makes).  Returns (init counters, records, resolved calls);
        a record: call, es, seen, after, returned, readouts."""
        ch, hook = open_sampler(self.cfg)
        npar = self.cfg["n"]
        init = counters(ch, self.kind)
        records, resolved = [], []
        for call in calls:
            es = self.scout(resolved, n_steps(call))
            c = {"entry": call["entry"], "m": int(call["m"]), "exc": call.get("exc") or "ModelFailure"}
            if call.get("crash_frac"):
                tot = sum(es)
                c["crash"] = 0 if tot == 0 else max(1, min(tot, math.ceil(call["crash_frac"] * tot)))
            else:
                c["crash"] = int(call.get("crash", 0))
            try:
                ret = do_call(ch, hook, c)
            except Exception as e:         # noqa: BLE001
                raise Unsteady(f"{describe_call(c)} raised {e!r} although no evaluation of it was made to fail "
                               f"(after {[describe_call(x) for x in resolved]})") from e
            if c["crash"] and c["crash"] <= sum(es) and ret:
                raise Unsteady(f"{describe_call(c)} made fewer than {c['crash']} evaluations although the same "
                               f"call of an identically built sampler made {sum(es)}")
            records.append({"call": c, "es": list(es), "seen": list(hook.seen), "after": counters(ch, self.kind),
                            "returned": ret, "readouts": readouts(ch, self.kind, npar)})
            resolved.append(c)
        return init, records, resolved


def describe_call(c):
    s = "take_step()" if c["entry"] == "take_step" else f"advance({c['m']})"
    if c.get("crash"):
        s += f" with evaluation {c['crash']} of the posterior / gradient raising {c['exc']}"
    return s


# ---------------------------------------------------------------- the property on the implementation
def done_steps(es, k):
    """completed steps of a call whose k-th evaluation raises (k = 0: none raises)"""
    if k == 0:
        return len(es)
    d = 0
    for e in es:
        if e < k:
            d, k = d + 1, k - e
        else:
            break
    return d


def oracle(kind, per_step, init, records):
    """-> (index of the first call after which C15 fails, messages) or (None, [])."""
    cols, nprobs, length, _ = init
    if any(c != length for c in cols) or nprobs != length:
        return 0, [f"freshly built sampler: chain_length={length}, stored samples={cols}, log-probabilities={nprobs}"]
    for i, rc in enumerate(records):
        c = rc["call"]
        cols, nprobs, new_len, _ = rc["after"]
        what = describe_call(c) + ("" if rc["returned"] else " [raised]")
        bad = []
        if any(x != new_len for x in cols) or nprobs != new_len:
            bad.append(f"after {what}: chain_length={new_len} but stored samples per "
                       f"{'parameter' if len(cols) > 1 else 'storage list'}={cols}, stored log-probabilities={nprobs}")
        if rc["returned"]:
            want = length + n_steps(c) * per_step
            if new_len != want:
                bad.append(f"after {what}: chain_length={new_len}, expected {length} + {n_steps(c)} x {per_step} = {want}")
        else:
            done = 0 if (kind == "ensemble") else done_steps(rc["es"], c["crash"])
            want = length + done * per_step
            if new_len != want:
                bad.append(f"after {what}: chain_length={new_len}, expected {want} ({done} steps of the call had "
                           f"completed when the exception was raised)")
        ro = rc["readouts"]
        if ro is not None:
            ps, pb, sm = ro
            if any(x != new_len for x in ps) or pb != new_len or sm != new_len:
                bad.append(f"after {what}: chain_length={new_len} but get_parameter(i, burn=0) has sizes {ps}, "
                           f"get_probabilities(burn=0) {pb}, get_sample(burn=0) {sm}")
        if bad:
            return i, bad
        length = new_len
    return None, []


# ---------------------------------------------------------------- Coq terms
def coq_obs(o):
    cols, p, l, it = o
    return f"({C.clist([str(int(v)) for v in cols])}, {int(p)}, {int(l)}, {int(it)})"


def coq_kind(cfg):
    if cfg["kind"] in ("gibbs", "metro", "pca"):
        return f"(KCol {cfg['n']}%nat)"
    if cfg["kind"] == "hmc":
        return "KRow"
    return f"(KEns {len(cfg['positions'])}%nat)"


def per_step_of(cfg):
    return len(cfg["positions"]) if cfg["kind"] == "ensemble" else 1


def coq_icase(cfg, init, records):
    hs = []
    for rc in records:
        c = rc["call"]
        call = f"(ZStep {rc['es'][0]})" if c["entry"] == "take_step" else \
            f"(ZAdvance {C.clist([str(e) for e in rc['es']])})"
        hs.append(f"({call}, {c['crash']}, {C.clist([coq_obs(o) for o in rc['seen']])}, {coq_obs(rc['after'])})")
    return f"({coq_kind(cfg)}, {coq_obs(init)},\n  {C.clist(hs, ';' + chr(10) + '   ')})"


# ---------------------------------------------------------------- generation
def _post_calls(r):
    out = []
    for _ in range(r.randint(1, 2)):
        out.append({"entry": "take_step", "m": 1} if r.random() < 0.4 else {"entry": "advance", "m": r.randint(0, 3)})
    return out


def _prefix(r, pre):
    """`pre` completed steps as take_step / advance calls"""
    if pre == 0:
        return [{"entry": "advance", "m": 0}] if r.random() < 0.3 else []
    if r.random() < 0.5:
        return [{"entry": "advance", "m": pre}]
    return [{"entry": "take_step", "m": 1} for _ in range(pre)]


def plan(r, tier):
    """-> list of (cfg, Driver, calls, tag)"""
    quick = tier == "quick"
    ncfg = 3 if quick else 8
    kmax = 10 if quick else 40
    plans = []
    exc = lambda: r.choice(sorted(EXCS))
    for kind in KINDS:
        got = 0
        for _attempt in range(ncfg * 6):
            if got >= ncfg:
                break
            cfg = SC.make_config(r, kind)
            if kind in ("gibbs", "metro", "pca") and got < ncfg - 1 and cfg["n"] < 2:
                continue                      # several parameters: crash points between the parameters' updates
            got += 1
            drv = Driver(cfg)
            pre = r.randint(1, 3) if kind == "ensemble" and r.random() < 0.7 else r.randint(0, 3)
            nadv = r.randint(2, 3)
            prefix = _prefix(r, pre)
            try:
                es = drv.scout([dict(c, crash=0, exc="ModelFailure") for c in prefix], nadv)
            except Unsteady as e:
                plans.append((cfg, drv, None, str(e)))
                continue
            # (A) every crash point of one take_step
            K1 = es[0]
            ks = list(range(1, K1 + 1))
            if len(ks) > kmax:
                ks = sorted(set([1, 2, K1 - 1, K1] + r.sample(ks, kmax - 4)))
            for k in ks:
                plans.append((cfg, drv, prefix + [{"entry": "take_step", "m": 1, "crash": k, "exc": exc()}]
                              + _post_calls(r), "take_step:" + ("first" if k == 1 else "last" if k == K1 else "inside")))
            # (B) advance interrupted in a later step (and at the very last evaluation)
            Kall = sum(es)
            later = list(range(K1 + 1, Kall + 1))
            for k in sorted(set(r.sample(later, min(len(later), 3 if quick else 8)) + [Kall])):
                plans.append((cfg, drv, prefix + [{"entry": "advance", "m": nadv, "crash": k, "exc": exc()}]
                              + _post_calls(r), "advance:later step"))
            # (C) longer histories with two interrupted calls
            for _ in range(2 if quick else 6):
                calls = []
                for _j in range(r.randint(4, 6)):
                    calls.append({"entry": "take_step", "m": 1} if r.random() < 0.4
                                 else {"entry": "advance", "m": r.randint(0, 4)})
                for j in r.sample(range(len(calls) - 1), 2):
                    calls[j] = dict(calls[j], crash_frac=r.choice([r.random(), r.random(), 1.0, 1e-9]), exc=exc())
                plans.append((cfg, drv, calls, "two interruptions"))
        # (D) advance(m) with m beyond the progress granularity, interrupted inside the grouped part
        #     and inside the remainder (chains only: base.py:31-46)
        if kind in (("gibbs", "metro") if quick else ("gibbs", "metro", "pca", "hmc")):
            for _attempt in range(8):
                cfg = SC.make_config(r, kind)
                if cfg["n"] >= 2 or kind == "hmc":
                    break
            drv = Driver(cfg)
            m = r.choice([203, 117, 250])
            for frac, tag in ((r.uniform(0.05, 0.6), "advance:grouped part"), (r.uniform(0.99, 0.9999), "advance:remainder")):
                plans.append((cfg, drv, [{"entry": "advance", "m": m, "crash_frac": frac, "exc": exc()},
                                         {"entry": "advance", "m": r.randint(1, 3)}], tag))
    return plans


def replay_case(c):
    """c: {"config": described cfg, "calls": resolved calls}.  -> (observations, property failures)"""
    cfg = SC.undescribe(c["config"])
    drv = Driver(cfg)
    init, records, _ = drv.drive(c["calls"])
    _, bad = oracle(cfg["kind"], per_step_of(cfg), init, records)
    obs = [{"call": describe_call(rc["call"]), "returned": rc["returned"], "counters_after": rc["after"],
            "readout_sizes": rc["readouts"]} for rc in records]
    return obs, bad
