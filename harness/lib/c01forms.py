"""C01 only: extra input classes for the sampler correspondence.

(1) The FORM in which numeric arguments reach a sampler: start values, proposal widths,
    bounds, walker positions and inverse masses given as lists / tuples of Python floats or
    ints, or as int64 / int32 / float32 arrays instead of float64 arrays.  The property is
    quantified over all starting points; an integer-typed start is still a starting point,
    and a sampler that keeps working in the caller's dtype truncates every later proposal.
(2) Full (non-diagonal) inverse-mass matrices for HamiltonianChain, given to the constructor
    or produced by the chain's own estimate_mass(diagonal=False) / (diagonal=True) after some
    steps (the mass in force is then not the one of construction time).

Only configuration data is produced here (plus two property oracles evaluated on the real
code); the samplers are built by sampler_cases.build and replayed through the Coq models.
"""
from __future__ import annotations

import math
import warnings
from fractions import Fraction as F

import numpy as np

from . import sampler_cases as SC

FORM_KEYS = {"gibbs": ("start", "widths", "bounds"), "metro": ("start", "widths", "bounds"),
             "pca": ("start", "widths", "bounds"), "hmc": ("start", "bounds", "inv_mass"),
             "ensemble": ("positions", "bounds")}


def _retune_eps(cfg):
    """the stability rule of sampler_cases.make_config, for the mass now in cfg"""
    im = cfg.get("inv_mass", 1.0)
    arr = np.asarray(im if im is not None else 1.0, dtype=float)
    im_max = float(np.linalg.eigvalsh(arr).max()) if arr.ndim == 2 else float(np.max(np.abs(arr)))
    curv = 2 * float(max(cfg["a"])) * (1.0 + 1.0 * bool(cfg["c"])) / cfg["T"]
    while cfg["eps"] ** 2 * im_max * curv > 0.5:
        cfg["eps"] /= 2


def _valid_positions(sp, n):
    arr = np.array(sp, dtype=float)
    try:
        if n == 1:
            return bool(np.var(arr) > 0)
        cv = np.cov(arr.T)
        sd = np.sqrt(np.diag(cv))
        if not (sd > 0).all():
            return False
        return not (abs(np.triu(cv / (sd[:, None] * sd[None, :]), k=1)) > 0.99).any()
    except Exception:
        return False


def integerise(cfg, r):
    """A copy of cfg whose numeric arguments are all integral (so that every integer form is
    a legitimate way of passing them) and still a valid configuration: start = floor(start)
    stays inside the bounds, which are widened to floor(lower) / ceil(upper); widths >= 1."""
    c = dict(cfg)
    n = c["n"]
    c["start"] = [float(math.floor(s)) for s in cfg["start"]]
    c["widths"] = [float(max(1, math.ceil(w))) for w in cfg["widths"]]
    if cfg.get("bounds"):
        lo, hi = cfg["bounds"]
        c["bounds"] = ([float(math.floor(v)) for v in lo], [float(math.ceil(v)) for v in hi])
    if "limits" in cfg:
        lim = []
        for l in cfg["limits"]:
            lim.append((l[0], float(math.floor(l[1])), float(math.ceil(l[2]))) if l[0] in ("bnd", "both") else l)
        c["limits"] = lim
    if c["kind"] == "hmc":
        mk = c.get("mass_kind")
        if mk == "scalar":
            c["inv_mass"] = float(r.choice([1, 4, 16]))
        elif mk == "vector":
            c["inv_mass"] = [float(r.choice([1, 2, 4])) for _ in range(n)]
        elif mk in ("matrix", "full"):
            M = np.diag([float(r.choice([2, 3, 4])) for _ in range(n)])
            for i in range(n - 1):
                if r.random() < 0.7 or i == 0:
                    M[i, i + 1] = M[i + 1, i] = float(r.choice([1, -1]))
            c["inv_mass"] = M.tolist()          # strictly diagonally dominant for n <= 2, PD for the chain pattern
            if np.linalg.eigvalsh(M).min() <= 0.2:
                c["inv_mass"] = np.diag(np.diag(M)).tolist()
        _retune_eps(c)
    if c["kind"] == "ensemble":
        nw = len(cfg["positions"])
        if c.get("bounds"):
            lo, hi = c["bounds"]
            draw = lambda: [[float(r.randint(int(lo[i]), int(hi[i]))) for i in range(n)] for _ in range(nw)]
        else:
            draw = lambda: [[float(r.randint(-3, 3)) for _ in range(n)] for _ in range(nw)]
        sp = draw()
        for _ in range(300):
            if _valid_positions(sp, n):
                break
            sp = draw()
        else:
            c["bounds"] = None
            sp = [[float(r.randint(-4, 4)) for _ in range(n)] for _ in range(nw)]
            while not _valid_positions(sp, n):
                sp = [[float(r.randint(-4, 4)) for _ in range(n)] for _ in range(nw)]
        c["positions"] = sp
    return c


def with_forms(cfg, r, form=None):
    """cfg presented in a non-default input form.  One form is chosen for the leading
    argument (start / positions); the other arguments get the same form or the default."""
    form = form or r.choice([f for f in SC.INPUT_FORMS if f != "f64"])
    if cfg["kind"] == "ensemble":       # starting_positions must be an ndarray: the array forms only
        form = {"ilist": "i64", "ituple": "i32", "flist": "f32", "ftuple": "f32"}.get(form, form)
    keys = FORM_KEYS[cfg["kind"]]
    c = integerise(cfg, r) if form in SC.INTEGER_FORMS else dict(cfg)
    forms = {}
    for j, k in enumerate(keys):
        forms[k] = form if (j == 0 or r.random() < 0.6) else "f64"
    if form == "f32" and c["kind"] == "hmc":
        forms["inv_mass"] = "f64"          # 1/sqrt() of a float32 mass is only float32-accurate by design
    c["input_form"] = forms
    c["form"] = form
    return c


# ------------------------------------------------------------------ full mass matrices
def random_spd(r, n):
    """dyadic symmetric positive-definite matrix with (almost surely) no zero entry"""
    while True:
        B = np.array([[r.randint(-4, 4) / 4.0 for _ in range(n)] for _ in range(n)])
        M = B @ B.T + np.diag([r.choice([0.5, 1.0, 2.0]) for _ in range(n)])
        off = M[~np.eye(n, dtype=bool)]
        if n == 1 or (np.abs(off) > 0).all():
            return M.tolist()


def with_full_mass(cfg, r, history):
    """history: 'given' (full matrix to the constructor), 'estimate_full' / 'estimate_diag'
    (default or given mass first, then the chain's own estimate_mass after some steps)."""
    c = dict(cfg)
    n = c["n"]
    c["bounds"] = None if r.random() < 0.8 else c["bounds"]
    if history == "given" or r.random() < 0.5:
        c["mass_kind"] = "full"
        c["inv_mass"] = random_spd(r, n)
    c["mass_history"] = history
    c["warmup"] = n + 3 + r.randint(0, 4)
    _retune_eps(c)
    return c


def apply_mass_history(ch, cfg):
    """after the warm-up steps: the public estimate_mass call of the configuration.
    Returns None, or the reason the estimate is not usable as an input."""
    h = cfg.get("mass_history")
    if h not in ("estimate_full", "estimate_diag"):
        return None
    try:
        with warnings.catch_warnings():
            warnings.simplefilter("ignore")
            ch.estimate_mass(burn=0, thin=1, diagonal=(h == "estimate_diag"))
    except np.linalg.LinAlgError:
        return "singular sample covariance"
    im = np.asarray(ch.mass.inv_mass, dtype=float)
    if not np.isfinite(im).all():
        return "non-finite estimate"
    if im.ndim == 2:
        w = np.linalg.eigvalsh(im)
        if w.min() <= 0 or w.max() / w.min() > 1e6:
            return "ill-conditioned sample covariance"
    elif (im <= 0).any() or im.max() / im.min() > 1e8:
        return "ill-conditioned sample variances"
    return None


# ------------------------------------------------------------------ property oracle: HMC accept probability
def hmc_mh_probability_failures(cfg, max_steps=25):
    """Evaluate the C01 clause itself on the real HamiltonianChain of cfg: the probability
    with which take_step accepts a trajectory must be the Metropolis-Hastings probability
    min(1, pi(t) q(r) / (pi(t0) q(r0))) where q is the density the momenta are ACTUALLY drawn
    from.  q is measured on the real mass object: sample_momentum is linear in the normal
    draws, r = A z, so q(r) ~ exp(-1/2 |A^-1 r|^2); A's columns are sample_momentum(e_j)."""
    from .scripted import ScriptedRNG
    ch, post, rng, fn = SC.build(cfg)
    if cfg.get("mass_history") in ("estimate_full", "estimate_diag"):
        for _ in range(cfg.get("warmup", 6)):
            ch.take_step()
        if apply_mass_history(ch, cfg):
            return []
    n = ch.n_parameters
    cols = []
    for j in range(n):
        e = [F(int(i == j)) for i in range(n)]
        cols.append(np.asarray(ch.mass.sample_momentum(ScriptedRNG(0, tape=e)), dtype=float))
    A = np.array(cols).T
    Ainv = np.linalg.inv(A)
    neglogq = lambda r_: 0.5 * float(np.sum((Ainv @ np.asarray(r_, dtype=float)) ** 2))
    seen_r, seen_p = [], []
    kin0, add0 = ch.kinetic_energy, ch.ES.add_probability

    def kin(r_):
        seen_r.append(np.array(r_, dtype=float))
        return kin0(r_)

    def add(p_):
        seen_p.append(float(p_))
        return add0(p_)
    ch.kinetic_energy, ch.ES.add_probability = kin, add
    bad = []
    for _ in range(max_steps):
        seen_r.clear(), seen_p.clear()
        m_e, m_r = len(post.evals), rng.mark()
        t0, p_old = np.array(ch.theta[-1], dtype=float), float(ch.probs[-1])
        ch.take_step()
        evs = post.evals[m_e:]
        zs = [float(v) for k, v in rng.log[m_r:] if k == "normal"]
        for a in range(len(seen_p)):
            r0, r1 = seen_r[2 * a], seen_r[2 * a + 1]
            p_new = float(evs[a][1]) * float(ch.inv_temp)
            mh = math.exp(min(0.0, (p_new - neglogq(r1)) - (p_old - neglogq(r0))))
            got = min(1.0, seen_p[a])
            if abs(got - mh) > 1e-6 * (1 + mh):
                bad.append({"inverse_mass": np.asarray(ch.mass.inv_mass, dtype=float).tolist(),
                            "momentum_factor_measured (r = A z)": A.tolist(),
                            "current_point": t0.tolist(), "normal_draws_z": zs[a * n:(a + 1) * n],
                            "momentum_drawn": r0.tolist(), "proposed_point": [float(v) for v in evs[a][0]],
                            "accept_probability_used": got, "metropolis_hastings_probability": mh})
                return bad
    return bad
