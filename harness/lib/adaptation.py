"""Correspondence for the on-line tuning model (Model/Adaptation.v): real
`Parameter.submit_accept_prob` and `EpsilonSelector.add_probability` are fed
dyadic acceptance probabilities; after every submission the bookkeeping
(avg, var, num, chk_int) must equal the model's exactly, the outcome
(accumulate / grow the interval / adjust the width) must be the model's, and an
applied factor must be (ln target / ln mu)^rate clamped -- the latter by a
coq-interval goal on RealModel/AdaptFormula.v."""
from __future__ import annotations

import warnings
from fractions import Fraction as F

import numpy as np

from . import common as C
from . import interval as I

HEADER = """From Coq Require Import QArith ZArith List.
From IT Require Import Model.Adaptation.
Import ListNotations.
Open Scope Q_scope.
"""

GOAL_PREAMBLE = """From Coq Require Import Reals.
From Interval Require Import Tactic.
From IT Require Import RealModel.AdaptFormula.
Open Scope R_scope.
"""


def tuner_coq(avg, var, num, chk, width, target, growth, floor, lo, hi):
    return (f"(mkTuner {C.cq(avg)} {C.cq(var)} {C.cnat(num)} {C.cz(chk)} {C.cq(width)} {C.cq(target)} "
            f"{C.cq(growth)} {C.cq(floor)} {C.cq(lo)} {C.cq(hi)})")


def gen_p(r, style):
    """dyadic acceptance probabilities; `style` biases them so that all three outcomes occur"""
    if style == "low":
        return F(r.randint(0, 40), 256)
    if style == "high":
        return F(r.randint(200, 256), 256)
    if style == "target":
        return F(r.randint(100, 156), 256)
    return F(r.randint(0, 256), 256)


def run(rep, prop, r, tier):
    from inference.mcmc.gibbs import Parameter
    from inference.mcmc.hmc.epsilon import EpsilonSelector
    n_objs = 6 if tier == "quick" else 40
    cases, goals, meta = [], [], []
    for k in range(n_objs):
        kind = "param" if k % 2 == 0 else "eps"
        style = r.choice(["low", "high", "target", "mixed"])
        with warnings.catch_warnings(), np.errstate(all="ignore"):
            warnings.simplefilter("ignore")
            if kind == "param":
                obj = Parameter(value=1.0, sigma=float(F(r.randint(1, 64), 16)))
                obj.target_rate = r.choice([0.25, 0.5])
                obj.chk_int = r.choice([10, 20, 30])
                const = dict(target=F(obj.target_rate), growth=F(7, 4), floor=F(0), lo=F(1, 10), hi=F(3), rate=F(1, 4))
                get = lambda o: (o.avg, o.var, o.num, o.chk_int, o.sigma)
                sub = obj.submit_accept_prob
            else:
                obj = EpsilonSelector(float(F(r.randint(1, 64), 64)))
                obj.chk_int = r.choice([10, 15, 20])
                const = dict(target=F(13, 20), growth=F(7, 5), floor=F(3, 100), lo=F(1, 2), hi=F(2), rate=F(3, 20))
                get = lambda o: (o.avg, o.var, o.num, o.chk_int, o.epsilon)
                sub = obj.add_probability
            for step in range(60 if tier == "quick" else 150):
                pre = get(obj)
                p = gen_p(r, style if r.random() < 0.8 else "mixed")
                try:
                    sub(float(p))
                except Exception as e:
                    rep.violation(f"{prop}/adaptation/exception", f"{kind}: submit raised {e!r}", {"case": {"p": str(p)}}, True)
                    break
                post = get(obj)
                if not all(np.isfinite(float(v)) for v in post):
                    rep.violation(f"{prop}/adaptation/nonfinite", f"{kind}: tuning state became non-finite {post}",
                                  {"case": {"kind": kind, "pre": [str(v) for v in pre], "p": str(p)}}, True)
                    break
                # the float sums of dyadic p are exact; 0.03 and the decimal constants are the doubles the code uses
                floor = C.frac(0.03) if kind == "eps" else F(0)
                t = tuner_coq(C.frac(pre[0]), C.frac(pre[1]), int(pre[2]), int(pre[3]), C.frac(pre[4]),
                              C.frac(float(const["target"])), const["growth"], floor, const["lo"], const["hi"])
                obs = f"({C.cq(C.frac(post[0]))}, {C.cq(C.frac(post[1]))}, {C.cnat(int(post[2]))}, ({C.cz(int(post[3]))})%Z, {C.cq(C.frac(post[4]))})"
                cases.append(f"({t}, {C.cq(p)}, {obs})")
                meta.append({"kind": kind, "pre": [str(v) for v in pre], "p": str(p), "post": [str(v) for v in post]})
                adjusted = int(post[2]) == 0 and int(pre[2]) + 1 >= int(pre[3])
                rep.count("tuning_outcome=" + ("adjust" if adjusted else "grow" if int(post[3]) != int(pre[3]) else "accumulate"))
                if adjusted and float(pre[4]) != 0.0:
                    n1 = int(pre[2]) + 1
                    mu = (C.frac(pre[0]) + p) / n1
                    if 0 < mu < 1:
                        ratio = C.frac(post[4]) / C.frac(pre[4])
                        tgt, rate = C.cR(C.frac(float(const['target']))), C.cR(const['rate'])
                        raw = f"adj_raw {tgt} {C.cR(mu)} {rate}"
                        slack = F(1, 10 ** 9)
                        if abs(ratio - const["hi"]) <= slack * const["hi"]:      # clamped from above
                            stmt = f"{C.cR(const['hi'] * (1 - slack))} <= {raw}"
                        elif abs(ratio - const["lo"]) <= slack * const["lo"]:    # clamped from below
                            stmt = f"{raw} <= {C.cR(const['lo'] * (1 + slack))}"
                        else:
                            stmt = f"Rabs ({raw} - {C.cR(ratio)}) <= {C.cR(slack * ratio)}"
                        goals.append((len(goals), stmt, "unfold adj_raw, Rpower; interval with (i_prec 80)"))
    rep.count("tuning_submissions", len(cases))
    # exact bookkeeping / outcome inside Coq
    bad = set()
    files, idx = [], []
    CH = 120
    for i in range(0, len(cases), CH):
        body = "Definition cases : list (tuner * Q * (Q * Q * nat * Z * Q)) :=\n " + C.clist(cases[i:i + CH], ";\n ") + "."
        files.append(C.write_case_file(prop, f"tuning_{i // CH}", HEADER, body, ["failing_submits cases 0"]))
        idx.append(i)
    for p_, base, (ok, res, log) in zip(files, idx, C.run_case_files(files, jobs=8)):
        if not ok or 0 not in res:
            rep.obligation(False)
            rep.violation(f"{prop}/adaptation/correspondence-run", f"tuning case file {p_.name} did not evaluate",
                          {"theorem_or_correspondence": f"coq/gen/{prop}/{p_.name}", "log": log}, False)
            continue
        rep.obligation(True)
        for j in res[0]:
            bad.add(base + j)
    for j in sorted(bad)[:3]:
        m = meta[j]
        rep.violation(f"{prop}/adaptation/bookkeeping",
                      f"{m['kind']}: tuning bookkeeping / outcome after submitting p={m['p']} differs from the model "
                      f"(state before {m['pre']}, after {m['post']})", {"case": m}, True)
    failed, broken = I.check_goals(prop, "tuning_goals", goals, preamble=GOAL_PREAMBLE, chunk=25, jobs=6, timeout=600)
    rep.obligation(not failed and not broken, max(1, len(goals)))
    for gid, log in failed[:3]:
        rep.violation(f"{prop}/adaptation/factor", "an applied width / step-size factor is not (ln target / ln mu)^rate clamped",
                      {"theorem_or_correspondence": "RealModel.AdaptFormula.adj (interval goal)", "goal": goals[gid][1]}, False)
    for b in broken[:1]:
        rep.violation(f"{prop}/adaptation/correspondence-run", "a tuning goal file could not be processed",
                      {"theorem_or_correspondence": "tuning interval goals", "log": b[-600:]}, False)
    rep.count("tuning_factor_goals", len(goals))
