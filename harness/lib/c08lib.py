"""C08 helper: stub chain, scripted coordinator randomness, and the runner that
drives the REAL inference.mcmc.parallel.ParallelTempering (real processes, real
pipes) for one configuration under several injected delay patterns.

The runner is executed in a subprocess of the check (python c08lib.py --in J --out R)
so that a hanging coordinator / stray workers can always be killed from outside;
inside it every run is additionally guarded by SIGALRM and by a watchdog thread
that notices a worker process dying while the coordinator is waiting for it.

Nothing here re-implements parallel.py: the classes below are the *chains* and
the *random sources* handed to it.
"""
from __future__ import annotations

import json
import os
import signal
import sys
import threading
import time
import traceback
from fractions import Fraction
from pathlib import Path

HARNESS = Path(__file__).resolve().parents[1]
if str(HARNESS) not in sys.path:
    sys.path.insert(0, str(HARNESS))

import numpy as np  # noqa: E402


def fr(s) -> Fraction:
    return Fraction(s)


def fs(x) -> str:
    """exact rational text of a float / int / Fraction"""
    if isinstance(x, Fraction):
        return f"{x.numerator}/{x.denominator}"
    x = float(x)
    if x != x or x in (float("inf"), float("-inf")):
        return repr(x)
    f = Fraction(*x.as_integer_ratio())
    return f"{f.numerator}/{f.denominator}"


# --------------------------------------------------------------------------
# chains
# --------------------------------------------------------------------------
def _chain_base():
    from inference.mcmc.base import MarkovChain
    return MarkovChain


def make_stub_class():
    """StubChain is created lazily so that importing this module does not import
    the implementation (VERIF_REPO must be honoured by the caller first)."""
    global StubChain
    if "StubChain" in globals():
        return StubChain
    MarkovChain = _chain_base()
    from inference.mcmc.utilities import ChainProgressPrinter

    class StubChain(MarkovChain):
        """Deterministic chain with dyadic state.  logp(x) = -sum a_i (x_i - m_i)^2.
        Step t reads tape[t] = (d, c): prop = x + d; p_new = logp(prop)*inv_temp;
        accepted iff p_new - probs[-1] >= c, else the current point is repeated.
        The step therefore depends on the stored point AND the stored probability
        (as the real samplers' steps do) and on nothing else but the chain's own tape.
        get_last / replace_last / probs / inv_temp as in HamiltonianChain."""

        def __init__(self, quad, start, temperature, tape, delays, display_progress=True):
            self.inv_temp = 1.0 / temperature
            self.temperature = temperature
            self.a = np.array([float(a) for a, _ in quad], dtype=float)
            self.m = np.array([float(m) for _, m in quad], dtype=float)
            self.theta = [np.array([float(v) for v in start], dtype=float)]
            self.probs = [self.logp(self.theta[0]) * self.inv_temp]
            self.tape = [(np.array([float(v) for v in d], dtype=float), float(c)) for d, c in tape]
            self.pos = 0
            self.delays = [float(v) for v in delays]
            self.chain_length = 1
            self.n_parameters = len(start)
            self.display_progress = display_progress
            self.ProgressPrinter = ChainProgressPrinter(
                display=self.display_progress, leading_msg="advancing chain:")

        def logp(self, x):
            return float(-np.sum(self.a * (x - self.m) ** 2))

        def take_step(self):
            if self.delays:
                ms = self.delays[self.pos % len(self.delays)]
                if ms > 0:
                    time.sleep(ms / 1000.0)
            d, c = self.tape[self.pos]
            self.pos += 1
            prop = self.theta[-1] + d
            p_new = self.logp(prop) * self.inv_temp
            if p_new - self.probs[-1] >= c:
                self.theta.append(prop)
                self.probs.append(p_new)
            else:
                self.theta.append(self.theta[-1].copy())
                self.probs.append(self.probs[-1])
            self.chain_length += 1

        def get_last(self):
            return self.theta[-1]

        def replace_last(self, theta):
            self.theta[-1] = theta

        def get_parameter(self, index, burn=1, thin=1):
            return np.array([t[index] for t in self.theta[burn::thin]])

        def get_probabilities(self, burn=1, thin=1):
            return np.array(self.probs[burn::thin])

        def get_sample(self, burn=1, thin=1):
            return np.array(self.theta[burn::thin])

    StubChain.__module__ = __name__
    StubChain.__qualname__ = "StubChain"
    globals()["StubChain"] = StubChain
    return StubChain


class DelayedQuad:
    """Dyadic quadratic log-density with an injected per-call delay (real chains)."""

    def __init__(self, quad, delays):
        self.a = np.array([float(a) for a, _ in quad], dtype=float)
        self.m = np.array([float(m) for _, m in quad], dtype=float)
        self.delays = [float(v) for v in delays]
        self.calls = 0
        self.active = False

    def _sleep(self):
        if self.active and self.delays:
            ms = self.delays[self.calls % len(self.delays)]
            self.calls += 1
            if ms > 0:
                time.sleep(ms / 1000.0)

    def __call__(self, theta):
        self._sleep()
        x = np.asarray(theta, dtype=float)
        return float(-np.sum(self.a * (x - self.m) ** 2))

    def gradient(self, theta):
        x = np.asarray(theta, dtype=float)
        return -2.0 * self.a * (x - self.m)


# --------------------------------------------------------------------------
# scripted randomness of the coordinator
# --------------------------------------------------------------------------
class PTScript:
    """Replaces pt.rng (shuffle, random) and parallel.choice.  Three tapes:
    choices (ints, used modulo len(seq)), draws (ints driving the insertion
    shuffle that Model/Tempering.v `shuffle` describes), unis (dyadic in [0,1))."""

    def __init__(self, choices, draws, unis):
        self.choices = [int(c) for c in choices]
        self.draws = [int(d) for d in draws]
        self.unis = [Fraction(u) for u in unis]
        self.ci = self.di = self.ui = 0

    def choice(self, seq):
        k = self.choices[self.ci]
        self.ci += 1
        return seq[k % len(seq)]

    def shuffle(self, x):
        n = len(x)
        ks = self.draws[self.di:self.di + n]
        if len(ks) != n:
            raise IndexError("shuffle tape exhausted")
        self.di += n
        vals = [x[i] for i in range(n)]
        res = []
        for i in reversed(range(n)):
            res.insert(ks[i] % (len(res) + 1), vals[i])
        for i in range(n):
            x[i] = res[i]

    def random(self, size=None):
        if size is not None:
            return np.array([self.random() for _ in range(int(np.prod(size)))]).reshape(size)
        u = self.unis[self.ui]
        self.ui += 1
        return float(u)


# --------------------------------------------------------------------------
# delay patterns (ms per step for chain i of N), keyed on the temperature index
# --------------------------------------------------------------------------
PATTERNS = ["none", "hot-slow", "cold-slow", "alternating", "straggler", "zigzag", "random"]


def delays_for(pattern, i, N, nsteps, seed, budget_ms=350.0):
    import random as _r
    n = max(nsteps, 1)
    if pattern == "none":
        d = [0.0] * n
    elif pattern == "hot-slow":
        d = [5.0 * i] * n
    elif pattern == "cold-slow":
        d = [5.0 * (N - 1 - i)] * n
    elif pattern == "alternating":
        d = [14.0 if i % 2 == 0 else 0.0] * n
    elif pattern == "straggler":
        d = [30.0 if i == N // 2 else 0.0] * n
    elif pattern == "zigzag":
        d = [6.0 * ((i + t) % 3) for t in range(n)]
    elif pattern == "random":
        r = _r.Random(seed * 1000 + i)
        d = [r.choice([0.0, 0.0, 1.0, 3.0, 8.0, 15.0, 30.0]) for _ in range(n)]
    else:
        raise ValueError(pattern)
    tot = sum(d)
    if tot > budget_ms:
        d = [v * budget_ms / tot for v in d]
    return d


# --------------------------------------------------------------------------
# building the chains of a job
# --------------------------------------------------------------------------
def build_chains(job, pattern):
    kind = job["kind"]
    N = job["N"]
    quad = [(fr(a), fr(m)) for a, m in job["quad"]]
    dp = bool(job["display_progress"])
    chains = []
    for i in range(N):
        T = float(fr(job["temps"][i]))
        start = [fr(v) for v in job["starts"][i]]
        if kind == "stub":
            delays = delays_for(pattern, i, N, job["total_steps"], job["seed"])
            tape = [([fr(v) for v in d], fr(c)) for d, c in job["tapes"][i]]
            chains.append(make_stub_class()(quad, start, T, tape, delays, display_progress=dp))
            continue
        from lib.scripted import ScriptedRNG
        # several posterior calls per step: spread the per-step delay
        per_call = [v / 3.0 for v in delays_for(pattern, i, N, job["total_steps"] * 3, job["seed"])]
        post = DelayedQuad(quad, per_call)
        if kind in ("gibbs", "metropolis", "pca"):
            # the three classes that share MetropolisChain.__init__
            if kind == "gibbs":
                from inference.mcmc import GibbsChain as cls
            elif kind == "pca":
                from inference.mcmc import PcaChain as cls
            else:
                from inference.mcmc.gibbs import MetropolisChain as cls
            ch = cls(posterior=post, start=np.array([float(v) for v in start]),
                     widths=[float(fr(w)) for w in job["widths"][i]],
                     temperature=T, display_progress=dp)
            ch.rng = ScriptedRNG(job["seed"] * 7919 + i)
            for k, p in enumerate(ch.params):
                p.rng = ScriptedRNG(job["seed"] * 104729 + 100 * i + k)
                p.chk_int = 10 ** 9
        elif kind == "hmc":
            from inference.mcmc import HamiltonianChain
            ch = HamiltonianChain(posterior=post, start=np.array([float(v) for v in start]),
                                  grad=post.gradient, epsilon=float(fr(job["epsilon"])),
                                  temperature=T, display_progress=dp)
            ch.rng = ScriptedRNG(job["seed"] * 7919 + i)
            ch.steps = 4
            ch.ES.chk_int = 10 ** 9
        else:
            raise ValueError(kind)
        post.active = True
        chains.append(ch)
    return chains


def chain_history(ch):
    """(points oldest first, stored probabilities) as exact rational text"""
    if hasattr(ch, "theta"):
        pts = [[fs(v) for v in np.atleast_1d(t)] for t in ch.theta]
    else:
        n = len(ch.params[0].samples)
        pts = [[fs(p.samples[t]) for p in ch.params] for t in range(n)]
    return {"points": pts, "probs": [fs(p) for p in ch.probs], "inv_temp": fs(ch.inv_temp),
            "chain_length": int(ch.chain_length)}


# --------------------------------------------------------------------------
# one run of the real ParallelTempering
# --------------------------------------------------------------------------
class RunTimeout(Exception):
    pass


class WorkerDied(Exception):
    pass


def run_one(job, pattern, mode):
    """mode 'plain': exactly the calls of the job.  mode 'oracle': additionally a
    return_chains() snapshot before and after every swap() (also those inside
    advance), so that the exchange rule can be recomputed from the chains' own
    stored values."""
    import inference.mcmc.parallel as par
    script = PTScript(job["choices"], job["draws"], job["unis"])
    par.choice = script.choice
    rec = {"pattern": pattern, "mode": mode, "status": "ok", "ops": [], "proposed": [],
           "snaps": [], "swaps": [], "flat_calls": [], "phase": "build"}
    pt = None
    state = {"phase": "build", "stop_watch": False}
    main_pid = os.getpid()

    def on_alarm(signum, frame):
        raise RunTimeout(f"no progress within {job['timeout']} s in phase {state['phase']}")

    def on_usr1(signum, frame):
        raise WorkerDied(state.get("died", "a worker process died"))

    signal.signal(signal.SIGALRM, on_alarm)
    signal.signal(signal.SIGUSR1, on_usr1)
    signal.alarm(int(job["timeout"]))

    def watchdog():
        while not state["stop_watch"]:
            time.sleep(0.05)
            if pt is None or state["phase"] in ("shutdown", "done"):
                continue
            for k, p in enumerate(pt.processes):
                if p.exitcode is not None:
                    state["died"] = (f"worker process {k} exited with code {p.exitcode} "
                                     f"while the coordinator was in phase {state['phase']}")
                    state["stop_watch"] = True
                    os.kill(main_pid, signal.SIGUSR1)
                    return

    t0 = time.time()
    try:
        chains = build_chains(job, pattern)
        pt = par.ParallelTempering(chains)
        pt.rng = script
        N = pt.N_chains

        def snapshot():
            return [chain_history(c) for c in pt.return_chains()]

        orig_tight, orig_uniform = pt.tight_pairs, pt.uniform_pairs
        orig_steps, orig_swap = pt.take_steps, pt.swap

        def tight():
            r = orig_tight()
            rec["proposed"].append({"routine": "tight", "pairs": [[int(a), int(b)] for a, b in r]})
            return r

        def uniform():
            r = orig_uniform()
            rec["proposed"].append({"routine": "uniform", "pairs": [[int(a), int(b)] for a, b in r]})
            return r

        def steps(n):
            rec["ops"].append(["steps", int(n)])
            rec["flat_calls"].append(["take_steps", int(n)])
            state["phase"] = f"take_steps({n})"
            return orig_steps(n)

        def swap():
            rec["ops"].append(["swap"])
            state["phase"] = "swap"
            sw = {}
            if mode == "oracle":
                rec["flat_calls"].append(["return"])
                sw["before"] = snapshot()
                rec["snaps"].append(sw["before"])
            u0, p0 = script.ui, len(rec["proposed"])
            s0 = pt.successful_swaps.copy()
            a0 = pt.attempted_swaps.copy()
            rec["flat_calls"].append(["swap"])
            orig_swap()
            sw["unis"] = [fs(u) for u in script.unis[u0:script.ui]]
            sw["proposed"] = rec["proposed"][p0:]
            sw["succ_delta"] = (pt.successful_swaps - s0).astype(int).tolist()
            sw["att_delta"] = (pt.attempted_swaps - a0).astype(int).tolist()
            if mode == "oracle":
                rec["flat_calls"].append(["return"])
                sw["after"] = snapshot()
                rec["snaps"].append(sw["after"])
            rec["swaps"].append(sw)

        pt.tight_pairs, pt.uniform_pairs = tight, uniform
        pt.take_steps, pt.swap = steps, swap
        threading.Thread(target=watchdog, daemon=True).start()

        rec["call_ops"] = []
        for call in job["calls"]:
            o0 = len(rec["ops"])
            state["phase"] = str(call)
            if call[0] == "take_steps":
                pt.take_steps(call[1])
            elif call[0] == "swap":
                pt.swap()
            elif call[0] == "advance":
                pt.advance(call[1], swap_interval=call[2])
            elif call[0] == "return":
                state["phase"] = "return_chains"
                rec["flat_calls"].append(["return"])
                rec["snaps"].append(snapshot())
            else:
                raise ValueError(call)
            rec["call_ops"].append(rec["ops"][o0:])
        rec["att"] = pt.attempted_swaps.astype(int).tolist()
        rec["succ"] = pt.successful_swaps.astype(int).tolist()
        rec["att_exact"] = bool((pt.attempted_swaps == pt.attempted_swaps.astype(int)).all())
        rec["used"] = {"choices": script.ci, "draws": script.di, "unis": script.ui}
        # shutdown: the real method; join() inside it has no timeout, SIGALRM guards it
        state["phase"] = "shutdown"
        ts = time.time()
        pt.shutdown()
        rec["shutdown"] = {"join_s": round(time.time() - ts, 3),
                           "exitcodes": [p.exitcode for p in pt.processes],
                           "alive": [bool(p.is_alive()) for p in pt.processes]}
        state["phase"] = "done"
    except RunTimeout as e:
        rec["status"] = "timeout"
        rec["error"] = str(e)
    except WorkerDied as e:
        rec["status"] = "worker-died"
        rec["error"] = str(e)
    except Exception as e:  # noqa: BLE001
        rec["status"] = "exception"
        rec["error"] = repr(e)
        rec["traceback"] = traceback.format_exc()[-1500:]
    finally:
        signal.alarm(0)
        state["stop_watch"] = True
        rec["phase"] = state["phase"]
        if pt is not None:
            try:
                pt.shutdown_evt.set()
            except Exception:  # noqa: BLE001
                pass
            for p in pt.processes:
                try:
                    p.join(0.3)
                    if p.is_alive():
                        p.kill()
                        p.join(1.0)
                except Exception:  # noqa: BLE001
                    pass
            for c in pt.connections:
                try:
                    c.close()
                except Exception:  # noqa: BLE001
                    pass
    rec["wall"] = round(time.time() - t0, 3)
    return rec


def main(argv):
    jin, jout = argv[argv.index("--in") + 1], argv[argv.index("--out") + 1]
    job = json.loads(Path(jin).read_text())
    repo = os.environ.get("VERIF_REPO", "/repo")
    if repo not in sys.path:
        sys.path.insert(0, repo)
    import lib.c08lib as me   # stable module name for pickling of StubChain / DelayedQuad
    real_stdout = sys.stdout
    sys.stdout = open(os.devnull, "w")
    out = {"runs": []}
    failed = False
    for pattern, mode in job["runs"]:
        if failed:
            out["runs"].append({"pattern": pattern, "mode": mode, "status": "skipped"})
            continue
        r = me.run_one(job, pattern, mode)
        out["runs"].append(r)
        if r["status"] != "ok":
            failed = True    # the same failure would repeat (and cost a timeout) for every pattern
    sys.stdout = real_stdout
    Path(jout).write_text(json.dumps(out))
    return 0


if __name__ == "__main__":
    sys.exit(main(sys.argv))
