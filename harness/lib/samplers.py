"""Driving the real samplers with scripted randomness and turning every observed
transition (one take_step / one ensemble iteration) into a Coq case for the
models of coq/theories/Model/Samplers.v.

Each record holds the state of the real object just before the call (exact
rationals of its doubles), the draws the call consumed (in order), every
posterior evaluation it made, and the state afterwards.
"""
from __future__ import annotations

import copy
import io
import contextlib
from fractions import Fraction

import numpy as np

from . import common as C
from .scripted import ScriptedRNG, RecordingPosterior, quadratic_logp

HEADER = """From Coq Require Import QArith List ZArith Bool.
From IT Require Import Common.ExpBounds Model.Reflect Model.Samplers.
Import ListNotations.
Open Scope Q_scope.
"""

HEADER_MASS = HEADER.replace("Model.Samplers.", "Model.Samplers Model.HmcMass.")

TOL = Fraction(1, 10 ** 9)


# ------------------------------------------------------------------ posterior
def random_quadratic(r, n, correlated=True, scale_pow=0):
    """dyadic, negative-definite quadratic log-density in n dimensions."""
    a = [Fraction(r.randint(1, 8), r.choice([1, 2, 4])) * Fraction(2) ** scale_pow for _ in range(n)]
    m = [Fraction(r.randint(-8, 8), r.choice([1, 2, 4])) for _ in range(n)]
    c = {}
    if correlated and n > 1 and r.random() < 0.6:
        for _ in range(r.randint(1, n - 1)):
            i, j = sorted(r.sample(range(n), 2))
            # keep it dominated by the diagonal: |c_ij| <= min(a_i, a_j)
            lim = min(a[i], a[j])
            c[(i, j)] = lim * Fraction(r.randint(-4, 4), 4)
    return a, m, c


def coq_qpost(a, m, c):
    cs = C.clist([f"({i}%nat, {j}%nat, {C.cq(v)})" for (i, j), v in sorted(c.items())])
    return f"(mkQP {qlist(a)} {qlist(m)} {cs})"


def qlist(xs):
    return C.clist([C.cq(x) for x in xs])


def qmat(rows):
    return C.clist([qlist(r) for r in rows])


def fr(x):
    return C.frac(x)


def frs(xs):
    return [C.frac(v) for v in np.asarray(xs, dtype=float).ravel()]


def events_coq(evs):
    return C.clist([f"({qlist(p)}, {C.cq(v)})" for p, v in evs])


def bounds_coq(b):
    if b is None:
        return "None"
    if isinstance(b, str):       # a Coq term of type option (list Q * list Q), used as is (C04 lifetimes)
        return b
    return f"(Some ({qlist(b[0])}, {qlist(b[1])}))"


def quiet():
    return contextlib.redirect_stdout(io.StringIO())


def tape_of(log):
    """Numeric draws in consumption order (normal, uniform, integer)."""
    out = []
    for k, v in log:
        if k in ("normal", "uniform", "exponential"):
            out.append(Fraction(v))
        elif k == "integer":
            out.append(Fraction(int(v)))
    return out


# ------------------------------------------------------------------ Gibbs family
def kind_of(p):
    name = getattr(p.proposal, "__name__", "?")
    if name == "standard_proposal":
        return "PStd"
    if name == "abs_proposal":
        return "PAbs"
    if name == "boundary_proposal":
        # with non-negativity also switched on, the fold is into [max(lower, 0), upper]
        lower = max(p.lower, 0.0) if getattr(p, "_non_negative", False) else p.lower
        return f"(PBnd {C.cq(fr(lower))} {C.cq(fr(p.upper))})"
    return None


def gparams_coq(chain):
    items = []
    for p in chain.params:
        k = kind_of(p)
        if k is None:
            return None
        items.append(f"(mkGP {C.cq(fr(p.sigma))} {k} {C.cnat(p.try_count)} {C.cnat(p.max_tries)})")
    return C.clist(items)


def attach_rng(chain, rng):
    chain.rng = rng
    for p in getattr(chain, "params", []):
        p.rng = rng


def freeze_adaptation(chain, n=10 ** 9):
    for p in getattr(chain, "params", []):
        p.chk_int = n
    if hasattr(chain, "ES"):
        chain.ES.chk_int = n
    if hasattr(chain, "next_update"):
        chain.next_update = n


class StepRecord:
    def __init__(self, kind, pre, tape, events, post, extra=None):
        self.kind, self.pre, self.tape, self.events, self.post = kind, pre, tape, events, post
        self.extra = extra or {}


def tempered_events(post, beta, mark):
    return [(list(th), v * beta) for th, v in post.evals[mark:]]


def record_gibbs_like(chain, post, rng, nsteps, kind):
    """kind in {'gibbs', 'metro'}; returns list of StepRecord or raises."""
    recs = []
    beta = fr(chain.inv_temp)
    for _ in range(nsteps):
        pre = {"params": gparams_coq(chain), "x": frs(chain.get_last()), "p": fr(chain.probs[-1]),
               "beta": beta, "nprobs": len(chain.probs), "nsamp": len(chain.params[0].samples)}
        m_r, m_e = rng.mark(), len(post.evals)
        chain.take_step()
        recs.append(StepRecord(kind, pre, tape_of(rng.log[m_r:]), tempered_events(post, beta, m_e),
                               {"x": frs(chain.get_last()), "p": fr(chain.probs[-1]),
                                "sigmas": [fr(p.sigma) for p in chain.params],
                                "nprobs": len(chain.probs), "nsamp": len(chain.params[0].samples)}))
    return recs


def coq_gibbs_case(rec, qp, fn):
    o = rec.post
    obs = f"(mkGO {qlist(o['x'])} {C.cq(o['p'])} {events_coq(rec.events)} {qlist(o['sigmas'])})"
    pr = rec.pre
    return (f"({fn} {C.cq(TOL)} {qp} {C.cq(pr['beta'])} {pr['params']} {qlist(pr['x'])} {C.cq(pr['p'])} "
            f"{qlist(rec.tape)} {obs})")


# ------------------------------------------------------------------ PCA
def record_pca(chain, post, rng, nsteps):
    recs = []
    beta = fr(chain.inv_temp)
    for _ in range(nsteps):
        b = None if chain.bounds is None else (frs(chain.bounds.lower), frs(chain.bounds.upper))
        pre = {"dirs": [frs(v) for v in chain.directions], "sigmas": [fr(p.sigma) for p in chain.params],
               "bounds": b, "x": frs(chain.get_last()), "p": fr(chain.probs[-1]), "beta": beta}
        m_r, m_e = rng.mark(), len(post.evals)
        chain.take_step()
        recs.append(StepRecord("pca", pre, tape_of(rng.log[m_r:]), tempered_events(post, beta, m_e),
                               {"x": frs(chain.get_last()), "p": fr(chain.probs[-1]),
                                "sigmas": [fr(p.sigma) for p in chain.params]}))
    return recs


def coq_pca_case(rec, qp):
    o, pr = rec.post, rec.pre
    obs = f"(mkGO {qlist(o['x'])} {C.cq(o['p'])} {events_coq(rec.events)} {qlist(o['sigmas'])})"
    return (f"(check_pca {C.cq(TOL)} {qp} {C.cq(pr['beta'])} {qmat(pr['dirs'])} {qlist(pr['sigmas'])} "
            f"{bounds_coq(pr['bounds'])} {qlist(pr['x'])} {C.cq(pr['p'])} {qlist(rec.tape)} {obs})")


# ------------------------------------------------------------------ HMC
def mass_coq(chain):
    from inference.mcmc.hmc.mass import MatrixMass
    m = chain.mass
    n = chain.n_parameters
    if isinstance(m, MatrixMass):
        return f"(MFull {qmat([frs(r) for r in m.inv_mass])} {qmat([frs(r) for r in m.L])})"
    im = np.broadcast_to(np.asarray(m.inv_mass, dtype=float), (n,))
    sm = np.broadcast_to(np.asarray(m.sqrt_mass, dtype=float), (n,))
    return f"(MDiag {qlist(frs(im))} {qlist(frs(sm))})"


def record_hmc(chain, post, rng, nsteps):
    recs = []
    beta = fr(chain.inv_temp)
    for _ in range(nsteps):
        b = None if chain.bounds is None else (frs(chain.bounds.lower), frs(chain.bounds.upper))
        pre = {"mass": mass_coq(chain), "eps": fr(chain.ES.epsilon), "steps": int(chain.steps),
               "max_attempts": int(chain.max_attempts), "bounds": b,
               "t": frs(chain.theta[-1]), "p": fr(chain.probs[-1]), "beta": beta}
        m_r, m_e = rng.mark(), len(post.evals)
        chain.take_step()
        recs.append(StepRecord("hmc", pre, tape_of(rng.log[m_r:]), tempered_events(post, beta, m_e),
                               {"t": frs(chain.theta[-1]), "p": fr(chain.probs[-1]),
                                "leaps": int(chain.leapfrog_steps[-1])}))
    return recs


def coq_hmc_case(rec, qp, mass_tol=None):
    """mass_tol=None: `check_hmc` (Model/Samplers.v).  With a tolerance: `check_hmc_mass`
    (Model/HmcMass.v; needs HEADER_MASS), which first checks that the factor the momenta are
    drawn with and the inverse mass of the kinetic energy describe the same mass."""
    o, pr = rec.post, rec.pre
    obs = f"(mkHO {qlist(o['t'])} {C.cq(o['p'])} {events_coq(rec.events)} {C.cnat(o['leaps'])})"
    fn = "check_hmc" if mass_tol is None else f"check_hmc_mass {C.cq(mass_tol)}"
    return (f"({fn} {C.cq(TOL)} {qp} {C.cq(pr['beta'])} {pr['mass']} {C.cq(pr['eps'])} "
            f"{C.cnat(pr['steps'])} {C.cnat(pr['max_attempts'])} {bounds_coq(pr['bounds'])} "
            f"{qlist(pr['t'])} {C.cq(pr['p'])} {qlist(rec.tape)} {obs})")


# ------------------------------------------------------------------ ensemble
def record_ensemble(sampler, post, rng, niter):
    recs = []
    for _ in range(niter):
        b = None if sampler.bounds is None else (frs(sampler.bounds.lower), frs(sampler.bounds.upper))
        pre = {"pos": [frs(v) for v in sampler.walker_positions], "probs": frs(sampler.walker_probs),
               "bounds": b, "xlwr": fr(sampler.x_lwr), "xwidth": fr(sampler.x_width),
               "max_attempts": int(sampler.max_attempts), "alpha": fr(sampler.alpha)}
        m_r, m_e = rng.mark(), len(post.evals)
        with quiet():
            sampler.advance(1)
        recs.append(StepRecord("ens", pre, tape_of(rng.log[m_r:]),
                               [(list(th), v) for th, v in post.evals[m_e:]],
                               {"pos": [frs(v) for v in sampler.walker_positions],
                                "probs": frs(sampler.walker_probs),
                                "failed": int(sampler.failed_updates[-1])}))
    return recs


def coq_ens_case(rec, qp, pinned=False):
    o, pr = rec.post, rec.pre
    st = (f"(mkES {qmat(pr['pos'])} {qlist(pr['probs'])} {bounds_coq(pr['bounds'])} {C.cq(pr['xlwr'])} "
          f"{C.cq(pr['xwidth'])} {C.cnat(pr['max_attempts'])} 0%nat)")
    obs = f"(mkEO {qmat(o['pos'])} {qlist(o['probs'])} {events_coq(rec.events)} {C.cnat(o['failed'])})"
    return f"(check_ens {C.cbool(pinned)} {C.cq(TOL)} {qp} {C.cq(pr['alpha'])} {st} {qlist(rec.tape)} {obs})"


# ------------------------------------------------------------------ running cases in Coq
def run_code_cases(prop, name, terms, chunk=60, jobs=12, header=None):
    """terms: list of Coq terms of type nat (result codes).  Returns
    (codes: list[int|None], broken: list[str]).  `header`: imports of the generated
    files (default HEADER)."""
    header = HEADER if header is None else header
    files, spans = [], []
    for i in range(0, len(terms), chunk):
        part = terms[i:i + chunk]
        body = "Definition codes : list nat :=\n " + C.clist(part, ";\n ") + "."
        p = C.write_case_file(prop, f"{name}_{i // chunk}", header, body,
                              ["with_code 1 codes 0", "with_code 2 codes 0", "with_code 3 codes 0"])
        files.append(p)
        spans.append((i, len(part)))
    outs = C.run_case_files(files, jobs=jobs)
    codes = [None] * len(terms)
    broken = []
    for (start, n), p, (ok, res, log) in zip(spans, files, outs):
        if not ok or not all(k in res for k in (0, 1, 2)):
            broken.append(f"{p.name}: {log[-400:]}")
            continue
        for j in range(n):
            codes[start + j] = 0
        for c, key in ((1, 0), (2, 1), (3, 2)):
            for j in res[key]:
                codes[start + j] = c
    return codes, broken
