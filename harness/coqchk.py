#!/usr/bin/env python3
"""Independent re-check of the compiled development with coqchk (not part of any registered
check: it takes tens of minutes).  Every Properties module of _CoqProject is re-verified by the
stand-alone checker, one process per module (coqchk's memory grows with the number of libraries
loaded at once), and the axioms it depends on are listed in evidence/coqchk.txt.

    python3 harness/coqchk.py [--timeout SECONDS] [--jobs N] [Module ...]

Modules whose re-check does not finish inside the time limit are reported as such (this happens
for the modules whose refutation witnesses are closed by coq-interval: the stand-alone checker
re-evaluates the reflexive interval computations with its own, much slower, reduction)."""
import subprocess
import sys
import time
from concurrent.futures import ThreadPoolExecutor
from pathlib import Path

VERIF = Path(__file__).resolve().parents[1]
COQ = VERIF / "coq"


def modules():
    mods = []
    for l in (COQ / "_CoqProject").read_text().splitlines():
        l = l.strip()
        if l.startswith("theories/Properties/") and l.endswith(".v"):
            mods.append("IT.Properties." + Path(l).stem)
    return mods


def one(mod, limit):
    t0 = time.time()
    p = subprocess.run(["timeout", str(limit), "coqchk", "-silent", "-o", "-Q", "theories", "IT", mod],
                       cwd=COQ, stdout=subprocess.PIPE, stderr=subprocess.STDOUT, text=True)
    txt = p.stdout
    k = txt.find("CONTEXT SUMMARY")
    status = "checked" if p.returncode == 0 else ("NOT FINISHED within %d s" % limit if p.returncode == 124
                                                    else "FAILED (exit %d)" % p.returncode)
    head = f"### coqchk {mod}: {status} ({time.time() - t0:.0f}s)"
    return mod, p.returncode, head + "\n" + (txt[k:] if k >= 0 else txt[-2000:])


def main(argv):
    limit, jobs, mods = 2400, 5, []
    i = 0
    while i < len(argv):
        if argv[i] == "--timeout":
            limit = int(argv[i + 1]); i += 2
        elif argv[i] == "--jobs":
            jobs = int(argv[i + 1]); i += 2
        else:
            mods.append(argv[i] if argv[i].startswith("IT.") else "IT.Properties." + argv[i]); i += 1
    mods = mods or modules()
    with ThreadPoolExecutor(max_workers=jobs) as ex:
        res = list(ex.map(lambda m: one(m, limit), mods))
    summary = ["# coqchk -o on every Properties module (one process per module, limit %d s)" % limit]
    for mod, rc, _ in res:
        summary.append(f"#   {mod}: " + ("checked" if rc == 0 else "not finished" if rc == 124 else f"FAILED exit {rc}"))
    text = "\n".join(summary) + "\n\n" + "\n".join(t for _, _, t in res) + "\n"
    (VERIF / "evidence" / "coqchk.txt").write_text(text)
    print("\n".join(summary))
    return 0 if all(rc in (0, 124) for _, rc, _ in res) and any(rc == 0 for _, rc, _ in res) else 1


if __name__ == "__main__":
    sys.exit(main(sys.argv[1:]))
