#!/usr/bin/env python3
"""Independent re-check of the compiled development with coqchk (thorough only):
every Properties module of _CoqProject is re-verified by the stand-alone checker
and the axioms it depends on are listed in evidence/coqchk.txt."""
import re
import subprocess
import sys
import time
from pathlib import Path

VERIF = Path(__file__).resolve().parents[1]
COQ = VERIF / "coq"


def main():
    mods = []
    for l in (COQ / "_CoqProject").read_text().splitlines():
        l = l.strip()
        if l.startswith("theories/Properties/") and l.endswith(".v"):
            mods.append("IT.Properties." + Path(l).stem)
    out_lines = []
    ok = True
    # in groups: coqchk memory grows with the number of libraries loaded at once
    for i in range(0, len(mods), 4):
        grp = mods[i:i + 4]
        t0 = time.time()
        p = subprocess.run(["timeout", "3000", "coqchk", "-silent", "-o", "-Q", "theories", "IT"] + grp,
                           cwd=COQ, stdout=subprocess.PIPE, stderr=subprocess.STDOUT, text=True)
        out_lines.append(f"### coqchk {' '.join(grp)}  (exit {p.returncode}, {time.time() - t0:.0f}s)")
        txt = p.stdout
        k = txt.find("CONTEXT SUMMARY")
        out_lines.append(txt[k:] if k >= 0 else txt[-3000:])
        ok = ok and p.returncode == 0
    (VERIF / "evidence" / "coqchk.txt").write_text("\n".join(out_lines) + "\n")
    print("\n".join(out_lines)[-3000:])
    return 0 if ok else 1


if __name__ == "__main__":
    sys.exit(main())
