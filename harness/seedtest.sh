#!/bin/bash
# usage: seedtest.sh <patch.diff> <Cxx> [tier]   -- runs the check against a scratch worktree of /repo HEAD with the patch applied
set -u
PATCH=$1; PROP=$2; TIER=${3:-quick}
WT=/tmp/wt-seedtest-$$
git -C /repo worktree add --detach $WT HEAD >/dev/null 2>&1 || exit 9
if ! git -C $WT apply "$PATCH"; then echo "PATCH DOES NOT APPLY"; git -C /repo worktree remove --force $WT; exit 8; fi
mkdir -p /tmp/seed-evid; cd /verif && VERIF_EVIDENCE_DIR=/tmp/seed-evid VERIF_REPO=$WT VERIF_SKIP_BUILD=1 /venv/bin/python harness/run.py $PROP $TIER 2>&1 | grep -v "^KNOWN-FINDING" | tail -${LINES_OUT:-6}
RC=${PIPESTATUS[0]}
git -C /repo worktree remove --force $WT >/dev/null 2>&1
echo "exit=$RC"
