#!/usr/bin/env python3
"""Prints the markdown tables of DESIGN.md section 10 from the committed data
(known_findings.json, seeded/*/meta.json, git log of /repo)."""
import json, subprocess
from pathlib import Path
V = Path("/verif")
k = json.loads((V / "known_findings.json").read_text())["findings"]
print("#### Fix commits in /repo (one defect each; the unedited test suite passes after each)\n")
print("| commit | property / key | what failed |\n|---|---|---|")
log = subprocess.run(["git", "-C", "/repo", "log", "--reverse", "--format=%h %s", "dae2b40..HEAD"], capture_output=True, text=True).stdout.strip().splitlines()
bykey = {}
for f in k:
    if f["status"] == "fixed":
        for c in f["commit"].split():
            bykey.setdefault(c[:7], []).append(f)
for line in log:
    h, msg = line.split(" ", 1)
    fs = bykey.get(h[:7], [])
    keys = ", ".join(f"{f['property']} `{f['key']}`" for f in fs) or "—"
    print(f"| `{h}` {msg} | {keys} | {'; '.join(f['what'] for f in fs) or msg} |")
print("\n#### Known findings (genuine defects recorded, not repaired)\n")
print("| property | key | what fails | why not repaired |\n|---|---|---|---|")
for f in k:
    if f["status"] == "known":
        print(f"| {f['property']} | `{f['key']}` | {f['what']} | {f.get('why', 'design-level / no small safe repair (see text)')} |")
print("\n#### Seeded changes (written by fresh sub-agents from the property text only)\n")
print("| id | property | what it needs to manifest | verdict | how the check reports it |\n|---|---|---|---|---|")
for d in sorted((V / "seeded").glob("C*_*")):
    m = json.loads((d / "meta.json").read_text())
    need = m.get("what_it_needs_to_manifest", "")
    need = (need[:260] + "…") if len(need) > 260 else need
    rep = m.get("check_report", "")
    rep = (rep[:420] + "…") if len(rep) > 420 else rep
    print(f"| {d.name} | {m.get('property')} | {need.replace('|', '/')} | {m.get('check_verdict')} | {rep.replace('|', '/')} |")


def summary():
    print("\n#### Per-property summary (from the committed evidence of the last quick run)\n")
    print("| id | level | theorems audited | axioms (Print Assumptions) | obligations | cases | quick wall (s) |\n|---|---|---|---|---|---|---|")
    man = json.loads((V / "MANIFEST.json").read_text())
    for c in man["checks"]:
        pid = c["property_id"]
        p = V / "evidence" / f"{pid}.json"
        if not p.exists():
            continue
        e = json.loads(p.read_text())
        cov = e["coverage"]
        audits = [v for k2, v in cov.items() if isinstance(v, dict) and "theorems" in v]
        nth = sum(len(a["theorems"]) for a in audits)
        PRIM = ("Uint63.", "PrimInt63.", "PrimFloat.", "Sint63.", "FloatAxioms.", "FloatOps.", "PArray.", "Uint63Axioms.", "CarryType.")
        raw = {a2 for a in audits for a2 in a.get("axioms_used", [])}
        ax = sorted({a2.split(".")[-1] for a2 in raw if not a2.startswith(PRIM)})
        if any(a2.startswith(PRIM) for a2 in raw):
            ax.append("+ machine-integer/float primitives of coq-interval (refutation witness only)")
        txt = c['level_claimed']['text'].lower()
        lvl = "partial" if txt.startswith("partial") else "full (up to the stated trusted base)"
        print(f"| {pid} | {lvl} | {nth} | {', '.join(ax) or 'none'} | "
              f"{cov.get('discharged')}/{cov.get('obligations')} | {cov.get('evaluations')} | {e['wall_s']} |")


if __name__ == "__main__":
    summary()
