#!/usr/bin/env python3
"""Prints the markdown tables of DESIGN.md section 10 from the committed data
(known_findings.json, seeded/*/meta.json, git log of /repo)."""
import json, subprocess
from pathlib import Path
V = Path("/verif")
k = json.loads((V / "known_findings.json").read_text())["findings"]
print("#### Fix commits in /repo (one defect each; the unedited test suite passes after each)\n")
print("| commit | property / key | what failed |\n|---|---|---|")
log = subprocess.run(["git", "-C", "/repo", "log", "--reverse", "--format=%h %s", "dae2b40..HEAD"], capture_output=True, text=True).stdout.strip().splitlines()
bykey = {}
for f in k:
    if f["status"] == "fixed":
        for c in f["commit"].split():
            bykey.setdefault(c[:7], []).append(f)
for line in log:
    h, msg = line.split(" ", 1)
    fs = bykey.get(h[:7], [])
    keys = ", ".join(f"{f['property']} `{f['key']}`" for f in fs) or "—"
    print(f"| `{h}` {msg} | {keys} | {'; '.join(f['what'] for f in fs) or msg} |")
print("\n#### Known findings (genuine defects recorded, not repaired)\n")
print("| property | key | what fails | why not repaired |\n|---|---|---|---|")
for f in k:
    if f["status"] == "known":
        print(f"| {f['property']} | `{f['key']}` | {f['what']} | {f.get('why', 'design-level / no small safe repair (see text)')} |")
print("\n#### Seeded changes (written by fresh sub-agents from the property text only)\n")
print("| id | property | what it needs to manifest | verdict | how the check reports it |\n|---|---|---|---|---|")
for d in sorted((V / "seeded").glob("C*_*")):
    m = json.loads((d / "meta.json").read_text())
    need = m.get("what_it_needs_to_manifest", "")
    need = (need[:260] + "…") if len(need) > 260 else need
    rep = m.get("check_report", "")
    rep = (rep[:420] + "…") if len(rep) > 420 else rep
    print(f"| {d.name} | {m.get('property')} | {need.replace('|', '/')} | {m.get('check_verdict')} | {rep.replace('|', '/')} |")
