#!/usr/bin/env python3
"""import_seed.py <seed dir> <caught|missed> "<how the check reported it>" [dest name]  -- copies a confirmed seeded change into /verif/seeded/"""
import json, shutil, sys
from pathlib import Path
src = Path(sys.argv[1]); verdict = sys.argv[2]; how = sys.argv[3]
dst = Path("/verif/seeded") / (sys.argv[4] if len(sys.argv) > 4 else src.name)
dst.mkdir(parents=True, exist_ok=True)
for f in ("patch.diff", "demo.py"):
    shutil.copy(src / f, dst / f)
meta = json.loads((src / "meta.json").read_text())
ver = (src / "verify.txt").read_text().strip() if (src / "verify.txt").exists() else "not verified"
meta["confirmed_by_me"] = ver
meta["what_i_ran"] = ("harness/verify_seed.sh (scratch worktree of /repo HEAD: demo.py without the patch, with the patch, "
                      "full test suite with the patch); harness/seedtest.sh <patch> " + meta.get("property", "?") +
                      " (the registered quick check against a scratch worktree with the patch applied)")
meta["check_verdict"] = verdict
meta["check_report"] = how
(dst / "meta.json").write_text(json.dumps(meta, indent=1))
print("imported", dst)
