"""Fail-closed AST translator for property C09 (DESIGN.md 2.4).

For every sampler class it extracts from the CURRENT source of /repo

  saved      keys written by save()            (Parameter.get_items keys as "param_{i}<suffix>")
  loaded     keys read by load()  (D["k"] / dictionary[i + "k"])
  restored   attributes (re)established on a loaded object: assigned in load() on the new
             object, or assigned by the constructor along the path load() takes
             (posterior / start / starting_positions are None: `if x is not None:` blocks
             are skipped; `hasattr(self, ...)` guards are false)
  fresh      attributes established by the constructor when it is called normally
  used       attributes read through `self.` by the methods a reloaded sampler must support
             (take_step / advance / run_for / read-outs / save / mode ...), following
             same-class calls through the class hierarchy

and emits coq/gen/C09/Fields_<Class>.v with these string lists and the lemmas

  load_complete  : incl_b used restored = true          (nothing a continuation needs is lost)
  save_ready     : incl_b used_by_save fresh_or_guarded = true   (a fresh object can be saved)
  keys_available : incl_b loaded_required saved_always = true   (load never reads a key save omits)

each proved by vm_compute.  Any AST shape it does not understand inside the
inspected methods raises TranslationError: a broken correspondence, never a
silent pass.
"""
from __future__ import annotations

import ast
from pathlib import Path


class TranslationError(Exception):
    pass


NONE_GUARDS = {"posterior", "start", "starting_positions"}

CLASSES = {
    "GibbsChain": ("inference/mcmc/gibbs.py", ["GibbsChain", "MetropolisChain", "MarkovChain"]),
    "PcaChain": ("inference/mcmc/pca.py", ["PcaChain", "MetropolisChain", "MarkovChain"]),
    "HamiltonianChain": ("inference/mcmc/hmc/__init__.py", ["HamiltonianChain", "MarkovChain"]),
    "EnsembleSampler": ("inference/mcmc/ensemble.py", ["EnsembleSampler", "MarkovChain"]),
}
MODULE_OF = {
    "GibbsChain": "inference/mcmc/gibbs.py", "MetropolisChain": "inference/mcmc/gibbs.py",
    "Parameter": "inference/mcmc/gibbs.py", "PcaChain": "inference/mcmc/pca.py",
    "HamiltonianChain": "inference/mcmc/hmc/__init__.py", "EnsembleSampler": "inference/mcmc/ensemble.py",
    "MarkovChain": "inference/mcmc/base.py", "EpsilonSelector": "inference/mcmc/hmc/epsilon.py",
}
ENTRY_METHODS = ["take_step", "advance", "run_for", "get_parameter", "get_probabilities", "get_sample",
                 "get_last", "replace_last", "mode", "save", "get_interval", "get_marginal",
                 # reached only through attributes holding bound methods
                 "standard_leapfrog", "bounded_leapfrog", "kinetic_energy", "finite_diff", "pass_through"]
# EnsembleSampler inherits run_for from MarkovChain but has no take_step (run_for is unusable on it,
# reloaded or not); it is not part of what a RELOADED ensemble must support beyond a fresh one
SKIP_ENTRY = {"EnsembleSampler": {"run_for"}}


def parse_classes(repo: Path):
    out = {}
    for cls, rel in MODULE_OF.items():
        tree = ast.parse((repo / rel).read_text())
        for node in tree.body:
            if isinstance(node, ast.ClassDef) and node.name == cls:
                out[cls] = node
    missing = set(MODULE_OF) - set(out)
    if missing:
        raise TranslationError(f"classes not found: {sorted(missing)}")
    return out


def methods_of(cdef):
    return {n.name: n for n in cdef.body if isinstance(n, (ast.FunctionDef,))}


def resolve(classes, mro, name):
    """Private names are mangled per class; look the method up along the MRO."""
    for c in mro:
        ms = methods_of(classes[c])
        if name in ms:
            return c, ms[name]
        mangled = name
        if name.startswith("_" + c + "__"):
            mangled = name[len("_" + c):]
            if mangled in ms:
                return c, ms[mangled]
    return None, None


def self_attr_loads(fn, selfname="self"):
    """Attributes read through self (Load context, or augmented assignment).
    A read of X inside `if hasattr(self, "X"):` is optional state and not counted;
    `self.X(...)` call targets are returned separately (methods, not state)."""
    reads, calls = set(), set()

    def hasattr_name(test):
        if isinstance(test, ast.Call) and isinstance(test.func, ast.Name) and test.func.id == "hasattr" \
                and len(test.args) == 2 and isinstance(test.args[0], ast.Name) and test.args[0].id == selfname \
                and isinstance(test.args[1], ast.Constant):
            return test.args[1].value
        return None

    def visit(node, guarded):
        if isinstance(node, ast.If):
            g = hasattr_name(node.test)
            visit(node.test, guarded)
            for st in node.body:
                visit(st, guarded | ({g} if g else set()))
            for st in node.orelse:
                visit(st, guarded)
            return
        if isinstance(node, ast.Call) and isinstance(node.func, ast.Attribute) \
                and isinstance(node.func.value, ast.Name) and node.func.value.id == selfname:
            calls.add(node.func.attr)
            for a in list(node.args) + [k.value for k in node.keywords]:
                visit(a, guarded)
            return
        if isinstance(node, ast.Attribute) and isinstance(node.value, ast.Name) and node.value.id == selfname:
            if isinstance(node.ctx, ast.Load) and node.attr not in guarded:
                reads.add(node.attr)
        if isinstance(node, ast.AugAssign) and isinstance(node.target, ast.Attribute) \
                and isinstance(node.target.value, ast.Name) and node.target.value.id == selfname:
            if node.target.attr not in guarded:
                reads.add(node.target.attr)
        for child in ast.iter_child_nodes(node):
            visit(child, guarded)
    visit(fn, set())
    return reads, calls


def self_attr_stores(stmts, selfname):
    out = set()
    for st in stmts:
        for node in ast.walk(st):
            if isinstance(node, (ast.Assign, ast.AnnAssign, ast.AugAssign)):
                targets = node.targets if isinstance(node, ast.Assign) else [node.target]
                for t in targets:
                    for sub in ast.walk(t):
                        if isinstance(sub, ast.Attribute) and isinstance(sub.value, ast.Name) \
                                and sub.value.id == selfname and isinstance(sub.ctx, ast.Store):
                            out.add(sub.attr)
    return out


def guard_kind(test):
    """Classify an `if` test in a constructor."""
    # x is not None
    if isinstance(test, ast.Compare) and len(test.ops) == 1 and isinstance(test.left, ast.Name) \
            and isinstance(test.comparators[0], ast.Constant) and test.comparators[0].value is None:
        if isinstance(test.ops[0], ast.IsNot):
            return ("notnone", test.left.id)
        if isinstance(test.ops[0], ast.Is):
            return ("isnone", test.left.id)
    if isinstance(test, ast.Call) and isinstance(test.func, ast.Name) and test.func.id == "hasattr":
        return ("hasattr", None)
    return ("other", None)


def ctor_stores(classes, mro, none_args: bool, depth=0):
    """Attributes assigned by __init__ (following super().__init__), on the path where the
    NONE_GUARDS arguments are None (none_args=True) or all given (False)."""
    cls, init = resolve(classes, mro, "__init__")
    if init is None:
        return set(), set()
    stores, guarded = set(), set()

    def walk(stmts, under_hasattr=False):
        for st in stmts:
            if isinstance(st, ast.If):
                kind, name = guard_kind(st.test)
                if kind == "notnone" and name in NONE_GUARDS:
                    walk(st.orelse if none_args else st.body, under_hasattr)
                elif kind == "isnone" and name in NONE_GUARDS:
                    walk(st.body if none_args else st.orelse, under_hasattr)
                elif kind == "hasattr":
                    # hasattr(self, X) is false on the load path iff X was not stored yet
                    if none_args:
                        walk(st.orelse, under_hasattr)
                    else:
                        walk(st.body, under_hasattr)
                else:
                    # both branches may run: an attribute counts only if BOTH assign it
                    a = self_attr_stores(st.body, "self")
                    b = self_attr_stores(st.orelse, "self") if st.orelse else set()
                    stores.update(a & b if st.orelse else set())
                    guarded.update(a | b)
            elif isinstance(st, ast.Expr) and isinstance(st.value, ast.Call) and \
                    isinstance(st.value.func, ast.Attribute) and st.value.func.attr == "__init__":
                idx = mro.index(cls)
                s2, g2 = ctor_stores(classes, mro[idx + 1:], none_args, depth + 1)
                stores.update(s2)
                guarded.update(g2)
            elif isinstance(st, (ast.For, ast.While, ast.With, ast.Try)):
                stores.update(self_attr_stores([st], "self"))
            else:
                stores.update(self_attr_stores([st], "self"))
    walk(init.body)
    return stores, guarded


def used_attrs(classes, mro, entry_methods):
    """self.X state reads in the entry methods and everything they call on self.
    Returns (state attributes, unresolved method calls)."""
    seen, todo, reads, unresolved = set(), list(entry_methods), set(), set()
    all_method_names = set()
    for c in mro:
        all_method_names |= set(methods_of(classes[c]))
    while todo:
        name = todo.pop()
        cls, fn = resolve(classes, mro, name)
        if fn is None or (cls, fn.name) in seen:
            continue
        seen.add((cls, fn.name))
        r, calls = self_attr_loads(fn)
        for a in calls:
            c2, f2 = resolve(classes, mro, a)
            if f2 is None and a.startswith("__"):
                c2, f2 = resolve(classes, mro, "_" + cls + a)
            if f2 is not None:
                todo.append(f2.name if not a.startswith("__") else "_" + c2 + a)
            else:
                # a callable stored in an attribute (process_proposal, run_leapfrog, grad, posterior)
                # is state; a name that is nowhere assigned is an unresolved method
                reads.add(a)
        reads |= r
    state = {a for a in reads if a not in all_method_names}
    return state


def dict_keys_of_save(fn):
    """Keys written by save(): dict literals assigned / merged / updated, D["k"] = v.
    Returns (always, conditional)."""
    always, cond = set(), set()

    def keys_of_dict(d, into):
        for k in d.keys:
            if isinstance(k, ast.Constant) and isinstance(k.value, str):
                into.add(k.value)
            elif isinstance(k, ast.JoinedStr):
                # f"{i}suffix"
                suffix = "".join(v.value for v in k.values if isinstance(v, ast.Constant))
                into.add("param_{i}" + suffix)
            else:
                raise TranslationError(f"save(): unsupported dict key {ast.dump(k)}")

    def walk(stmts, into):
        for st in stmts:
            if isinstance(st, ast.If):
                walk(st.body, cond)
                walk(st.orelse, cond)
                continue
            if isinstance(st, ast.For):
                walk(st.body, into)
                continue
            for node in ast.walk(st):
                if isinstance(node, ast.Dict):
                    keys_of_dict(node, into)
                if isinstance(node, ast.Assign):
                    for t in node.targets:
                        if isinstance(t, ast.Subscript) and isinstance(t.slice, ast.Constant):
                            into.add(t.slice.value)
    walk(fn.body, always)
    return always, cond


def keys_read_by_load(fn, dictnames=("D", "dictionary")):
    """Keys read as D["k"] (required) and keys tested with `"k" in D` / in a list
    comprehension guard (optional)."""
    required, optional = set(), set()

    def sub_key(node):
        s = node.slice
        if isinstance(s, ast.Constant) and isinstance(s.value, str):
            return s.value
        if isinstance(s, ast.BinOp) and isinstance(s.op, ast.Add) and isinstance(s.right, ast.Constant):
            return "param_{i}" + s.right.value
        return None

    def walk(stmts, under_if):
        for st in stmts:
            if isinstance(st, ast.If):
                for node in ast.walk(st.test):
                    if isinstance(node, ast.Constant) and isinstance(node.value, str):
                        optional.add(node.value)
                    if isinstance(node, ast.List):
                        for e in node.elts:
                            if isinstance(e, ast.Constant):
                                optional.add(e.value)
                walk(st.body, True)
                walk(st.orelse, True)
                continue
            for node in ast.walk(st):
                if isinstance(node, ast.Subscript) and isinstance(node.value, ast.Name) \
                        and node.value.id in dictnames:
                    k = sub_key(node)
                    if k is None:
                        # D[name][i, :]-style second-level subscripts have a Subscript value, not a Name
                        raise TranslationError(f"load(): unsupported key expression {ast.dump(node.slice)}")
                    (optional if under_if else required).add(k)
    walk(fn.body, False)
    return required, optional - required


def object_stores_in_load(fn):
    """Attributes assigned on the object load() creates (its local name is inferred
    from `x = cls(...)`)."""
    obj = None
    for node in ast.walk(fn):
        if isinstance(node, ast.Assign) and isinstance(node.value, ast.Call) and \
                isinstance(node.value.func, ast.Name) and node.value.func.id == "cls":
            obj = node.targets[0].id
    if obj is None:
        raise TranslationError("load(): no `x = cls(...)` found")
    return obj, self_attr_stores(fn.body, obj)


def analyse(repo: Path):
    classes = parse_classes(repo)
    result = {}
    for cls, (rel, mro) in CLASSES.items():
        c_save, save = resolve(classes, mro, "save")
        c_load, load = resolve(classes, mro, "load")
        if save is None or load is None:
            raise TranslationError(f"{cls}: save/load not found")
        always, cond = dict_keys_of_save(save)
        extra_used = set()
        if any(isinstance(n, ast.Attribute) and n.attr == "get_items" for n in ast.walk(save)):
            if cls in ("GibbsChain", "PcaChain"):
                pk, _ = dict_keys_of_save(methods_of(classes["Parameter"])["get_items"])
                always |= pk
            else:   # EpsilonSelector.get_items returns __dict__
                es_init = methods_of(classes["EpsilonSelector"])["__init__"]
                always |= self_attr_stores(es_init.body, "self")
        required, optional = keys_read_by_load(load)
        if cls in ("GibbsChain", "PcaChain"):
            pr, po = keys_read_by_load(methods_of(classes["Parameter"])["load"])
            required |= pr
        if cls == "HamiltonianChain":
            er, eo = keys_read_by_load(methods_of(classes["EpsilonSelector"])["load_items"])
            required |= er
        obj, stored = object_stores_in_load(load)
        ctor_none, _ = ctor_stores(classes, mro, none_args=True)
        ctor_full, guarded_full = ctor_stores(classes, mro, none_args=False)
        used = used_attrs(classes, mro, [m for m in ENTRY_METHODS if m not in SKIP_ENTRY.get(cls, set())])
        used_save = used_attrs(classes, mro, ["save"])
        result[cls] = {
            "saved_always": sorted(always), "saved_conditional": sorted(cond),
            "loaded_required": sorted(required), "loaded_optional": sorted(optional),
            "restored": sorted(stored | ctor_none), "fresh": sorted(ctor_full | guarded_full),
            "used": sorted(used), "used_by_save": sorted(used_save),
        }
    return result


def coq_strings(xs):
    return "[" + "; ".join('"' + x.replace('"', '""') + '"' for x in xs) + "]"


def emit(result, outdir: Path):
    outdir.mkdir(parents=True, exist_ok=True)
    files = []
    for cls, r in result.items():
        p = outdir / f"Fields_{cls}.v"
        lines = ["From Coq Require Import String List Bool.",
                 "From IT Require Import Model.SaveLoad.",
                 "Import ListNotations.", "Open Scope string_scope.", ""]
        for k, v in r.items():
            lines.append(f"Definition {k} : list string := {coq_strings(v)}.")
        lines += ["",
                  "Definition missing_after_load := Eval vm_compute in (diff_b used restored).",
                  "Print missing_after_load.",
                  "Definition missing_for_save := Eval vm_compute in (diff_b used_by_save fresh).",
                  "Print missing_for_save.",
                  "Definition keys_not_saved := Eval vm_compute in (diff_b loaded_required (saved_always ++ saved_conditional)).",
                  "Print keys_not_saved.",
                  "Lemma load_complete : incl_b used restored = true. Proof. vm_compute. reflexivity. Qed.",
                  "Lemma save_ready : incl_b used_by_save fresh = true. Proof. vm_compute. reflexivity. Qed.",
                  "Lemma keys_available : incl_b loaded_required (saved_always ++ saved_conditional) = true. "
                  "Proof. vm_compute. reflexivity. Qed.", ""]
        p.write_text("\n".join(lines))
        files.append(p)
    return files


if __name__ == "__main__":
    import json
    import sys
    print(json.dumps(analyse(Path(sys.argv[1] if len(sys.argv) > 1 else "/repo")), indent=1))
