"""C20 -- conditional approximation evaluates and samples the true 1-D conditionals.

Theorems: coq/theories/Properties/C20.v (RealModel/Trapezium.v, Model/Conditional.v).

Tie to the code, on every run:
 (a) piecewise_linear_sample with `inference.approx.conditional.rng` replaced by a
     ScriptedRNG: the `p=` vector handed to choice() and the samples are compared INSIDE
     Coq with Model.Conditional (weights = cell masses / sum; sample inside the chosen
     cell; near-zero branch value) on dyadic grids (uniform and non-uniform) and dyadic
     tables; the sqrt branch of the transform by coq-interval goals on
     RealModel.Trapezium.pls_sample_full.
 (b) evaluate_conditional / get_conditionals with a recording dyadic log-density: the
     model must ask for exactly the recorded points in the recorded order and return
     exactly the observed grid (vm_compute, no tolerance); the returned densities satisfy
     p_i / p_j = exp(f_i - f_j) (interval goals) and integrate to one under the model of
     scipy's simpson (which is itself compared with scipy on random tables).
 (c) conditional_sample: samples inside the bounds [R].
Property oracle: exact cell masses of the interpolant (Fractions) against the
probabilities the implementation used; interpolant CDF at every sample against its u.

Scale clause ("all ascending grids and non-negative tables", "any scales"): every part is
repeated on tables / densities whose VALUES are tiny or huge -- un-normalised tables times
2^-70 .. 2^70 and 1e-20 .. 1e20, correctly normalised pdfs over grids in units 2^-66 .. 2^66,
log-densities with a constant offset (the posterior times a constant) and in coordinates of
large / small units -- so that any absolute floor or ceiling in the code engages.  Theorems:
coq/theories/Properties/C20Scale.v (Model/ConditionalScale.v).
"""
from __future__ import annotations

import json
import math
import warnings
from fractions import Fraction

import numpy as np

from lib import common as C
from lib import interval as I
from lib.scripted import ScriptedRNG
from concurrent.futures import ThreadPoolExecutor

PROP = "C20"
THEOREMS = ["C20_trapezium_inverse_cdf", "C20_trap_cdf_is_cdf", "C20_trap_cdf_injective",
            "C20_near_zero_branch_error", "C20_near_zero_range", "C20_cell_mass",
            "C20_sample_density", "C20_sample_in_cell_real", "C20_weights_are_masses",
            "C20_weights_sum_to_one", "C20_weights_refuted", "C20_delta_bound",
            "C20_sample_in_cell", "C20_normalised", "C20_grid_inside_bounds",
            "C20_search_points_in_bounds"]

SCALE_THEOREMS = ["C20_delta_scale_invariant", "C20_sample_value_scale_invariant",
                  "C20_sample_grid_scale_equivariant", "C20_sample_density_scale_invariant",
                  "C20_wrong_slope_wrong_quantile", "C20_weights_value_scale_invariant",
                  "C20_weights_grid_scale_invariant", "C20_deltas_value_scale_invariant",
                  "C20_cell_point_grid_scale_equivariant", "C20_absolute_floor_invisible_above",
                  "C20_absolute_floor_flattens_below", "C20_absolute_floor_refuted",
                  "C20_search_offset_invariant", "C20_normalised_scale_invariant",
                  "C20_unit_check_reduced_sound"]

HEADER = """From Coq Require Import List QArith.
From IT Require Import Model.Conditional Model.ConditionalScale.
Import ListNotations.
Open Scope Q_scope.
"""

PREAMBLE = """From Coq Require Import Reals.
From Interval Require Import Tactic.
From IT Require Import RealModel.Trapezium.
Open Scope R_scope.
"""

NZ_TOL = Fraction(1e-5)        # the double 1e-5 of conditional.py:82
BS_TOL = Fraction(0.05)        # the double 0.05 (binary_search tol)
RTOL = Fraction(1, 10 ** 12)


def mod():
    import inference.approx.conditional as m
    return m


def ql(xs):
    return C.clist([C.cq(v) for v in xs])


# ============================================================ (a) piecewise_linear_sample
def gen_grid(r, n, kind):
    if kind == "uniform":
        x0 = Fraction(r.randint(-64, 64), 8)
        h = Fraction(r.randint(1, 16), r.choice([1, 2, 4, 8]))
        return [x0 + i * h for i in range(n)]
    x = [Fraction(r.randint(-64, 64), 8)]
    for _ in range(n - 1):
        if kind == "geometric":
            x.append(x[-1] + (x[-1] - x[-2]) * 2 if len(x) > 1 else x[-1] + Fraction(1, 8))
        else:
            x.append(x[-1] + Fraction(r.randint(1, 40), r.choice([1, 2, 4, 8, 16])))
    return x


def gen_table(r, n, kind):
    if kind == "flat":
        return [Fraction(3, 2)] * n
    if kind == "flat_pairs":           # equal neighbours -> delta = 0 -> near-zero branch
        p = []
        while len(p) < n:
            v = Fraction(r.randint(1, 64), 16)
            p += [v, v]
        return p[:n]
    if kind == "tiny_slope":           # 0 < |delta| < 1e-5
        base = Fraction(r.randint(8, 32), 8)
        return [base + Fraction(r.randint(-3, 3), 1 << 24) for _ in range(n)]
    if kind == "zero_ends":            # delta = +-1 in the end cells
        p = [Fraction(r.randint(1, 64), 16) for _ in range(n)]
        p[0] = Fraction(0)
        p[-1] = Fraction(0)
        return p
    return [Fraction(r.randint(0, 96), 16) + Fraction(1, 16) for _ in range(n)]


def run_pls(x, p, ks, us):
    m = mod()
    rng = ScriptedRNG(0, tape=list(ks) + list(us))
    saved = m.rng
    m.rng = rng
    try:
        with warnings.catch_warnings():
            warnings.simplefilter("ignore")
            out = m.piecewise_linear_sample(np.array([float(v) for v in x]),
                                            np.array([float(v) for v in p]), len(ks))
        out = [float(v) for v in np.asarray(out, dtype=float)]
        err = None
    except Exception as e:
        out, err = None, repr(e)
    finally:
        m.rng = saved
    w = None
    for kind, v in rng.log:
        if kind == "choice_call":
            w = v["p"]
    return out, w, err, rng.log


def masses_oracle(x, p, w):
    """The property on the implementation: the probabilities used must be the masses of
    the piecewise-linear interpolant.  Exact in Fractions."""
    mass = [(p[i] + p[i + 1]) / 2 * (x[i + 1] - x[i]) for i in range(len(x) - 1)]
    tot = sum(mass)
    if w is None or len(w) != len(mass) or tot == 0:
        return "choice() was not called with a probability vector of the right length"
    for i, (mi, wi) in enumerate(zip(mass, w)):
        want = mi / tot
        if abs(wi - want) > Fraction(1, 10 ** 9) * max(want, Fraction(1, 10 ** 6)):
            return (f"cell {i}: probability used {float(wi):.12g} but the interpolant's mass "
                    f"on [{float(x[i])}, {float(x[i + 1])}] is {float(want):.12g} of the total")
    return None


def draws_oracle(x, p, ks, us, out, slack=Fraction(0)):
    """The property on the implementation, per draw: the sample lies in its cell and the CDF of
    the cell's linear density (the interpolant, whatever the absolute size of the table) at the
    sample is the uniform number it was drawn for.  Exact in Fractions; the tolerance 1e-6 is far
    above the 1e-10 of the near-zero branch (C20_near_zero_branch_error) and the rounding of the
    sqrt branch (<= 1e-11 for |delta| >= 1e-5)."""
    for k, u, o in zip(ks, us, out):
        o = C.frac(o)
        sl = slack * (abs(x[k]) + abs(x[k + 1]))
        if not (x[k] - sl <= o <= x[k + 1] + sl):
            return f"sample {float(o)!r} lies outside its cell [{float(x[k])!r}, {float(x[k + 1])!r}]"
        tot = p[k + 1] + p[k]
        if tot == 0:
            continue
        dlt = (p[k + 1] - p[k]) / tot
        t = (o - x[k]) / (x[k + 1] - x[k])
        cdf = (1 - dlt) * t + dlt * t * t
        if abs(cdf - u) > Fraction(1, 10 ** 6):
            return (f"sample {float(o)!r} in cell {k} (end densities {float(p[k])!r}, {float(p[k + 1])!r}) has "
                    f"interpolant-CDF {float(cdf):.9g} but was drawn for u = {float(u):.9g}")
    return None


POW2 = [34, 40, 44, 50, 57, 60, 64, 67, 70]        # 2^34 ~ 1.7e10 ... 2^70 ~ 1.2e21


def pick_pow(r):
    return r.choice([-1, 1]) * r.choice(POW2)


def rescale(r, x, p, mode):
    """Tables whose values are tiny or huge / grids in other units; weights and slopes are
    those of (x, p) itself (C20_weights_*_scale_invariant, C20_deltas_value_scale_invariant)."""
    if mode == "values":            # un-normalised table times 2^k (exact)
        k = pick_pow(r)
        return x, [v * Fraction(2) ** k for v in p], {"value_pow2": k}
    if mode == "decimal":           # un-normalised table times 1e-20 .. 1e20 (the nearest doubles)
        k = r.choice([-1, 1]) * r.randint(12, 20)
        return x, [C.frac(float(v * Fraction(10) ** k)) for v in p], {"value_pow10": k}
    if mode == "units":             # correctly normalised pdf over a variable in large / small units
        k = pick_pow(r)
        xs = [v * Fraction(2) ** k for v in x]
        mass = sum((p[i] + p[i + 1]) / 2 * (xs[i + 1] - xs[i]) for i in range(len(x) - 1))
        return xs, [C.frac(float(v / mass)) for v in p], {"grid_pow2": k, "normalised": True}
    kg, kv = pick_pow(r), pick_pow(r)   # both, independently
    return ([v * Fraction(2) ** kg for v in x], [v * Fraction(2) ** kv for v in p],
            {"grid_pow2": kg, "value_pow2": kv})


def pls_part(rep, tier, scaled=False):
    """scaled=False: the original order-one tables (stream "pls", unchanged);
    scaled=True: the same generators, then `rescale` (stream "pls-scale")."""
    r = C.rng_for(PROP, "pls-scale" if scaled else "pls")
    if scaled:
        n_cases = 70 if tier == "quick" else 400
    else:
        n_cases = 160 if tier == "quick" else 1500
    tag = "pls-scale" if scaled else "pls"
    cases, metas, goals = [], [], []
    for ci in range(n_cases):
        n = r.randint(3, 9)
        gk = r.choice(["uniform", "nonuniform", "nonuniform", "geometric"])
        tk = r.choice(["random", "random", "flat", "flat_pairs", "tiny_slope", "zero_ends"])
        x = gen_grid(r, n, gk)
        p = gen_table(r, n, tk)
        means = [(p[i] + p[i + 1]) / 2 for i in range(n - 1)]
        live = [i for i, mv in enumerate(means) if mv > 0]
        if not live:
            continue
        note = {}
        if scaled:
            sm = r.choice(["values", "values", "decimal", "units", "units", "both"])
            x, p, note = rescale(r, x, p, sm)
            note["mode"] = sm
            rep.count("pls-scale mode=" + sm)
            lg = math.log10(float(max(p)))
            rep.count("pls-scale log10(max table value) in " +
                      ("[-45,-20)" if lg < -20 else "[-20,-9)" if lg < -9 else "[-9,9)" if lg < 9
                       else "[9,20)" if lg < 20 else "[20,45)"))
        ns = r.randint(2, 6)
        ks = [r.choice(live) for _ in range(ns)]
        us = [Fraction(r.choice([0, 1, (1 << 16) - 1, r.randint(0, (1 << 16) - 1), r.randint(0, (1 << 16) - 1)]),
                       1 << 16) for _ in range(ns)]
        out, w, err, _ = run_pls(x, p, ks, us)
        meta = {"x": [str(v) for v in x], "p": [str(v) for v in p], "ks": ks, "us": [str(u) for u in us],
                "grid": gk, "table": tk, "out": out, "error": err,
                "weights": None if w is None else [float(v) for v in w]}
        if scaled:
            meta["scale"] = note
        metas.append(meta)
        rep.case((tag, meta["x"], meta["p"], ks, meta["us"]))
        rep.count(tag + " grid=" + gk)
        rep.count(tag + " table=" + tk)
        if err is None and (w is None or len(out) != ns or not all(map(math.isfinite, out))):
            err = meta["error"] = f"non-finite samples / no probability vector: samples = {out}"
        if err is not None:
            cases.append(None)
            continue
        draws = []
        for j, (k, u, o) in enumerate(zip(ks, us, out)):
            d = (p[k + 1] - p[k]) / (p[k + 1] + p[k])
            if scaled and abs(abs(d) - NZ_TOL) <= NZ_TOL * Fraction(1, 10 ** 9):
                rep.count(tag + " draw dropped (|delta| at the 1e-5 switch)")
                continue
            branch = "near_zero" if abs(d) < NZ_TOL else "full"
            rep.count(tag + " branch=" + branch)
            draws.append(f"({C.cnat(k)}, {C.cq(u)}, {C.cq(o)})")
            if branch == "full" and not (scaled and sum(1 for g in goals if g[0].startswith(f"s{len(metas) - 1}_"))
                                         >= (1 if tier == "quick" else 2)):
                # (one / two interval goals per rescaled case; draws_oracle still judges every draw)
                dx = x[k + 1] - x[k]
                tol = Fraction(1, 10 ** 9) * dx + Fraction(1, 10 ** 12) * abs(x[k])
                stmt = (f"Rabs (pls_sample_full {C.cR(x[k])} {C.cR(x[k + 1])} {C.cR(p[k])} {C.cR(p[k + 1])} "
                        f"{C.cR(u)} - {C.cR(o)}) <= {C.cR(tol)}")
                goals.append((f"{'s' if scaled else ''}{len(metas) - 1}_{j}", stmt,
                              "unfold pls_sample_full, cell_sample, cell_delta, trapezium_full. "
                              "interval with (i_prec 120)"))
        cases.append(f"({ql(x)}, {ql(p)}, {C.cq(RTOL)}, {ql(w)}, {C.cq(NZ_TOL)}, {C.clist(draws)})")
    return cases, metas, goals


# ============================================================ (b) evaluate_conditional
class Rec1D:
    """dyadic log-density of one variable; records every call"""

    def __init__(self, fn):
        self.fn, self.log, self.inexact = fn, [], 0

    def __call__(self, x):
        xq = C.frac(float(x))
        v = self.fn(xq)
        f = float(v)
        if Fraction(f) != v:
            self.inexact += 1
        self.log.append((xq, Fraction(f)))
        return f


def gen_func(r):
    kind = r.choice(["quad", "quad", "tent", "two", "flat_top"])
    m = Fraction(r.randint(-40, 40), 8)
    a = Fraction(r.choice([1, 2, 4, 8, 16, 64]), r.choice([1, 2, 4, 16]))
    if kind == "quad":
        return kind, (lambda x: -a * (x - m) * (x - m)), m
    if kind == "tent":
        return kind, (lambda x: -a * abs(x - m)), m
    if kind == "flat_top":
        return kind, (lambda x: -a * max(abs(x - m) - Fraction(1, 2), 0)), m
    m2 = m + Fraction(r.randint(8, 40), 8)
    c = Fraction(r.randint(1, 12), 2)
    return kind, (lambda x: max(-a * (x - m) * (x - m), -a * (x - m2) * (x - m2) - c)), m


OFFSETS_SMALL = [46, 64, 700, 1024]                    # log(1e20) ~ 46; exp(700) ~ 1e304
OFFSETS_LARGE = [46, 64, 700, 1024, 1 << 14, 1 << 20, 10 ** 6]
UNIT_POW2 = [20, 30, 40, 50, 60, 66]


def eval_part(rep, tier, scaled=False):
    """scaled=True: the log-density is func(x / 2^k) + c -- the coordinate in units of 2^-k
    (so the returned, correctly normalised density has values of order 2^-k) and the posterior
    multiplied by exp(c); grid and evaluation sequence are those of the model on the recorded
    values (C20_search_offset_invariant: the offset changes nothing but the mode value)."""
    m = mod()
    r = C.rng_for(PROP, "eval-scale" if scaled else "eval")
    if scaled:
        n_cases = 36 if tier == "quick" else 150
    else:
        n_cases = 60 if tier == "quick" else 500
    tag = "eval-scale" if scaled else "eval"
    pre = "s" if scaled else ""
    cases, metas, goals, ucases = [], [], [], []
    for ci in range(n_cases):
        kind, fn, mode = gen_func(r)
        npts = r.randint(4, 17)
        lo = Fraction(r.randint(-96, -8), 4)
        step = Fraction(r.choice([1, 2, 3, 4, 6, 8]), r.choice([1, 2, 4]))
        pts = [lo + i * step for i in range(npts)]
        if r.random() < 0.5 and pts[0] < mode < pts[-1] and mode not in pts:
            pts = sorted(pts + [mode])
        gs = r.choice([5, 9, 17, 33, 65, 6, 10, 16, 32, 64])      # odd and even (the library default, 64, is even)
        note = None
        if scaled:
            sm = r.choice(["offset", "units", "both"])
            kx = r.choice([-1, 1]) * r.choice(UNIT_POW2) if sm != "offset" else 0
            off = (r.choice([-1, 1]) * r.choice(OFFSETS_LARGE if kind in ("tent", "flat_top") else OFFSETS_SMALL)
                   if sm != "units" else 0)
            S, cq_ = Fraction(2) ** kx, Fraction(off)
            fn = (lambda x, _f=fn, _S=S, _c=cq_: _f(x / _S) + _c)
            pts = [v * S for v in pts]
            note = {"mode": sm, "coordinate_pow2": kx, "log_density_offset": off}
            rep.count("eval-scale mode=" + sm)
            rep.count(f"eval-scale offset={'0' if off == 0 else ('+' if off > 0 else '-') + ('<=1024' if abs(off) <= 1024 else '>1024')}")
        rec = Rec1D(fn)
        try:
            with warnings.catch_warnings():
                warnings.simplefilter("ignore")
                xg, pg = m.evaluate_conditional(rec, np.array([float(v) for v in pts]), grid_size=gs)
            err = None
        except Exception as e:
            xg = pg = None
            err = repr(e)
        meta = {"kind": kind, "points": [str(v) for v in pts], "grid_size": gs, "error": err,
                "table": [[str(a), str(b)] for a, b in rec.log],
                "grid": None if xg is None else [float(v) for v in xg],
                "dens": None if pg is None else [float(v) for v in pg]}
        if scaled:
            meta["scale"] = note
        metas.append(meta)
        rep.case((tag, kind, meta["points"], gs, note))
        rep.count(tag + " func=" + kind)
        rep.count(f"{tag} grid_size={gs}")
        if err is None and not (np.all(np.isfinite(pg)) and np.all(np.isfinite(xg))):
            err = meta["error"] = "non-finite grid or density returned"
        if err is None and scaled:
            rep.count("eval-scale log10(peak density) in " +
                      (lambda lg: "[-25,-9)" if lg < -9 else "[-9,-3)" if lg < -3 else "[-3,3)" if lg < 3
                       else "[3,9)" if lg < 9 else "[9,25)")(math.log10(max(float(v) for v in pg))))
        if err is None and scaled and rec.inexact:
            # the recorded values are not exact doubles, so the evaluation sequence is not compared; the
            # returned table must still integrate to one (scale-free, no exactness needed)
            ucases.append((len(metas) - 1, f"({C.cq(Fraction(1, 10 ** 10))}, {ql([C.frac(v) for v in xg])}, "
                           f"{ql([C.frac(v) for v in pg])})"))
        if err is not None or rec.inexact:
            cases.append(None if err is not None else "skip")
            if rec.inexact:
                rep.count(tag + " dropped (values not exact doubles)")
            continue
        tbl = C.clist([f"({C.cq(a)}, {C.cq(b)})" for a, b in rec.log])
        if gs % 2 == 0:
            # an even linspace is not exact in double precision: the grid / evaluation sequence is only
            # compared for the odd sizes; the normalisation of the returned table (below) for all
            cases.append("skip")
            rep.count(tag + " grid comparison skipped (even grid_size, inexact linspace)")
        else:
            cases.append(f"({C.cq(BS_TOL)}, {ql(pts)}, {C.cnat(gs)}, {tbl}, {ql([C.frac(v) for v in xg])})")
        ucases.append((len(metas) - 1, f"({C.cq(Fraction(1, 10 ** 10))}, {ql([C.frac(v) for v in xg])}, "
                       f"{ql([C.frac(v) for v in pg])})"))
        # densities are proportional to exp(func): compare a few entries with the largest one
        vals = [b for _, b in rec.log[-gs:]]
        jm = max(range(gs), key=lambda i: vals[i])
        for i in sorted(set([0, gs // 3, gs // 2, gs - 1])):
            if i == jm or vals[jm] - vals[i] > 30:
                continue
            oj, oi = C.frac(pg[jm]), C.frac(pg[i])
            stmt = (f"Rabs (exp ({C.cR(vals[i])} - {C.cR(vals[jm])}) * {C.cR(oj)} - {C.cR(oi)}) "
                    f"<= {C.cR(Fraction(1, 10 ** 10) * oj)}")
            goals.append((f"e{pre}{len(metas) - 1}_{i}", stmt, "interval with (i_prec 100)"))
    return cases, metas, goals, ucases


def cond_part(rep, tier, scaled=False):
    """get_conditionals on dyadic multi-variable log-densities (bounds width 15 * 2^k so the
    16 search points are exact), grid_size 2^k + 1.
    scaled=True: variable i is measured in units of 2^-k_i (bounds, conditioning point and the
    posterior's argument scaled together) and the log-posterior carries a constant offset."""
    m = mod()
    r = C.rng_for(PROP, "cond-scale" if scaled else "cond")
    if scaled:
        n_cases = 8 if tier == "quick" else 30
    else:
        n_cases = 12 if tier == "quick" else 80
    tag = "cond-scale" if scaled else "cond"
    cases, metas, rbad, cucases = [], [], [], []
    for ci in range(n_cases):
        d = r.randint(1, 3)
        a = [Fraction(r.choice([1, 2, 4, 8]), r.choice([1, 2, 4])) for _ in range(d)]
        mu = [Fraction(r.randint(-24, 24), 8) for _ in range(d)]
        cc = {}
        if d > 1 and r.random() < 0.6:
            cc[(0, 1)] = Fraction(r.choice([-1, 1]), r.choice([2, 4]))
        bounds, cpt = [], []
        for i in range(d):
            w = 15 * Fraction(r.choice([1, 2, 4]), r.choice([1, 2, 4]))
            lo = mu[i] - w * Fraction(r.randint(2, 6), 8)
            lo = Fraction(math.floor(lo * 8), 8)
            bounds.append((lo, lo + w))
            kind = r.choice(["mode", "on_search_point", "inside"])
            if kind == "mode":
                c = min(max(mu[i], lo), lo + w)
            elif kind == "on_search_point":
                c = lo + w / 15 * r.randint(0, 15)
            else:
                c = lo + w * Fraction(r.randint(1, 63), 64)
            cpt.append(c)
        S = [Fraction(1)] * d
        off = Fraction(0)
        if scaled:
            S = [Fraction(2) ** (r.choice([-1, 1]) * r.choice(UNIT_POW2)) if r.random() < 0.8 else Fraction(1)
                 for _ in range(d)]
            off = Fraction(r.choice([0, -1, 1]) * r.choice(OFFSETS_SMALL))
            if all(v == 1 for v in S) and off == 0:
                off = Fraction(-46)
            bounds = [(lo * S[i], hi * S[i]) for i, (lo, hi) in enumerate(bounds)]
            cpt = [c * S[i] for i, c in enumerate(cpt)]
        log = []
        inexact = [0]
        active = [None]       # variable being scanned, observed through Conditional.__call__

        def post(theta, _log=log, _S=S, _off=off):
            th = [C.frac(float(t)) for t in theta]
            un = [th[i] / _S[i] for i in range(d)]
            v = sum(-a[i] * (un[i] - mu[i]) ** 2 for i in range(d)) + _off
            for (i, j), cij in cc.items():
                v -= cij * un[i] * un[j]
            f = float(v)
            if Fraction(f) != v:
                inexact[0] += 1
            _log.append((th, Fraction(f), active[0]))
            return f
        gs = r.choice([9, 17, 33])
        orig_call = getattr(getattr(m, "Conditional", None), "__call__", None)
        if orig_call is not None:
            def rec_call(self, x, _o=orig_call):
                active[0] = getattr(self, "variable_index", None)
                return _o(self, x)
            m.Conditional.__call__ = rec_call
        try:
            with warnings.catch_warnings():
                warnings.simplefilter("ignore")
                axes, prob = m.get_conditionals(post, [(float(lo), float(hi)) for lo, hi in bounds],
                                                np.array([float(c) for c in cpt]), grid_size=gs)
            err = None
        except Exception as e:
            axes = prob = None
            err = repr(e)
        finally:
            if orig_call is not None:
                m.Conditional.__call__ = orig_call
        meta = {"d": d, "a": [str(v) for v in a], "mu": [str(v) for v in mu],
                "corr": {f"{i},{j}": str(v) for (i, j), v in cc.items()},
                "bounds": [[str(lo), str(hi)] for lo, hi in bounds], "cpt": [str(c) for c in cpt],
                "grid_size": gs, "error": err}
        if scaled:
            meta["scale"] = {"unit_of_variable": [str(v) for v in S], "log_posterior_offset": str(off)}
            rep.count("cond-scale offset " + ("0" if off == 0 else "+" if off > 0 else "-"))
            for v in S:
                rep.count("cond-scale unit " + ("1" if v == 1 else "large" if v > 1 else "small"))
        metas.append(meta)
        rep.case((tag, meta["a"], meta["mu"], meta["bounds"], meta["cpt"], gs, meta.get("scale")))
        rep.count(f"{tag} d={d}")
        if err is None and not (np.all(np.isfinite(axes)) and np.all(np.isfinite(prob))):
            err = meta["error"] = "non-finite axes or densities returned"
        if err is not None:
            cases.append([None])
            continue
        for i in range(d):      # every returned conditional integrates to one (needs no exactness)
            cucases.append((len(metas) - 1, f"({C.cq(Fraction(1, 10 ** 10))}, {ql([C.frac(v) for v in axes[:, i]])}, "
                            f"{ql([C.frac(v) for v in prob[:, i]])})"))
        if inexact[0]:
            rep.count(tag + " dropped (values not exact doubles)")
            cases.append([])
            continue
        # split the evaluation log per variable: variable i's calls differ from cpt only in coord i
        per = [[] for _ in range(d)]
        cur = 0
        for th, v, act in log:
            diff = [i for i in range(d) if th[i] != cpt[i]]
            if act is not None and not diff and act > cur:
                cur = act            # an evaluation exactly at the conditioning point opens variable `act`
            if len(diff) > 1:
                rbad.append((len(metas) - 1, "a posterior evaluation differs from the conditioning point "
                             "in more than one coordinate"))
                break
            if len(diff) == 1 and diff[0] != cur:
                if diff[0] < cur:
                    rbad.append((len(metas) - 1, "evaluations are not grouped by variable"))
                    break
                cur = diff[0]
            per[cur].append((th[cur], v))
            # an evaluation AT the conditioning point belongs to the current variable
            if len(per[cur]) == 0:
                pass
        # the switch heuristics above cannot see a variable whose every call equals cpt; d <= 3
        # and 16 distinct search points make that impossible.
        sub = []
        for i in range(d):
            lo, hi = bounds[i]
            if not all(float(lo) <= v <= float(hi) for v in axes[:, i]):
                rbad.append((len(metas) - 1, f"grid of variable {i} leaves the bounds"))
            tbl = C.clist([f"({C.cq(x)}, {C.cq(v)})" for x, v in per[i]])
            sub.append(f"({C.cq(BS_TOL)}, {C.cq(lo)}, {C.cq(hi)}, {C.cq(cpt[i])}, 16%nat, {C.cnat(gs)}, "
                       f"{tbl}, {ql([C.frac(v) for v in axes[:, i]])})")
        cases.append(sub)
    return cases, metas, rbad, cucases


def simpson_part(rep, tier):
    from scipy.integrate import simpson
    r = C.rng_for(PROP, "simpson")
    n = 40 if tier == "quick" else 300
    out = []
    for _ in range(n):
        N = r.choice([2, 3, 4, 5, 6, 7, 8, 9, 16, 17, 64, 65])
        gk = r.choice(["uniform", "nonuniform"])
        x = gen_grid(r, N, gk)
        y = [Fraction(r.randint(0, 256), 32) for _ in range(N)]
        v = float(simpson(np.array([float(t) for t in y]), x=np.array([float(t) for t in x])))
        rep.count(f"simpson N={'even' if N % 2 == 0 else 'odd'} {gk}")
        rep.case(("simpson", [str(t) for t in x], [str(t) for t in y]))
        out.append(f"({C.cq(Fraction(1, 10 ** 11))}, {ql(x)}, {ql(y)}, {C.cq(v)})")
    return out


def sample_part(rep, tier, scaled=False):
    """conditional_sample stays inside the bounds [R] (default grid_size = 64); every call of
    piecewise_linear_sample it makes is recorded (table, cells, uniforms, samples) and judged by
    the two oracles; a few draws per variable become interval goals on pls_sample_full.
    scaled=True: parameters measured in units of 1e-19 .. 1e19 (so the conditionals, correctly
    normalised, have values of 1e19 .. 1e-19) and a constant offset of the log-posterior."""
    m = mod()
    r = C.rng_for(PROP, "sample-scale" if scaled else "sample")
    bad, goals = [], []
    if scaled:
        n = 8 if tier == "quick" else 20
    else:
        n = 6 if tier == "quick" else 40
    tag = "sample-scale" if scaled else "sample"
    for ci in range(n):
        d = r.randint(1, 3)
        mu = [r.uniform(-2, 2) for _ in range(d)]
        sg = [r.choice([0.05, 0.3, 1.0, 4.0]) for _ in range(d)]
        bounds = []
        for i in range(d):
            lo = mu[i] - r.choice([0.2, 1.0, 6.0]) * sg[i]
            hi = mu[i] + r.choice([0.2, 1.0, 6.0]) * sg[i]
            bounds.append((lo, hi))
        off = 0.0
        unit = [1.0] * d
        if scaled:
            unit = [10.0 ** (r.choice([-1, 1]) * r.randint(6, 19)) for _ in range(d)]
            off = float(r.choice([0, -1, 1]) * r.choice([46, 700, 12345]))
            mu = [mu[i] * unit[i] for i in range(d)]
            sg = [sg[i] * unit[i] for i in range(d)]
            bounds = [(lo * unit[i], hi * unit[i]) for i, (lo, hi) in enumerate(bounds)]
            for u_ in unit:
                rep.count("sample-scale unit " + ("large (1e6..1e19)" if u_ > 1 else "small (1e-19..1e-6)"))
        cpt = np.array([min(max(mu[i], bounds[i][0]), bounds[i][1]) for i in range(d)])

        def post(theta, _mu=mu, _sg=sg, _off=off):
            return float(-0.5 * sum(((theta[i] - _mu[i]) / _sg[i]) ** 2 for i in range(d))) + _off
        sd = C.seed() * 1000 + ci + (500 if scaled else 0)
        rng = ScriptedRNG(sd)
        saved, saved_pls = m.rng, m.piecewise_linear_sample
        calls = []

        def rec_pls(x, p, nsmp, _o=saved_pls, _rng=rng, _calls=calls):
            i0 = len(_rng.log)
            out = _o(x, p, nsmp)
            _calls.append((np.array(x, dtype=float), np.array(p, dtype=float), np.array(out, dtype=float),
                           _rng.log[i0:]))
            return out
        m.rng = rng
        m.piecewise_linear_sample = rec_pls
        try:
            with warnings.catch_warnings():
                warnings.simplefilter("ignore")
                s = m.conditional_sample(post, bounds, cpt, 40)
            err = None
        except Exception as e:
            s, err = None, repr(e)
        finally:
            m.rng = saved
            m.piecewise_linear_sample = saved_pls
        meta = {"mu": mu, "sigma": sg, "bounds": bounds, "cpt": cpt.tolist(), "seed": sd,
                "log_posterior_offset": off}
        rep.case((tag, mu, sg, bounds, off))
        rep.count(f"{tag} d={d}")
        if err is not None:
            bad.append((meta, f"conditional_sample failed: {err}"))
            continue
        if s.shape != (40, d) or not np.all(np.isfinite(s)):
            bad.append((meta, f"conditional_sample returned shape {s.shape} / non-finite values"))
            continue
        for i in range(d):
            if not (np.all(s[:, i] >= bounds[i][0]) and np.all(s[:, i] <= bounds[i][1])):
                bad.append((meta, f"samples of variable {i} leave the bounds {bounds[i]}"))
        for kind, v in rng.log:
            if kind == "choice_call" and v["p"] is not None:
                tot = sum(v["p"])
                if abs(tot - 1) > Fraction(1, 10 ** 9) or min(v["p"]) < 0:
                    bad.append((meta, "cell probabilities do not form a distribution"))
        # the recorded piecewise_linear_sample calls: masses and within-cell distribution
        for vi, (xa, pa, oa, lg) in enumerate(calls):
            if not (np.all(np.isfinite(xa)) and np.all(np.isfinite(pa)) and np.all(np.isfinite(oa))):
                continue
            xq, pq = [C.frac(v) for v in xa], [C.frac(v) for v in pa]
            w = next((v["p"] for kd, v in lg if kd == "choice_call"), None)
            ks = [v for kd, v in lg if kd == "choice"]
            us = [v for kd, v in lg if kd == "uniform"]
            rep.count(tag + " log10(peak of the sampled table) in " +
                      (lambda q: "[-25,-9)" if q < -9 else "[-9,-3)" if q < -3 else "[-3,3)" if q < 3
                       else "[3,9)" if q < 9 else "[9,25)")(math.log10(max(float(pa.max()), 1e-300))))
            sub = {"variable": vi, "x": [float(v) for v in xa], "p": [float(v) for v in pa],
                   "ks": ks, "us": [str(u) for u in us], "out": [float(v) for v in oa]}
            if len(ks) != len(oa) or len(us) != len(oa):
                bad.append((dict(meta, pls_call=sub), "piecewise_linear_sample did not draw one cell and one "
                            "uniform number per sample"))
                continue
            why = masses_oracle(xq, pq, w) or draws_oracle(xq, pq, ks, us, [float(v) for v in oa],
                                                          slack=Fraction(1, 10 ** 12))
            if why:
                bad.append((dict(meta, pls_call=sub), f"conditional_sample, variable {vi}: " + why))
                continue
            # tie to RealModel.Trapezium: one draw of the sqrt branch per case (quick) / per variable
            if tier == "quick" and vi != ci % d:
                continue
            picked = 0
            for j, (k, u, o) in enumerate(zip(ks, us, oa)):
                tot = pq[k + 1] + pq[k]
                if picked >= 1 or tot == 0:
                    break
                dl = (pq[k + 1] - pq[k]) / tot
                if abs(dl) < 2 * NZ_TOL:
                    continue
                dx = xq[k + 1] - xq[k]
                tol = Fraction(1, 10 ** 9) * dx + Fraction(1, 10 ** 12) * abs(xq[k])
                stmt = (f"Rabs (pls_sample_full {C.cR(xq[k])} {C.cR(xq[k + 1])} {C.cR(pq[k])} {C.cR(pq[k + 1])} "
                        f"{C.cR(u)} - {C.cR(C.frac(float(o)))}) <= {C.cR(tol)}")
                goals.append((f"c{'s' if scaled else ''}{ci}_{vi}_{j}", stmt,
                              "unfold pls_sample_full, cell_sample, cell_delta, trapezium_full. "
                              "interval with (i_prec 120)"))
                picked += 1
    return bad, goals


# ============================================================ driver
def run_files(name, typ, chk, items, ch=40):
    """items: list of (meta index, coq text).  Pure (no Report calls: it runs in a worker thread).
    Returns (failing meta indices, number of files evaluated, [(file name, log)] of files that did not)."""
    files, index = [], []
    for i in range(0, len(items), ch):
        chunk = items[i:i + ch]
        body = f"Definition cases : list {typ} :=\n " + C.clist([t for _, t in chunk], ";\n ") + "."
        files.append(C.write_case_file(PROP, f"{name}_{i // ch}", HEADER, body, [f"failing {chk} cases 0"]))
        index.append([k for k, _ in chunk])
    failing, n_ok, brk = [], 0, []
    for p, idx, (ok, res, log) in zip(files, index, C.run_case_files(files, jobs=8)):
        if not ok or 0 not in res:
            brk.append((p.name, log))
            continue
        n_ok += 1
        failing += [idx[j] for j in res[0]]
    return failing, n_ok, brk


def run(rep: C.Report, tier: str) -> int:
    import time
    t_start = time.time()
    C.clean_gen(PROP)
    C.prove_and_audit(rep, PROP, THEOREMS)      # (builds first unless VERIF_SKIP_BUILD)
    apool = ThreadPoolExecutor(max_workers=1)
    f_audit = apool.submit(C.coq_audit, PROP + "_scale", SCALE_THEOREMS, "IT.Properties.C20Scale")
    t_audit = time.time()


    # ---- run the implementation on all inputs first (Python), then all Coq work concurrently
    # (a) order-one tables, then the same generators on tiny / huge tables and grids in other units
    pcases, pmetas, pgoals = pls_part(rep, tier)
    pcases2, pmetas2, pgoals2 = pls_part(rep, tier, scaled=True)
    # (b)
    ecases, emetas, egoals, ucases = eval_part(rep, tier)
    ecases2, emetas2, egoals2, ucases2 = eval_part(rep, tier, scaled=True)
    ccases, cmetas, crbad, cucases = cond_part(rep, tier)
    ccases2, cmetas2, crbad2, cucases2 = cond_part(rep, tier, scaled=True)
    scases = simpson_part(rep, tier)
    # (c)
    sbad, sgoals = sample_part(rep, tier)
    sbad2, sgoals2 = sample_part(rep, tier, scaled=True)
    t_impl = time.time()

    pool = ThreadPoolExecutor(max_workers=12)

    keys = {}

    def files(name, typ, chk, items, key, ch):
        f = pool.submit(run_files, name, typ, chk, items, ch)
        keys[f] = key
        return f

    def done(f):
        failing, n_ok, brk = f.result()
        rep.obligation(True, n_ok)
        for fname, log in brk:
            rep.obligation(False)
            rep.violation(keys[f] + "-run", f"case file {fname} did not evaluate",
                          {"theorem_or_correspondence": fname, "log": log}, False)
        return failing

    def live(cs):
        return [(i, c) for i, c in enumerate(cs) if c not in (None, "skip")]

    def flat(cs):
        return [(i, t) for i, sub in enumerate(cs) for t in sub if t is not None]
    f_p = files("pls", "pls_case", "check_pls_case", live(pcases), "C20/pls", 40)
    f_p2 = files("plsscale", "pls_case", "check_pls_case", live(pcases2), "C20/pls", 30)
    f_e = files("eval", "eval_case", "check_eval_case", live(ecases), "C20/eval", 15)
    f_e2 = files("evalscale", "eval_case", "check_eval_case", live(ecases2), "C20/eval", 10)
    # check_unit_case_red = check_unit_case (C20_unit_check_reduced_sound), evaluated with reduced fractions
    f_u = files("unit", "unit_case", "check_unit_case_red", ucases, "C20/unit", 12)
    f_u2 = files("unitscale", "unit_case", "check_unit_case_red", ucases2, "C20/unit", 10)
    f_c = files("cond", "cond_case", "check_cond_case", flat(ccases), "C20/cond", 8)
    f_c2 = files("condscale", "cond_case", "check_cond_case", flat(ccases2), "C20/cond", 6)
    f_cu = files("condunit", "unit_case", "check_unit_case_red", cucases + [(-1 - i, t) for i, t in cucases2],
                 "C20/unit", 12)
    f_s = files("simpson", "simpson_case", "check_simpson_case", list(enumerate(scases)), "C20/simpson", 40)
    all_goals = pgoals + pgoals2 + egoals + egoals2 + sgoals + sgoals2
    f_g = pool.submit(I.check_goals, PROP, "goals", all_goals, preamble=PREAMBLE, chunk=60, jobs=10, timeout=600)

    pfail = set(done(f_p)) | {i for i, c in enumerate(pcases) if c is None}
    pfail2 = set(done(f_p2)) | {i for i, c in enumerate(pcases2) if c is None}
    efail = set(done(f_e)) | {i for i, c in enumerate(ecases) if c is None}
    efail2 = set(done(f_e2)) | {i for i, c in enumerate(ecases2) if c is None}
    ufail, ufail2 = set(done(f_u)), set(done(f_u2))
    cfail = set(done(f_c)) | {i for i, sub in enumerate(ccases) if sub == [None]}
    cfail2 = set(done(f_c2)) | {i for i, sub in enumerate(ccases2) if sub == [None]}
    cufail_all = set(done(f_cu))
    cufail = {i for i in cufail_all if i >= 0}
    cufail2 = {-1 - i for i in cufail_all if i < 0}
    sfail = done(f_s)
    failed, broken = f_g.result()
    pool.shutdown()
    try:      # the scale clause: Properties/C20Scale.v (audited while the cases ran)
        info = f_audit.result()
        rep.obligation(True, len(SCALE_THEOREMS))
        rep.coverage["scale_audit"] = info
    except C.ProofFailure as e:
        rep.obligation(False, len(SCALE_THEOREMS))
        rep.violation("C20/proof", f"proof obligation no longer checks: {e.what}",
                      {"theorem_or_correspondence": e.what, "log": e.log[-1500:]}, False)
    apool.shutdown()
    t_coq = time.time()
    rep.coverage["phase_s"] = {"audit": round(t_audit - t_start, 1), "implementation": round(t_impl - t_audit, 1),
                               "coq_cases_and_goals": round(t_coq - t_impl, 1)}
    ng = len(all_goals)
    rep.obligation(True, ng - len(failed))
    rep.obligation(False, len(failed))
    rep.coverage["interval_goals"] = ng
    rep.coverage["traces_validated_against_impl"] = (len(live(pcases)) + len(live(pcases2)) + len(live(ecases)) +
                                                     len(live(ecases2)) + sum(len(s) for s in ccases) +
                                                     sum(len(s) for s in ccases2))
    for b in broken:
        rep.obligation(False)
        rep.violation("C20/goal-file", "a file of interval goals could not be processed",
                      {"theorem_or_correspondence": "coq/gen/C20/goals_*.v", "log": b}, False)
    gfail_p, gfail_p2, gfail_e, gfail_e2, gfail_c = {}, {}, set(), set(), []
    for gid, log in failed:
        if gid.startswith("es"):
            gfail_e2.add(int(gid[2:].split("_")[0]))
        elif gid.startswith("e"):
            gfail_e.add(int(gid[1:].split("_")[0]))
        elif gid.startswith("c"):
            gfail_c.append(gid)
        elif gid.startswith("s"):
            gfail_p2.setdefault(int(gid[1:].split("_")[0]), []).append(int(gid.split("_")[1]))
        else:
            gfail_p.setdefault(int(gid.split("_")[0]), []).append(int(gid.split("_")[1]))

    # ---- classify: piecewise_linear_sample
    def classify_pls(pfail_, gfail_, metas_):
        shown = 0
        for i in sorted(pfail_ | set(gfail_)):
            if shown >= 3:
                break
            mt = metas_[i]
            x = [Fraction(v) for v in mt["x"]]
            p = [Fraction(v) for v in mt["p"]]
            if mt["error"] is not None:
                rep.violation("C20/pls-exception", f"piecewise_linear_sample failed on a valid table: {mt['error']}",
                              {"case": {"kind": "pls", "meta": mt}}, True)
                shown += 1
                continue
            w = [C.frac(v) for v in mt["weights"]] if mt["weights"] else None
            why = masses_oracle(x, p, w)
            outside = [o for o, k in zip(mt["out"], mt["ks"]) if not (float(x[k]) <= o <= float(x[k + 1]))]
            if why is None and outside:
                why = f"sample {outside[0]} lies outside its cell"
            if why is None:
                # the quantile property itself: the CDF of the cell's linear density at the sample must be u
                why = draws_oracle(x, p, mt["ks"], [Fraction(u) for u in mt["us"]], mt["out"])
            if why:
                rep.violation("C20/piecewise_linear_sample", why, {"case": {"kind": "pls", "meta": mt}}, True)
            else:
                rep.violation("C20/pls-correspondence",
                              "piecewise_linear_sample and Model.Conditional disagree, but the property was not "
                              "seen to fail on this input",
                              {"theorem_or_correspondence": "Model.Conditional.check_pls_case / pls_sample_full",
                               "case": {"kind": "pls", "meta": mt}}, False)
            shown += 1
        # second opinion on every case [oracle]: masses and the CDF of every draw
        if not (pfail_ | set(gfail_)):
            for i, mt in enumerate(metas_):
                if mt["error"] is None and mt["weights"]:
                    x, p = [Fraction(v) for v in mt["x"]], [Fraction(v) for v in mt["p"]]
                    why = (masses_oracle(x, p, [C.frac(v) for v in mt["weights"]]) or
                           draws_oracle(x, p, mt["ks"], [Fraction(u) for u in mt["us"]], mt["out"]))
                    if why:
                        rep.violation("C20/piecewise_linear_sample", why, {"case": {"kind": "pls", "meta": mt}}, True)
                        break
    classify_pls(pfail, gfail_p, pmetas)
    classify_pls(pfail2, gfail_p2, pmetas2)

    # ---- classify: evaluate_conditional
    def classify_eval(fail_, metas_):
        for i in sorted(fail_)[:3]:
            mt = metas_[i]
            why = None
            if mt["error"] is not None:
                why = f"evaluate_conditional failed: {mt['error']}"
            else:
                pts = [Fraction(v) for v in mt["points"]]
                g = mt["grid"]
                if not all(float(pts[0]) <= v <= float(pts[-1]) for v in g):
                    why = "grid leaves the range of the search points"
                else:
                    from scipy.integrate import simpson
                    tot = float(simpson(np.array(mt["dens"]), x=np.array(g)))
                    if abs(tot - 1) > 1e-9:
                        why = f"returned conditional integrates to {tot!r}, not 1"
                    else:
                        tb = {Fraction(a): Fraction(b) for a, b in mt["table"]}
                        vals = [float(tb[C.frac(v)]) if C.frac(v) in tb else None for v in g]
                        if None not in vals:
                            jm = int(np.argmax(vals))
                            for k_, (v, dn) in enumerate(zip(vals, mt["dens"])):
                                want = math.exp(v - vals[jm]) * mt["dens"][jm]
                                if abs(dn - want) > 1e-8 * mt["dens"][jm]:
                                    why = (f"density at grid point {k_} is {dn!r} but exp(func) scaled to the "
                                           f"peak gives {want!r}")
                                    break
            if why:
                rep.violation("C20/evaluate_conditional", why, {"case": {"kind": "eval", "meta": mt}}, True)
            else:
                rep.violation("C20/eval-correspondence",
                              "evaluate_conditional and Model.Conditional.evaluate_search disagree (evaluation "
                              "sequence or grid), but the property was not seen to fail on this input",
                              {"theorem_or_correspondence": "Model.Conditional.check_eval_case",
                               "case": {"kind": "eval", "meta": mt}}, False)
    classify_eval(efail | ufail | gfail_e, emetas)
    classify_eval(efail2 | ufail2 | gfail_e2, emetas2)

    def classify_cond(cfail_, cufail_, crbad_, metas_):
        for i in sorted(cfail_)[:2]:
            rep.violation("C20/cond-correspondence",
                          "get_conditionals and Model.Conditional disagree on the search points / evaluation "
                          "sequence / grid" + (": " + str(metas_[i]["error"]) if metas_[i]["error"] else ""),
                          ({"case": {"kind": "cond", "meta": metas_[i]}} if metas_[i]["error"] else
                           {"theorem_or_correspondence": "Model.Conditional.check_cond_case",
                            "case": {"kind": "cond", "meta": metas_[i]}}), bool(metas_[i]["error"]))
        for i in sorted(cufail_)[:2]:
            rep.violation("C20/get_conditionals", "a returned conditional does not integrate to one under the "
                          "quadrature the code uses (Model.Conditional.simpson, 1e-10)",
                          {"case": {"kind": "cond", "meta": metas_[i]}}, True)
        for i, what in crbad_[:2]:
            rep.violation("C20/get_conditionals", what, {"case": {"kind": "cond", "meta": metas_[i]}}, True)
    classify_cond(cfail, cufail, crbad, cmetas)
    classify_cond(cfail2, cufail2, crbad2, cmetas2)
    if sfail:
        rep.violation("C20/simpson-model",
                      "Model.Conditional.simpson differs from scipy.integrate.simpson on a table",
                      {"theorem_or_correspondence": "Model.Conditional.check_simpson_case",
                       "case_text": scases[sfail[0]][:1500]}, False)
    # ---- (c)
    for meta, what in sbad[:2] + sbad2[:2]:
        rep.violation("C20/conditional_sample", what, {"case": {"kind": "sample", "meta": meta}}, True)
    for gid in gfail_c[:2]:
        rep.violation("C20/sample-correspondence",
                      f"a sample of conditional_sample is not the value of RealModel.Trapezium.pls_sample_full on "
                      f"the recorded table, cell and uniform number (goal {gid}), but the two oracles accept it",
                      {"theorem_or_correspondence": f"coq/gen/C20/goals_*.v verif_goal_{gid}"}, False)

    if pmetas:
        rep.sample({k: pmetas[0][k] for k in ("x", "p", "ks", "us", "out", "weights")})
    if emetas:
        rep.sample({k: emetas[0][k] for k in ("kind", "points", "grid_size", "grid")})
    if pmetas2:
        rep.sample({k: pmetas2[0][k] for k in ("x", "p", "ks", "us", "out", "weights", "scale")})
    if emetas2:
        rep.sample({k: emetas2[0][k] for k in ("kind", "points", "grid_size", "scale")})
    rep.assumptions = [
        "numpy.random.Generator.choice(p=w) selects cell k with probability w_k and random() is uniform "
        "(the laws of NumPy's generator are not modelled; the scripted generator records what it is given)",
        "exp() of the grid values and scipy.integrate.simpson are tied by interval goals / by comparing the "
        "model's simpson with scipy's on tables; quadrature ACCURACY (Simpson vs the true integral) is not proved",
        "coverage of the region above the threshold for unimodal func is not proved (stretch item)",
        "inputs are dyadic so that the code's arithmetic on grids and tables is exact; divisions by "
        "non-dyadic sums use a 1e-12 relative tolerance inside Coq",
        "scale clause: tables times 2^+-34..70 / 1e+-12..20, grids and coordinates in units 2^+-20..70, "
        "log-density offsets up to +-1e6 (exact doubles) -- within the range of double precision, no "
        "underflow / overflow of the cell masses; subnormal tables are not exercised",
    ]
    ax = (rep.coverage.get("proof_audit") or {}).get("axioms_used", [])
    return rep.finish(
        level="proof",
        checker_cmd="make -C /verif/coq (coqc 8.16.1) + coqc on coq/gen/C20/*.v (vm_compute; coq-interval)",
        trusted_base=C.KERNEL_TB + ["coq-interval reflexive evaluator (sqrt / exp goals)",
                                    "axioms: " + (", ".join(ax) if ax else "none")],
        rule="piecewise_linear_sample on dyadic grids (uniform / non-uniform / geometric) x tables (random, "
             "flat, equal pairs, tiny slopes, zero ends) with scripted cells and uniforms incl. 0 and 1-2^-16; "
             "evaluate_conditional on quadratic / tent / flat-top / two-bump dyadic log-densities, 4..17 search "
             "points, grid sizes 5..65; get_conditionals on 1..3-variable (correlated) quadratics; simpson on "
             "tables with even and odd numbers of points; conditional_sample on Gaussians [R] with every "
             "piecewise_linear_sample call it makes judged by the mass / CDF oracles; ALL parts repeated on "
             "tiny / huge values: tables x 2^+-34..70 and x 1e+-12..20, normalised pdfs on grids in units "
             "2^+-34..70, log-densities + offset (+-46 .. +-1e6) in coordinates of units 2^+-20..66, "
             "conditional_sample in units 1e+-6..19")


def replay(path):
    d = json.load(open(path))
    rp = d["replay"]
    case = rp.get("case")
    if not case:
        print("replay names a broken theorem / correspondence:", rp.get("theorem_or_correspondence"))
        return 1
    mt = case["meta"]
    if case["kind"] == "pls":
        x = [Fraction(v) for v in mt["x"]]
        p = [Fraction(v) for v in mt["p"]]
        out, w, err, _ = run_pls(x, p, mt["ks"], [Fraction(u) for u in mt["us"]])
        print("samples:", out, "\nprobabilities used:", None if w is None else [float(v) for v in w], "\nerror:", err)
        us = [Fraction(u) for u in mt["us"]]
        why = (masses_oracle(x, p, w) or draws_oracle(x, p, mt["ks"], us, out)) if err is None else err
        print("property failure:", why)
        return 1 if why else 0
    if case["kind"] == "sample" and "pls_call" in mt:
        pc = mt["pls_call"]
        x, p = [C.frac(v) for v in pc["x"]], [C.frac(v) for v in pc["p"]]
        us = [Fraction(u) for u in pc["us"]]
        out, w, err, _ = run_pls(x, p, pc["ks"], us)
        print("samples:", out, "\nerror:", err)
        why = (masses_oracle(x, p, w) or draws_oracle(x, p, pc["ks"], us, out, Fraction(1, 10 ** 12))) \
            if err is None else err
        print("property failure:", why)
        return 1 if why else 0
    print(json.dumps(mt, indent=1)[:3000])
    return 1
