"""C20 -- conditional approximation evaluates and samples the true 1-D conditionals.

Theorems: coq/theories/Properties/C20.v (RealModel/Trapezium.v, Model/Conditional.v).

Tie to the code, on every run:
 (a) piecewise_linear_sample with `inference.approx.conditional.rng` replaced by a
     ScriptedRNG: the `p=` vector handed to choice() and the samples are compared INSIDE
     Coq with Model.Conditional (weights = cell masses / sum; sample inside the chosen
     cell; near-zero branch value) on dyadic grids (uniform and non-uniform) and dyadic
     tables; the sqrt branch of the transform by coq-interval goals on
     RealModel.Trapezium.pls_sample_full.
 (b) evaluate_conditional / get_conditionals with a recording dyadic log-density: the
     model must ask for exactly the recorded points in the recorded order and return
     exactly the observed grid (vm_compute, no tolerance); the returned densities satisfy
     p_i / p_j = exp(f_i - f_j) (interval goals) and integrate to one under the model of
     scipy's simpson (which is itself compared with scipy on random tables).
 (c) conditional_sample: samples inside the bounds [R].
Property oracle: exact cell masses of the interpolant (Fractions) against the
probabilities the implementation used.
"""
from __future__ import annotations

import json
import math
import warnings
from fractions import Fraction

import numpy as np

from lib import common as C
from lib import interval as I
from lib.scripted import ScriptedRNG

PROP = "C20"
THEOREMS = ["C20_trapezium_inverse_cdf", "C20_trap_cdf_is_cdf", "C20_trap_cdf_injective",
            "C20_near_zero_branch_error", "C20_near_zero_range", "C20_cell_mass",
            "C20_sample_density", "C20_sample_in_cell_real", "C20_weights_are_masses",
            "C20_weights_sum_to_one", "C20_weights_refuted", "C20_delta_bound",
            "C20_sample_in_cell", "C20_normalised", "C20_grid_inside_bounds",
            "C20_search_points_in_bounds"]

HEADER = """From Coq Require Import List QArith.
From IT Require Import Model.Conditional.
Import ListNotations.
Open Scope Q_scope.
"""

PREAMBLE = """From Coq Require Import Reals.
From Interval Require Import Tactic.
From IT Require Import RealModel.Trapezium.
Open Scope R_scope.
"""

NZ_TOL = Fraction(1e-5)        # the double 1e-5 of conditional.py:82
BS_TOL = Fraction(0.05)        # the double 0.05 (binary_search tol)
RTOL = Fraction(1, 10 ** 12)


def mod():
    import inference.approx.conditional as m
    return m


def ql(xs):
    return C.clist([C.cq(v) for v in xs])


# ============================================================ (a) piecewise_linear_sample
def gen_grid(r, n, kind):
    if kind == "uniform":
        x0 = Fraction(r.randint(-64, 64), 8)
        h = Fraction(r.randint(1, 16), r.choice([1, 2, 4, 8]))
        return [x0 + i * h for i in range(n)]
    x = [Fraction(r.randint(-64, 64), 8)]
    for _ in range(n - 1):
        if kind == "geometric":
            x.append(x[-1] + (x[-1] - x[-2]) * 2 if len(x) > 1 else x[-1] + Fraction(1, 8))
        else:
            x.append(x[-1] + Fraction(r.randint(1, 40), r.choice([1, 2, 4, 8, 16])))
    return x


def gen_table(r, n, kind):
    if kind == "flat":
        return [Fraction(3, 2)] * n
    if kind == "flat_pairs":           # equal neighbours -> delta = 0 -> near-zero branch
        p = []
        while len(p) < n:
            v = Fraction(r.randint(1, 64), 16)
            p += [v, v]
        return p[:n]
    if kind == "tiny_slope":           # 0 < |delta| < 1e-5
        base = Fraction(r.randint(8, 32), 8)
        return [base + Fraction(r.randint(-3, 3), 1 << 24) for _ in range(n)]
    if kind == "zero_ends":            # delta = +-1 in the end cells
        p = [Fraction(r.randint(1, 64), 16) for _ in range(n)]
        p[0] = Fraction(0)
        p[-1] = Fraction(0)
        return p
    return [Fraction(r.randint(0, 96), 16) + Fraction(1, 16) for _ in range(n)]


def run_pls(x, p, ks, us):
    m = mod()
    rng = ScriptedRNG(0, tape=list(ks) + list(us))
    saved = m.rng
    m.rng = rng
    try:
        with warnings.catch_warnings():
            warnings.simplefilter("ignore")
            out = m.piecewise_linear_sample(np.array([float(v) for v in x]),
                                            np.array([float(v) for v in p]), len(ks))
        out = [float(v) for v in np.asarray(out, dtype=float)]
        err = None
    except Exception as e:
        out, err = None, repr(e)
    finally:
        m.rng = saved
    w = None
    for kind, v in rng.log:
        if kind == "choice_call":
            w = v["p"]
    return out, w, err, rng.log


def masses_oracle(x, p, w):
    """The property on the implementation: the probabilities used must be the masses of
    the piecewise-linear interpolant.  Exact in Fractions."""
    mass = [(p[i] + p[i + 1]) / 2 * (x[i + 1] - x[i]) for i in range(len(x) - 1)]
    tot = sum(mass)
    if w is None or len(w) != len(mass) or tot == 0:
        return "choice() was not called with a probability vector of the right length"
    for i, (mi, wi) in enumerate(zip(mass, w)):
        want = mi / tot
        if abs(wi - want) > Fraction(1, 10 ** 9) * max(want, Fraction(1, 10 ** 6)):
            return (f"cell {i}: probability used {float(wi):.12g} but the interpolant's mass "
                    f"on [{float(x[i])}, {float(x[i + 1])}] is {float(want):.12g} of the total")
    return None


def pls_part(rep, tier):
    r = C.rng_for(PROP, "pls")
    n_cases = 160 if tier == "quick" else 1500
    cases, metas, goals = [], [], []
    for ci in range(n_cases):
        n = r.randint(3, 9)
        gk = r.choice(["uniform", "nonuniform", "nonuniform", "geometric"])
        tk = r.choice(["random", "random", "flat", "flat_pairs", "tiny_slope", "zero_ends"])
        x = gen_grid(r, n, gk)
        p = gen_table(r, n, tk)
        means = [(p[i] + p[i + 1]) / 2 for i in range(n - 1)]
        live = [i for i, mv in enumerate(means) if mv > 0]
        if not live:
            continue
        ns = r.randint(2, 6)
        ks = [r.choice(live) for _ in range(ns)]
        us = [Fraction(r.choice([0, 1, (1 << 16) - 1, r.randint(0, (1 << 16) - 1), r.randint(0, (1 << 16) - 1)]),
                       1 << 16) for _ in range(ns)]
        out, w, err, _ = run_pls(x, p, ks, us)
        meta = {"x": [str(v) for v in x], "p": [str(v) for v in p], "ks": ks, "us": [str(u) for u in us],
                "grid": gk, "table": tk, "out": out, "error": err,
                "weights": None if w is None else [float(v) for v in w]}
        metas.append(meta)
        rep.case(("pls", meta["x"], meta["p"], ks, meta["us"]))
        rep.count("pls grid=" + gk)
        rep.count("pls table=" + tk)
        if err is None and (w is None or len(out) != ns or not all(map(math.isfinite, out))):
            err = meta["error"] = f"non-finite samples / no probability vector: samples = {out}"
        if err is not None:
            cases.append(None)
            continue
        draws = []
        for j, (k, u, o) in enumerate(zip(ks, us, out)):
            d = (p[k + 1] - p[k]) / (p[k + 1] + p[k])
            branch = "near_zero" if abs(d) < NZ_TOL else "full"
            rep.count("pls branch=" + branch)
            draws.append(f"({C.cnat(k)}, {C.cq(u)}, {C.cq(o)})")
            if branch == "full":
                dx = x[k + 1] - x[k]
                tol = Fraction(1, 10 ** 9) * dx + Fraction(1, 10 ** 12) * abs(x[k])
                stmt = (f"Rabs (pls_sample_full {C.cR(x[k])} {C.cR(x[k + 1])} {C.cR(p[k])} {C.cR(p[k + 1])} "
                        f"{C.cR(u)} - {C.cR(o)}) <= {C.cR(tol)}")
                goals.append((f"{len(metas) - 1}_{j}", stmt,
                              "unfold pls_sample_full, cell_sample, cell_delta, trapezium_full. "
                              "interval with (i_prec 120)"))
        cases.append(f"({ql(x)}, {ql(p)}, {C.cq(RTOL)}, {ql(w)}, {C.cq(NZ_TOL)}, {C.clist(draws)})")
    return cases, metas, goals


# ============================================================ (b) evaluate_conditional
class Rec1D:
    """dyadic log-density of one variable; records every call"""

    def __init__(self, fn):
        self.fn, self.log, self.inexact = fn, [], 0

    def __call__(self, x):
        xq = C.frac(float(x))
        v = self.fn(xq)
        f = float(v)
        if Fraction(f) != v:
            self.inexact += 1
        self.log.append((xq, Fraction(f)))
        return f


def gen_func(r):
    kind = r.choice(["quad", "quad", "tent", "two", "flat_top"])
    m = Fraction(r.randint(-40, 40), 8)
    a = Fraction(r.choice([1, 2, 4, 8, 16, 64]), r.choice([1, 2, 4, 16]))
    if kind == "quad":
        return kind, (lambda x: -a * (x - m) * (x - m)), m
    if kind == "tent":
        return kind, (lambda x: -a * abs(x - m)), m
    if kind == "flat_top":
        return kind, (lambda x: -a * max(abs(x - m) - Fraction(1, 2), 0)), m
    m2 = m + Fraction(r.randint(8, 40), 8)
    c = Fraction(r.randint(1, 12), 2)
    return kind, (lambda x: max(-a * (x - m) * (x - m), -a * (x - m2) * (x - m2) - c)), m


def eval_part(rep, tier):
    m = mod()
    r = C.rng_for(PROP, "eval")
    n_cases = 60 if tier == "quick" else 500
    cases, metas, goals, ucases = [], [], [], []
    for ci in range(n_cases):
        kind, fn, mode = gen_func(r)
        npts = r.randint(4, 17)
        lo = Fraction(r.randint(-96, -8), 4)
        step = Fraction(r.choice([1, 2, 3, 4, 6, 8]), r.choice([1, 2, 4]))
        pts = [lo + i * step for i in range(npts)]
        if r.random() < 0.5 and pts[0] < mode < pts[-1] and mode not in pts:
            pts = sorted(pts + [mode])
        gs = r.choice([5, 9, 17, 33, 65, 6, 10, 16, 32, 64])      # odd and even (the library default, 64, is even)
        rec = Rec1D(fn)
        try:
            with warnings.catch_warnings():
                warnings.simplefilter("ignore")
                xg, pg = m.evaluate_conditional(rec, np.array([float(v) for v in pts]), grid_size=gs)
            err = None
        except Exception as e:
            xg = pg = None
            err = repr(e)
        meta = {"kind": kind, "points": [str(v) for v in pts], "grid_size": gs, "error": err,
                "table": [[str(a), str(b)] for a, b in rec.log],
                "grid": None if xg is None else [float(v) for v in xg],
                "dens": None if pg is None else [float(v) for v in pg]}
        metas.append(meta)
        rep.case(("eval", kind, meta["points"], gs))
        rep.count("eval func=" + kind)
        rep.count(f"eval grid_size={gs}")
        if err is None and not (np.all(np.isfinite(pg)) and np.all(np.isfinite(xg))):
            err = meta["error"] = "non-finite grid or density returned"
        if err is not None or rec.inexact:
            cases.append(None if err is not None else "skip")
            if rec.inexact:
                rep.count("eval dropped (values not exact doubles)")
            continue
        tbl = C.clist([f"({C.cq(a)}, {C.cq(b)})" for a, b in rec.log])
        if gs % 2 == 0:
            # an even linspace is not exact in double precision: the grid / evaluation sequence is only
            # compared for the odd sizes; the normalisation of the returned table (below) for all
            cases.append("skip")
            rep.count("eval grid comparison skipped (even grid_size, inexact linspace)")
        else:
            cases.append(f"({C.cq(BS_TOL)}, {ql(pts)}, {C.cnat(gs)}, {tbl}, {ql([C.frac(v) for v in xg])})")
        ucases.append((len(metas) - 1, f"({C.cq(Fraction(1, 10 ** 10))}, {ql([C.frac(v) for v in xg])}, "
                       f"{ql([C.frac(v) for v in pg])})"))
        # densities are proportional to exp(func): compare a few entries with the largest one
        vals = [b for _, b in rec.log[-gs:]]
        jm = max(range(gs), key=lambda i: vals[i])
        for i in sorted(set([0, gs // 3, gs // 2, gs - 1])):
            if i == jm or vals[jm] - vals[i] > 30:
                continue
            oj, oi = C.frac(pg[jm]), C.frac(pg[i])
            stmt = (f"Rabs (exp ({C.cR(vals[i])} - {C.cR(vals[jm])}) * {C.cR(oj)} - {C.cR(oi)}) "
                    f"<= {C.cR(Fraction(1, 10 ** 10) * oj)}")
            goals.append((f"e{len(metas) - 1}_{i}", stmt, "interval with (i_prec 100)"))
    return cases, metas, goals, ucases


def cond_part(rep, tier):
    """get_conditionals on dyadic multi-variable log-densities (bounds width 15 * 2^k so the
    16 search points are exact), grid_size 2^k + 1."""
    m = mod()
    r = C.rng_for(PROP, "cond")
    n_cases = 12 if tier == "quick" else 80
    cases, metas, rbad = [], [], []
    for ci in range(n_cases):
        d = r.randint(1, 3)
        a = [Fraction(r.choice([1, 2, 4, 8]), r.choice([1, 2, 4])) for _ in range(d)]
        mu = [Fraction(r.randint(-24, 24), 8) for _ in range(d)]
        cc = {}
        if d > 1 and r.random() < 0.6:
            cc[(0, 1)] = Fraction(r.choice([-1, 1]), r.choice([2, 4]))
        bounds, cpt = [], []
        for i in range(d):
            w = 15 * Fraction(r.choice([1, 2, 4]), r.choice([1, 2, 4]))
            lo = mu[i] - w * Fraction(r.randint(2, 6), 8)
            lo = Fraction(math.floor(lo * 8), 8)
            bounds.append((lo, lo + w))
            kind = r.choice(["mode", "on_search_point", "inside"])
            if kind == "mode":
                c = min(max(mu[i], lo), lo + w)
            elif kind == "on_search_point":
                c = lo + w / 15 * r.randint(0, 15)
            else:
                c = lo + w * Fraction(r.randint(1, 63), 64)
            cpt.append(c)
        log = []
        inexact = [0]
        active = [None]       # variable being scanned, observed through Conditional.__call__

        def post(theta, _log=log):
            th = [C.frac(float(t)) for t in theta]
            v = sum(-a[i] * (th[i] - mu[i]) ** 2 for i in range(d))
            for (i, j), cij in cc.items():
                v -= cij * th[i] * th[j]
            f = float(v)
            if Fraction(f) != v:
                inexact[0] += 1
            _log.append((th, Fraction(f), active[0]))
            return f
        gs = r.choice([9, 17, 33])
        orig_call = getattr(getattr(m, "Conditional", None), "__call__", None)
        if orig_call is not None:
            def rec_call(self, x, _o=orig_call):
                active[0] = getattr(self, "variable_index", None)
                return _o(self, x)
            m.Conditional.__call__ = rec_call
        try:
            with warnings.catch_warnings():
                warnings.simplefilter("ignore")
                axes, prob = m.get_conditionals(post, [(float(lo), float(hi)) for lo, hi in bounds],
                                                np.array([float(c) for c in cpt]), grid_size=gs)
            err = None
        except Exception as e:
            axes = prob = None
            err = repr(e)
        finally:
            if orig_call is not None:
                m.Conditional.__call__ = orig_call
        meta = {"d": d, "a": [str(v) for v in a], "mu": [str(v) for v in mu],
                "corr": {f"{i},{j}": str(v) for (i, j), v in cc.items()},
                "bounds": [[str(lo), str(hi)] for lo, hi in bounds], "cpt": [str(c) for c in cpt],
                "grid_size": gs, "error": err}
        metas.append(meta)
        rep.case(("cond", meta["a"], meta["mu"], meta["bounds"], meta["cpt"], gs))
        rep.count(f"cond d={d}")
        if err is None and not (np.all(np.isfinite(axes)) and np.all(np.isfinite(prob))):
            err = meta["error"] = "non-finite axes or densities returned"
        if err is not None:
            cases.append([None])
            continue
        if inexact[0]:
            rep.count("cond dropped (values not exact doubles)")
            cases.append([])
            continue
        # split the evaluation log per variable: variable i's calls differ from cpt only in coord i
        per = [[] for _ in range(d)]
        cur = 0
        for th, v, act in log:
            diff = [i for i in range(d) if th[i] != cpt[i]]
            if act is not None and not diff and act > cur:
                cur = act            # an evaluation exactly at the conditioning point opens variable `act`
            if len(diff) > 1:
                rbad.append((len(metas) - 1, "a posterior evaluation differs from the conditioning point "
                             "in more than one coordinate"))
                break
            if len(diff) == 1 and diff[0] != cur:
                if diff[0] < cur:
                    rbad.append((len(metas) - 1, "evaluations are not grouped by variable"))
                    break
                cur = diff[0]
            per[cur].append((th[cur], v))
            # an evaluation AT the conditioning point belongs to the current variable
            if len(per[cur]) == 0:
                pass
        # the switch heuristics above cannot see a variable whose every call equals cpt; d <= 3
        # and 16 distinct search points make that impossible.
        sub = []
        for i in range(d):
            lo, hi = bounds[i]
            if not all(float(lo) <= v <= float(hi) for v in axes[:, i]):
                rbad.append((len(metas) - 1, f"grid of variable {i} leaves the bounds"))
            tbl = C.clist([f"({C.cq(x)}, {C.cq(v)})" for x, v in per[i]])
            sub.append(f"({C.cq(BS_TOL)}, {C.cq(lo)}, {C.cq(hi)}, {C.cq(cpt[i])}, 16%nat, {C.cnat(gs)}, "
                       f"{tbl}, {ql([C.frac(v) for v in axes[:, i]])})")
        cases.append(sub)
    return cases, metas, rbad


def simpson_part(rep, tier):
    from scipy.integrate import simpson
    r = C.rng_for(PROP, "simpson")
    n = 40 if tier == "quick" else 300
    out = []
    for _ in range(n):
        N = r.choice([2, 3, 4, 5, 6, 7, 8, 9, 16, 17, 64, 65])
        gk = r.choice(["uniform", "nonuniform"])
        x = gen_grid(r, N, gk)
        y = [Fraction(r.randint(0, 256), 32) for _ in range(N)]
        v = float(simpson(np.array([float(t) for t in y]), x=np.array([float(t) for t in x])))
        rep.count(f"simpson N={'even' if N % 2 == 0 else 'odd'} {gk}")
        rep.case(("simpson", [str(t) for t in x], [str(t) for t in y]))
        out.append(f"({C.cq(Fraction(1, 10 ** 11))}, {ql(x)}, {ql(y)}, {C.cq(v)})")
    return out


def sample_part(rep, tier):
    """conditional_sample stays inside the bounds [R] (default grid_size = 64)."""
    m = mod()
    r = C.rng_for(PROP, "sample")
    bad = []
    n = 6 if tier == "quick" else 40
    for ci in range(n):
        d = r.randint(1, 3)
        mu = [r.uniform(-2, 2) for _ in range(d)]
        sg = [r.choice([0.05, 0.3, 1.0, 4.0]) for _ in range(d)]
        bounds = []
        for i in range(d):
            lo = mu[i] - r.choice([0.2, 1.0, 6.0]) * sg[i]
            hi = mu[i] + r.choice([0.2, 1.0, 6.0]) * sg[i]
            bounds.append((lo, hi))
        cpt = np.array([min(max(mu[i], bounds[i][0]), bounds[i][1]) for i in range(d)])

        def post(theta):
            return float(-0.5 * sum(((theta[i] - mu[i]) / sg[i]) ** 2 for i in range(d)))
        rng = ScriptedRNG(C.seed() * 1000 + ci)
        saved = m.rng
        m.rng = rng
        try:
            with warnings.catch_warnings():
                warnings.simplefilter("ignore")
                s = m.conditional_sample(post, bounds, cpt, 40)
            err = None
        except Exception as e:
            s, err = None, repr(e)
        finally:
            m.rng = saved
        meta = {"mu": mu, "sigma": sg, "bounds": bounds, "cpt": cpt.tolist(), "seed": C.seed() * 1000 + ci}
        rep.case(("sample", mu, sg, bounds))
        rep.count(f"sample d={d}")
        if err is not None:
            bad.append((meta, f"conditional_sample failed: {err}"))
            continue
        if s.shape != (40, d) or not np.all(np.isfinite(s)):
            bad.append((meta, f"conditional_sample returned shape {s.shape} / non-finite values"))
            continue
        for i in range(d):
            if not (np.all(s[:, i] >= bounds[i][0]) and np.all(s[:, i] <= bounds[i][1])):
                bad.append((meta, f"samples of variable {i} leave the bounds {bounds[i]}"))
        for kind, v in rng.log:
            if kind == "choice_call" and v["p"] is not None:
                tot = sum(v["p"])
                if abs(tot - 1) > Fraction(1, 10 ** 9) or min(v["p"]) < 0:
                    bad.append((meta, "cell probabilities do not form a distribution"))
    return bad


# ============================================================ driver
def run_files(rep, name, typ, chk, items, key, what, metas_of, ch=40):
    """items: list of (meta index, coq text).  Returns set of failing meta indices."""
    files, index = [], []
    for i in range(0, len(items), ch):
        chunk = items[i:i + ch]
        body = f"Definition cases : list {typ} :=\n " + C.clist([t for _, t in chunk], ";\n ") + "."
        files.append(C.write_case_file(PROP, f"{name}_{i // ch}", HEADER, body, [f"failing {chk} cases 0"]))
        index.append([k for k, _ in chunk])
    failing = []
    for p, idx, (ok, res, log) in zip(files, index, C.run_case_files(files, jobs=8)):
        if not ok or 0 not in res:
            rep.obligation(False)
            rep.violation(key + "-run", f"case file {p.name} did not evaluate",
                          {"theorem_or_correspondence": p.name, "log": log}, False)
            continue
        rep.obligation(True)
        failing += [idx[j] for j in res[0]]
    return failing


def run(rep: C.Report, tier: str) -> int:
    C.clean_gen(PROP)
    C.prove_and_audit(rep, PROP, THEOREMS)

    # ---- (a)
    pcases, pmetas, pgoals = pls_part(rep, tier)
    items = [(i, c) for i, c in enumerate(pcases) if c is not None]
    pfail = set(run_files(rep, "pls", "pls_case", "check_pls_case", items, "C20/pls", "", pmetas))
    pfail |= {i for i, c in enumerate(pcases) if c is None}
    # ---- (b)
    ecases, emetas, egoals, ucases = eval_part(rep, tier)
    items = [(i, c) for i, c in enumerate(ecases) if c not in (None, "skip")]
    efail = set(run_files(rep, "eval", "eval_case", "check_eval_case", items, "C20/eval", "", emetas, ch=15))
    efail |= {i for i, c in enumerate(ecases) if c is None}
    ufail = set(run_files(rep, "unit", "unit_case", "check_unit_case", ucases, "C20/unit", "", emetas, ch=30))
    ccases, cmetas, crbad = cond_part(rep, tier)
    items = [(i, t) for i, sub in enumerate(ccases) for t in sub if t is not None]
    cfail = set(run_files(rep, "cond", "cond_case", "check_cond_case", items, "C20/cond", "", cmetas, ch=8))
    cfail |= {i for i, sub in enumerate(ccases) if sub == [None]}
    scases = simpson_part(rep, tier)
    sfail = run_files(rep, "simpson", "simpson_case", "check_simpson_case",
                      list(enumerate(scases)), "C20/simpson", "", None, ch=40)
    # ---- interval goals
    failed, broken = I.check_goals(PROP, "goals", pgoals + egoals, preamble=PREAMBLE, chunk=60, jobs=8,
                                   timeout=600)
    ng = len(pgoals) + len(egoals)
    rep.obligation(True, ng - len(failed))
    rep.obligation(False, len(failed))
    rep.coverage["interval_goals"] = ng
    rep.coverage["traces_validated_against_impl"] = (len([c for c in pcases if c]) +
                                                     len([c for c in ecases if c not in (None, "skip")]) +
                                                     sum(len(s) for s in ccases))
    for b in broken:
        rep.obligation(False)
        rep.violation("C20/goal-file", "a file of interval goals could not be processed",
                      {"theorem_or_correspondence": "coq/gen/C20/goals_*.v", "log": b}, False)
    gfail_p, gfail_e = {}, set()
    for gid, log in failed:
        if gid.startswith("e"):
            gfail_e.add(int(gid[1:].split("_")[0]))
        else:
            gfail_p.setdefault(int(gid.split("_")[0]), []).append(int(gid.split("_")[1]))

    # ---- classify: piecewise_linear_sample
    shown = 0
    for i in sorted(pfail | set(gfail_p)):
        if shown >= 3:
            break
        mt = pmetas[i]
        x = [Fraction(v) for v in mt["x"]]
        p = [Fraction(v) for v in mt["p"]]
        if mt["error"] is not None:
            rep.violation("C20/pls-exception", f"piecewise_linear_sample failed on a valid table: {mt['error']}",
                          {"case": {"kind": "pls", "meta": mt}}, True)
            shown += 1
            continue
        w = [C.frac(v) for v in mt["weights"]] if mt["weights"] else None
        why = masses_oracle(x, p, w)
        outside = [o for o, k in zip(mt["out"], mt["ks"]) if not (float(x[k]) <= o <= float(x[k + 1]))]
        if why is None and outside:
            why = f"sample {outside[0]} lies outside its cell"
        if why is None and i in gfail_p:
            # the quantile property itself: the CDF of the cell's linear density at the sample must be u
            for j in gfail_p[i]:
                k, u, o = mt["ks"][j], Fraction(mt["us"][j]), C.frac(mt["out"][j])
                dlt = (p[k + 1] - p[k]) / (p[k + 1] + p[k])
                t = (o - x[k]) / (x[k + 1] - x[k])
                cdf = (1 - dlt) * t + dlt * t * t
                if abs(cdf - u) > Fraction(1, 10 ** 6):
                    why = (f"sample {float(o)!r} in cell {k} has interpolant-CDF {float(cdf):.9g} "
                           f"but was drawn for u = {float(u):.9g}")
                    break
        if why:
            rep.violation("C20/piecewise_linear_sample", why, {"case": {"kind": "pls", "meta": mt}}, True)
        else:
            rep.violation("C20/pls-correspondence",
                          "piecewise_linear_sample and Model.Conditional disagree, but the property was not "
                          "seen to fail on this input",
                          {"theorem_or_correspondence": "Model.Conditional.check_pls_case / pls_sample_full",
                           "case": {"kind": "pls", "meta": mt}}, False)
        shown += 1
    # second opinion on every case [oracle]
    if not pfail:
        for i, mt in enumerate(pmetas):
            if mt["error"] is None and mt["weights"]:
                why = masses_oracle([Fraction(v) for v in mt["x"]], [Fraction(v) for v in mt["p"]],
                                    [C.frac(v) for v in mt["weights"]])
                if why:
                    rep.violation("C20/piecewise_linear_sample", why, {"case": {"kind": "pls", "meta": mt}}, True)
                    break

    # ---- classify: evaluate_conditional
    for i in sorted(efail | ufail | gfail_e)[:3]:
        mt = emetas[i]
        why = None
        if mt["error"] is not None:
            why = f"evaluate_conditional failed: {mt['error']}"
        else:
            pts = [Fraction(v) for v in mt["points"]]
            g = mt["grid"]
            if not all(float(pts[0]) <= v <= float(pts[-1]) for v in g):
                why = "grid leaves the range of the search points"
            else:
                from scipy.integrate import simpson
                tot = float(simpson(np.array(mt["dens"]), x=np.array(g)))
                if abs(tot - 1) > 1e-9:
                    why = f"returned conditional integrates to {tot!r}, not 1"
                else:
                    tb = {Fraction(a): Fraction(b) for a, b in mt["table"]}
                    vals = [float(tb[C.frac(v)]) if C.frac(v) in tb else None for v in g]
                    if None not in vals:
                        jm = int(np.argmax(vals))
                        for k_, (v, dn) in enumerate(zip(vals, mt["dens"])):
                            want = math.exp(v - vals[jm]) * mt["dens"][jm]
                            if abs(dn - want) > 1e-8 * mt["dens"][jm]:
                                why = (f"density at grid point {k_} is {dn!r} but exp(func) scaled to the "
                                       f"peak gives {want!r}")
                                break
        if why:
            rep.violation("C20/evaluate_conditional", why, {"case": {"kind": "eval", "meta": mt}}, True)
        else:
            rep.violation("C20/eval-correspondence",
                          "evaluate_conditional and Model.Conditional.evaluate_search disagree (evaluation "
                          "sequence or grid), but the property was not seen to fail on this input",
                          {"theorem_or_correspondence": "Model.Conditional.check_eval_case",
                           "case": {"kind": "eval", "meta": mt}}, False)
    for i in sorted(cfail)[:2]:
        rep.violation("C20/cond-correspondence",
                      "get_conditionals and Model.Conditional disagree on the search points / evaluation "
                      "sequence / grid" + (": " + str(cmetas[i]["error"]) if cmetas[i]["error"] else ""),
                      ({"case": {"kind": "cond", "meta": cmetas[i]}} if cmetas[i]["error"] else
                       {"theorem_or_correspondence": "Model.Conditional.check_cond_case",
                        "case": {"kind": "cond", "meta": cmetas[i]}}), bool(cmetas[i]["error"]))
    for i, what in crbad[:2]:
        rep.violation("C20/get_conditionals", what, {"case": {"kind": "cond", "meta": cmetas[i]}}, True)
    if sfail:
        rep.violation("C20/simpson-model",
                      "Model.Conditional.simpson differs from scipy.integrate.simpson on a table",
                      {"theorem_or_correspondence": "Model.Conditional.check_simpson_case",
                       "case_text": scases[sfail[0]][:1500]}, False)
    # ---- (c)
    for meta, what in sample_part(rep, tier)[:2]:
        rep.violation("C20/conditional_sample", what, {"case": {"kind": "sample", "meta": meta}}, True)

    if pmetas:
        rep.sample({k: pmetas[0][k] for k in ("x", "p", "ks", "us", "out", "weights")})
    if emetas:
        rep.sample({k: emetas[0][k] for k in ("kind", "points", "grid_size", "grid")})
    rep.assumptions = [
        "numpy.random.Generator.choice(p=w) selects cell k with probability w_k and random() is uniform "
        "(the laws of NumPy's generator are not modelled; the scripted generator records what it is given)",
        "exp() of the grid values and scipy.integrate.simpson are tied by interval goals / by comparing the "
        "model's simpson with scipy's on tables; quadrature ACCURACY (Simpson vs the true integral) is not proved",
        "coverage of the region above the threshold for unimodal func is not proved (stretch item)",
        "inputs are dyadic so that the code's arithmetic on grids and tables is exact; divisions by "
        "non-dyadic sums use a 1e-12 relative tolerance inside Coq",
    ]
    ax = (rep.coverage.get("proof_audit") or {}).get("axioms_used", [])
    return rep.finish(
        level="proof",
        checker_cmd="make -C /verif/coq (coqc 8.16.1) + coqc on coq/gen/C20/*.v (vm_compute; coq-interval)",
        trusted_base=C.KERNEL_TB + ["coq-interval reflexive evaluator (sqrt / exp goals)",
                                    "axioms: " + (", ".join(ax) if ax else "none")],
        rule="piecewise_linear_sample on dyadic grids (uniform / non-uniform / geometric) x tables (random, "
             "flat, equal pairs, tiny slopes, zero ends) with scripted cells and uniforms incl. 0 and 1-2^-16; "
             "evaluate_conditional on quadratic / tent / flat-top / two-bump dyadic log-densities, 4..17 search "
             "points, grid sizes 5..65; get_conditionals on 1..3-variable (correlated) quadratics; simpson on "
             "tables with even and odd numbers of points; conditional_sample on Gaussians [R]")


def replay(path):
    d = json.load(open(path))
    rp = d["replay"]
    case = rp.get("case")
    if not case:
        print("replay names a broken theorem / correspondence:", rp.get("theorem_or_correspondence"))
        return 1
    mt = case["meta"]
    if case["kind"] == "pls":
        x = [Fraction(v) for v in mt["x"]]
        p = [Fraction(v) for v in mt["p"]]
        out, w, err, _ = run_pls(x, p, mt["ks"], [Fraction(u) for u in mt["us"]])
        print("samples:", out, "\nprobabilities used:", None if w is None else [float(v) for v in w], "\nerror:", err)
        why = masses_oracle(x, p, w) if err is None else err
        print("property failure:", why)
        return 1 if why else 0
    print(json.dumps(mt, indent=1)[:3000])
    return 1
