"""C11 -- GP model-selection scores and their gradients are what they claim to be.

Theorems: coq/theories/Properties/C11.v (Matrix/Selection.v at MathComp matrices, any
realFieldType, any n) and Properties/C11Analysis.v (logarithm steps, n = 2 derivative).

Tie to the code (DESIGN 2.3 + 2.2).  For every generated configuration the real
GpRegressor is constructed at hyper-parameters theta and marginal_likelihood,
marginal_likelihood_gradient, loo_likelihood, loo_likelihood_gradient and
loo_predictions are called.  The matrices the implementation itself builds (K_xx + sig,
self.L, mu, the gradient matrices / vectors of covariance_and_gradients /
mean_and_gradients) and every output are written as exact rationals to
coq/gen/C11/cases_*.v, where the SAME model text instantiated at ListOps is evaluated by
vm_compute (on the bigQ instance Matrix/BigOps.v; the small cases also on ListOps, with
exact agreement required) and compared inside Coq (Matrix/SelectionCheck.v, ten
obligations per case).
The score VALUES contain logarithms: for n <= 4 they are coq-interval goals over R built
from the exact rationals the model computes (ml_goal, ml_closed_goal, loo_goal,
loo_refit_goal).

Every case is history-aware: the methods are first called with one array holding other
hyper-parameter values, the array is overwritten in place and the compared calls use the
same object.

Representations (Matrix/SelectionRepr.v, Properties/C11Repr.v): every configuration is run again with the
SAME numbers handed over in other representations -- hyper-parameters as lists / tuples of Python floats or
NumPy scalars, data as lists, tuples, float32 / float16 arrays where the numbers fit -- and, on additional
whole-number configurations (coordinates up to ~100, errors up to 20, integer log-hyper-parameters), as
int8..int64 / uint8..uint64 arrays, lists / tuples of Python ints, int16 / float32 hyper-parameters.  For each
variant the data the regressor stored (self.x, self.y, self.sig) and all outputs of the five functions go into
the same Coq case (`repr_case`): validity of the representation, equality of the denoted numbers, stored data =
the numbers (squares for y_err), outputs = the model's outputs for the baseline (seven obligations per
variant, lib/c11_repr.py builds the objects).  Hyper-parameters in a carrier with single working precision
(float32, int16: NumPy evaluates exp in float32) are compared with tolerances widened to 1e-3 of the scale.

Property oracles, evaluated on the implementation:
  * REFIT: for each i the real GpRegressor is fitted again without point i (same
    hyper-parameters) and asked to predict at x_i; the leave-one-out predictions and
    score must equal those (compared inside Coq: obligation 6 and loo_refit_goal);
  * central differences (five-point, exact dyadic step) of the implementation's own
    marginal_likelihood / loo_likelihood against the returned gradients.
[R] test (labelled as a test, not a proof): real optimiser runs with seeded random
numbers (inference.gp.regression.random patched) -- starting positions, best-of
selection, optimiser contract, bounds and the centre comparison are checked inside Coq
on the recorded run (check_ms_obligations).
"""
from __future__ import annotations

import json
import math
import os
import warnings

os.environ.setdefault("OMP_NUM_THREADS", "1")        # tiny matrices: BLAS threads only burn CPU
os.environ.setdefault("OPENBLAS_NUM_THREADS", "1")
from fractions import Fraction

import numpy as np

from lib import common as C
from lib import interval as IV
from lib import matrix as MX
from lib import c11_repr as RP

PROP = "C11"
THEOREMS = ["C11_ml_value_algebra", "C11_value_and_gradient_same_value", "C11_ml_grad_trace_form",
            "C11_inv_first_order", "C11_loo_last_point", "C11_loo_perm", "C11_loo_every_point",
            "C11_loo_value", "C11_loo_grad_form", "C11_multistart_not_worse_than_centre",
            "C11_centre_in_starts", "C11_ml_value", "C11_loo_value_logs",
            "C11_ml_gradient_is_derivative_n2"]

HEADER = MX.HEADER.format(mods="Matrix.GpModel Matrix.Selection Matrix.SelectionCheck Matrix.SelectionRepr")
N_OBL = 10
N_VAR_OBL = 7            # Matrix/SelectionRepr.v, var_obligations
OBLIGATION_NAMES = {
    0: "model could not be evaluated (an inverse failed its run-time verification)",
    1: "cholesky(K_xx) is not a lower-triangular factor with positive diagonal of K_xx + sig",
    2: "marginal_likelihood_gradient, mean part, differs from (alpha*dmu).sum() / alpha^T dmu",
    3: "marginal_likelihood_gradient, covariance part, differs from 0.5 (Q*dK.T).sum() / 1/2 tr((aa^T - A^-1) dK)",
    4: "loo_predictions differ from y - alpha/diag(A^-1), 1/diag(A^-1)",
    5: "loo_likelihood_gradient differs from the model (R&W 5.13)",
    6: "leave-one-out predictions differ from the REFIT predictions",
    7: "quadratic parts / value and value-and-gradient variants disagree",
    8: "det(K_xx + sig) differs from (prod L_ii)^2",
    9: "the two executable instances (BigOps, ListOps) of the model disagree on this case",
}
VAR_OBLIGATION_NAMES = {
    0: "a represented input is not valid for its carrier (harness error) or theta's working precision is below single",
    1: "the represented inputs do not denote the baseline's numbers (harness error)",
    2: "the regressor did not store the data as the numbers given (self.x, self.y, self.sig = y_err^2 / y_cov / 0)",
    3: "marginal_likelihood_gradient differs from the model",
    4: "loo_predictions differ from the model",
    5: "loo_likelihood_gradient differs from the model",
    6: "a score value differs from the value for float64 arrays, or value and value-and-gradient variants disagree",
}
MS_NAMES = {0: "shapes of the recorded run", 1: "starting positions differ from lwr + (upr-lwr)*u ..., centre last",
            2: "selected hyper-parameters are not the first result of minimal cost",
            3: "an optimiser run ended worse than it started", 4: "a result / the solution is outside the bounds",
            5: "the selected hyper-parameters score worse than the centre of the bounds box"}

KERNELS = [["SE"], ["RQ"], ["sum", ["SE"], ["WN"]], ["sum", ["RQ"], ["WN"]], ["sum", ["SE"], ["RQ"]],
           ["CP", [["SE"], ["SE"]], 0], ["sum", ["SE"], ["SE"], ["WN"]]]
MEANS = ["const", "linear", "quadratic"]
ERRS = ["y_err", "none", "y_cov_diag", "y_err", "y_cov_full"]
COND_MAX = 1e4
H = 2.0 ** -8


def GP():
    from inference.gp import GpRegressor
    return GpRegressor


# ---------------------------------------------------------------- generation
def grid(r, lo, hi, q=64):
    return r.randint(int(lo * q), int(hi * q)) / q


def gen_case(r, k, tier):
    kern = KERNELS[k % len(KERNELS)]
    mean = MEANS[(k // len(KERNELS)) % 3]
    err_kind = ERRS[(k + k // 21) % len(ERRS)]
    n = [2, 3, 4, 3, 5, 4, 6, 5, 3, 7][k % 10]
    d = r.choice([1, 1, 2, 2, 3])
    if MX.kernel_has(kern, "CP") and n < 3:
        n = 3
    while True:
        x = np.array([[grid(r, 0, 4) for _ in range(d)] for _ in range(n)], dtype=float)
        dist = min(np.abs(x[i] - x[j]).max() for i in range(n) for j in range(i))
        if dist >= 0.25:
            break
    y = np.array([grid(r, -3, 3, 256) for _ in range(n)], dtype=float)
    case = {"n": n, "d": d, "x": MX.hexlist(x), "y": MX.hexlist(y), "kernel": kern, "mean": mean}
    e = np.array([grid(r, 0.15, 0.7, 256) for _ in range(n)], dtype=float)
    if err_kind == "none":
        err = {"kind": "none", "values": []}
    elif err_kind == "y_err":
        err = {"kind": "y_err", "values": MX.hexlist(e)}
    elif err_kind == "y_cov_diag":
        err = {"kind": "y_cov", "diag": True, "values": MX.hexlist(np.diag(e ** 2))}
    else:
        B = np.array([[grid(r, -0.4, 0.4, 16) for _ in range(2)] for _ in range(n)], dtype=float)
        cov = np.diag(e ** 2) + B @ B.T
        err = {"kind": "y_cov", "diag": False, "values": MX.hexlist((cov + cov.T) / 2)}
    case["err"] = err
    for attempt in range(300):
        noise_lo = 0.15 if attempt < 150 else 0.4
        hp = MX.mean_hyperpars(r, mean, d) + MX.kernel_hyperpars(r, kern, n, d, noise_lo=noise_lo)
        case["hyperpars"] = MX.hexlist(hp)
        A = data_cov_float(case)
        if A is not None and np.all(np.isfinite(A)) and np.linalg.cond(A) <= COND_MAX:
            case["cond"] = float(np.linalg.cond(A))
            return case
        if attempt % 30 == 29:
            x = x * 1.5
            case["x"] = MX.hexlist(x)
    raise RuntimeError("could not condition a case")


def err_arrays(case, keep=None):
    n = case["n"]
    e = case["err"]
    if e["kind"] == "none":
        return None, None
    if e["kind"] == "y_err":
        v = MX.unhex(e["values"])
        return (v if keep is None else v[keep]), None
    c = MX.unhex(e["values"], (n, n))
    return None, (c if keep is None else c[np.ix_(keep, keep)])


def data_cov_float(case):
    n, d = case["n"], case["d"]
    x = MX.unhex(case["x"], (n, d))
    hp = MX.unhex(case["hyperpars"])
    cov = MX.make_kernel(case["kernel"])
    mean = MX.make_mean(case["mean"])
    cov.pass_spatial_data(x)
    mean.pass_spatial_data(x)
    K = cov.build_covariance(hp[mean.n_params:])
    ye, yc = err_arrays(case)
    if ye is not None:
        K = K + np.diag(ye ** 2)
    if yc is not None:
        K = K + yc
    return K


# ---------------------------------------------------------------- running the code
def build(case, keep=None, hyperpars=None):
    n, d = case["n"], case["d"]
    x = MX.unhex(case["x"], (n, d))
    y = MX.unhex(case["y"])
    if keep is not None:
        x, y = x[keep], y[keep]
    ye, yc = err_arrays(case, keep)
    kw = {}
    if ye is not None:
        kw["y_err"] = ye
    if yc is not None:
        kw["y_cov"] = yc
    hp = MX.unhex(case["hyperpars"]) if hyperpars is None else hyperpars
    return GP()(x, y, hyperpars=hp, kernel=MX.make_kernel(case["kernel"]), mean=MX.make_mean(case["mean"]), **kw)


def refit_supported(case):
    """Diagonal observation noise, and at least two points left after removing one (GpRegressor squeezes a
    single data value to a 0-d array and rejects it)."""
    e = case["err"]
    return case["n"] >= 3 and not (e["kind"] == "y_cov" and not e.get("diag"))


def refit(case, gp_full, A):
    """For each i: fit the real regressor without point i (same hyper-parameters; a mean
    function that centres on the data keeps the FULL data's centre through an explicit
    shift of its constant... -- not needed: see below) and predict y_i.
    LinearMean / QuadraticMean are parametrised around x.mean() of the data they are given,
    so the same function on n-1 points has different hyper-parameters; the refit therefore
    converts theta to the re-centred parametrisation exactly (in rationals)."""
    n, d = case["n"], case["d"]
    x = MX.unhex(case["x"], (n, d))
    hp = MX.unhex(case["hyperpars"])
    nm = gp_full.mean.n_params
    mus, vars_ = [], []
    for i in range(n):
        keep = [j for j in range(n) if j != i]
        hp_i = np.array(hp, dtype=float)
        hp_i[:nm] = recentre_mean(case["mean"], hp[:nm], x, x[keep], d)
        gi = build(case, keep=keep, hyperpars=hp_i)
        m, s = gi(x[i][None, :])
        kqq = float(gp_full.cov(x[i][None, :], x[i][None, :], gp_full.cov_hyperpars)[0, 0])
        mus.append(C.frac(float(np.asarray(m).reshape(-1)[0])))
        # variance of the OBSERVATION y_i: predictive variance of f(x_i) + the diagonal term
        # of K_xx + sig (noise variance of observation i, jitter) that a prediction at a new
        # point does not contain
        vars_.append(C.frac(float(np.asarray(s).reshape(-1)[0])) ** 2 + C.frac(A[i, i]) - C.frac(kqq))
    return mus, vars_


def recentre_mean(kind, th, x_full, x_sub, d):
    """Hyper-parameters of the SAME mean function when it is centred on x_sub instead of x_full."""
    if kind == "const":
        return np.array(th, dtype=float)
    c0 = [sum(C.frac(v) for v in x_full[:, k]) / x_full.shape[0] for k in range(d)]
    c1 = [sum(C.frac(v) for v in x_sub[:, k]) / x_sub.shape[0] for k in range(d)]
    t = [C.frac(v) for v in th]
    if kind == "linear":
        # t0 + sum (q - c0) tk  =  [t0 + sum (c1 - c0) tk] + sum (q - c1) tk
        t0 = t[0] + sum((c1[k] - c0[k]) * t[1 + k] for k in range(d))
        return np.array([float(t0)] + [float(v) for v in t[1:]])
    lin, quad = t[1:1 + d], t[1 + d:1 + 2 * d]
    # (q-c0) = (q-c1) + s, s = c1-c0:  lin*(q-c1) + lin*s + quad*((q-c1)^2 + 2 s (q-c1) + s^2)
    s = [c1[k] - c0[k] for k in range(d)]
    t0 = t[0] + sum(lin[k] * s[k] + quad[k] * s[k] ** 2 for k in range(d))
    lin2 = [lin[k] + 2 * s[k] * quad[k] for k in range(d)]
    return np.array([float(t0)] + [float(v) for v in lin2] + [float(v) for v in quad])


def run_impl(case):
    out = {"status": "ok"}
    stage = "constructor"
    n = case["n"]
    try:
        with warnings.catch_warnings():
            warnings.simplefilter("ignore")
            gp = build(case)
            theta0 = np.array(MX.unhex(case["hyperpars"]), dtype=float)
            # history: every method is first used with ONE array `buf` holding other values, which is
            # then overwritten IN PLACE; the compared calls use that same object (anything cached
            # under the caller's array, or by identity of the argument, is stale by then)
            buf = theta0 + 0.25
            stage = "warm-up calls with other hyper-parameters"
            try:
                gp.set_hyperparameters(buf)
                gp.loo_predictions()
            except np.linalg.LinAlgError:
                pass                      # the perturbed values need not be well conditioned
            for fn in (gp.marginal_likelihood, gp.loo_likelihood,
                       gp.marginal_likelihood_gradient, gp.loo_likelihood_gradient):
                try:
                    fn(buf)
                except np.linalg.LinAlgError:
                    pass
            buf[:] = theta0
            theta = buf
            stage = "set_hyperparameters"
            gp.set_hyperparameters(theta)
            stage = "marginal_likelihood"
            ml = float(gp.marginal_likelihood(theta))
            stage = "marginal_likelihood_gradient"
            mlg, mlgrad = gp.marginal_likelihood_gradient(theta)
            stage = "loo_likelihood"
            loo = float(gp.loo_likelihood(theta))
            stage = "loo_likelihood_gradient"
            loog, loograd = gp.loo_likelihood_gradient(theta)
            stage = "loo_predictions"
            lmu, lsig = gp.loo_predictions()
            if not np.array_equal(theta, theta0):
                return {"status": "mutated", "stage": "hyper-parameters",
                        "error": "a model-selection function modified the caller's hyper-parameter array"}
            stage = "reading the matrices"
            K, gK = gp.cov.covariance_and_gradients(theta[gp.cov_slice])
            A = np.array(K, dtype=float) + np.array(gp.sig, dtype=float)
            mu, gmu = gp.mean.mean_and_gradients(theta[gp.mean_slice])
            nm = gp.mean.n_params
            out.update(gp=gp, theta=theta, A=A, L=np.array(gp.L, dtype=float),
                       y=np.array(gp.y, dtype=float).reshape(-1), mu=np.array(mu, dtype=float).reshape(-1),
                       dK=[np.array(g, dtype=float) for g in gK], dmu=[np.array(g, dtype=float).reshape(-1) for g in gmu],
                       ml=ml, mlg=float(mlg), loo=loo, loog=float(loog),
                       ml_grad=np.array(mlgrad, dtype=float).reshape(-1),
                       loo_grad=np.array(loograd, dtype=float).reshape(-1),
                       loo_mu=np.array(lmu, dtype=float).reshape(-1), loo_sig=np.array(lsig, dtype=float).reshape(-1),
                       nm=nm, Kxx_self=np.array(gp.K_xx, dtype=float))
            stage = "refit without each point"
            if refit_supported(case):
                out["r_mu"], out["r_var"] = refit(case, gp, A)
            else:
                out["r_mu"], out["r_var"] = [Fraction(0)] * n, [Fraction(1)] * n
    except Exception as e:
        return {"status": "exception", "stage": stage, "error": f"{type(e).__name__}: {e}"}
    nh = len(out["theta"])
    if out["ml_grad"].shape != (nh,) or out["loo_grad"].shape != (nh,) or len(out["dK"]) + len(out["dmu"]) != nh:
        return {"status": "shape", "stage": "gradients", "error": "gradient length differs from the number of hyper-parameters"}
    if out["loo_mu"].shape != (n,) or out["loo_sig"].shape != (n,):
        return {"status": "shape", "stage": "loo_predictions", "error": "loo_predictions shape"}
    for k_ in ("ml", "mlg", "loo", "loog"):
        if not math.isfinite(out[k_]):
            return {"status": "nonfinite", "stage": k_, "error": f"{k_} = {out[k_]}"}
    for k_ in ("ml_grad", "loo_grad", "loo_mu", "loo_sig", "A", "L"):
        if not np.all(np.isfinite(out[k_])):
            return {"status": "nonfinite", "stage": k_, "error": f"{k_} is not finite"}
    if float(np.abs(out["Kxx_self"] - out["A"]).max()) > 1e-12 * float(np.abs(out["A"]).max()):
        return {"status": "mismatch", "stage": "K_xx", "error": "self.K_xx differs from covariance_and_gradients()[0] + sig"}
    return out


def tolerances(case, out):
    n = case["n"]
    iK = np.linalg.inv(out["A"])            # only to SCALE the tolerances
    r = out["y"] - out["mu"]
    alpha = iK @ r
    amax = max(float(np.abs(alpha).max()), 1e-6)
    imax = float(np.abs(iK).max())
    var = 1.0 / np.diag(iK)
    dKmax = max([float(np.abs(g).max()) for g in out["dK"]] + [1e-6])
    dmmax = max([float(np.abs(g).max()) for g in out["dmu"]] + [1e-6])
    sg = max(n * n * (amax ** 2 + imax) * dKmax, n * amax * dmmax, 1e-3)
    vmax = float(np.abs(var).max())
    sh = max(n * n * amax * vmax * imax * dKmax * amax * n, n * n * vmax * (1 + vmax * amax ** 2) * imax ** 2 * dKmax * n,
             n * amax * vmax * imax * dmmax * n, 1e-3)
    quad = abs(float(r @ alpha))
    logs = float(np.abs(np.log(np.diag(out["L"]))).sum())
    sl = max(1.0, quad, logs, abs(out["loo"]))
    return {"f": 1e-12 * float(np.abs(out["A"]).max()), "g": 1e-7 * sg, "h": 1e-7 * sh,
            "m": 1e-7 * max(float(np.abs(out["y"]).max()), float(np.abs(out["mu"]).max()), amax * vmax, 1e-6),
            "v": 1e-7 * max(vmax, 1e-6), "q": 1e-9 * max(quad, 1.0), "d": 1e-9, "l": 1e-9 * sl, "r": 1e-7 * sl * n}


# ---------------------------------------------------------------- Coq side
def qvec_frac(fr):
    return "[" + "; ".join(f"({f.numerator} # {f.denominator})" for f in fr) + "]"


def coq_case(case, out, cross=False):
    t = tolerances(case, out)
    nm = out["nm"]
    f = [("s_n", C.cnat(case["n"])), ("s_A", MX.qmat(out["A"])), ("s_L", MX.qmat(out["L"])),
         ("s_y", MX.qvec(out["y"])), ("s_mu", MX.qvec(out["mu"])),
         ("s_dK", "[" + ";\n     ".join(MX.qmat(g) for g in out["dK"]) + "]"),
         ("s_dmu", "[" + "; ".join(MX.qvec(g) for g in out["dmu"]) + "]"),
         ("o_ml", C.cq(out["ml"])), ("o_mlg", C.cq(out["mlg"])),
         ("o_ml_grad_mean", MX.qvec(out["ml_grad"][:nm])), ("o_ml_grad_cov", MX.qvec(out["ml_grad"][nm:])),
         ("o_loo", C.cq(out["loo"])), ("o_loog", C.cq(out["loog"])),
         ("o_loo_grad_mean", MX.qvec(out["loo_grad"][:nm])), ("o_loo_grad_cov", MX.qvec(out["loo_grad"][nm:])),
         ("o_loo_mu", MX.qvec(out["loo_mu"])), ("o_loo_sig", MX.qvec(out["loo_sig"])),
         ("s_refit", C.cbool(refit_supported(case))), ("s_cross", C.cbool(cross)),
         ("r_mu", qvec_frac(out["r_mu"])), ("r_var", qvec_frac(out["r_var"]))]
    f += [(f"t_{k}", MX.qtol(t[k])) for k in ("f", "g", "h", "m", "v", "q", "d", "l", "r")]
    return "{| " + ";\n   ".join(f"{k} := {v}" for k, v in f) + " |}"


def coq_repr_case(case, out, cross, vs):
    """The baseline `sel_case`, the float64 arrays it was built from and the variants that ran (Matrix/SelectionRepr.v)."""
    n, d = case["n"], case["d"]
    ev = MX.unhex(case["err"]["values"]) if case["err"]["kind"] != "none" else np.zeros(0)
    ok = [v for v in vs if v["status"] == "ok"]
    assert len(ok) <= 12
    f = [("rc_base", coq_case(case, out, cross)), ("rc_theta", MX.qvec(MX.unhex(case["hyperpars"]))),
         ("rc_x", MX.qvec(MX.unhex(case["x"]))), ("rc_yraw", MX.qvec(MX.unhex(case["y"]))), ("rc_err", MX.qvec(ev)),
         ("rc_vars", "[" + ";\n     ".join(RP.coq_variant(case, v["spec"], v, out["nm"]) for v in ok) + "]")]
    return "{| " + ";\n   ".join(f"{k} := {v}" for k, v in f) + " |}"


# ---------------------------------------------------------------- oracles on the implementation
def central(fn, theta, p, h=H):
    e = np.zeros_like(theta)
    e[p] = h
    return (8 * (fn(theta + e) - fn(theta - e)) - (fn(theta + 2 * e) - fn(theta - 2 * e))) / (12 * h)


def oracle(case, out, widen=1.0):
    """C11 on the implementation: list of (key, message).  `widen` > 1 only for hyper-parameters held in a
    single-precision carrier (the kernels then work in single precision)."""
    bad = []
    gp, theta = out["gp"], out["theta"]
    t = tolerances(case, out)
    with warnings.catch_warnings():
        warnings.simplefilter("ignore")
        for name, fn, grad, val, valg in (("marginal_likelihood", gp.marginal_likelihood, out["ml_grad"], out["ml"], out["mlg"]),
                                          ("loo_likelihood", gp.loo_likelihood, out["loo_grad"], out["loo"], out["loog"])):
            if abs(val - valg) > t["l"]:
                bad.append((f"C11/{name}-value", f"{name}(theta) = {val!r} but {name}_gradient(theta)[0] = {valg!r}"))
            for p in range(len(theta)):
                cd = central(lambda th: float(fn(th)), theta, p)
                if abs(cd - grad[p]) > 1e-5 * max(abs(cd), abs(grad[p]), 1.0):
                    bad.append((f"C11/{name}-gradient",
                                f"{name}_gradient component {p} is {grad[p]!r} but the central difference of "
                                f"{name} is {cd!r}"))
                    break
    # the score itself: log-density of the data under N(mu, A), exact solve in rationals + float logs
    A = MX.fmat(out["A"])
    r = MX.f_sub(MX.fmat(out["y"]), MX.fmat(out["mu"]))
    quad = float(MX.f_mul(MX.f_tr(r), MX.f_solve(A, r))[0][0])
    sign, logdet = np.linalg.slogdet(out["A"])
    want = -0.5 * quad - 0.5 * logdet
    if sign <= 0 or abs(want - out["ml"]) > widen * 1e-8 * max(1.0, abs(want)):
        bad.append(("C11/marginal_likelihood-value",
                    f"marginal_likelihood = {out['ml']!r} but the log-density of the data (+ n/2 ln 2pi) is {want!r}"))
    if refit_supported(case):
        rm = np.array([float(v) for v in out["r_mu"]])
        rv = np.array([float(v) for v in out["r_var"]])
        if float(np.abs(rm - out["loo_mu"]).max()) > widen * 10 * t["m"] or float(np.abs(rv - out["loo_sig"] ** 2).max()) > widen * 10 * t["v"]:
            bad.append(("C11/loo-predictions",
                        f"loo_predictions() = {out['loo_mu'].tolist()}, sigma^2 = {(out['loo_sig'] ** 2).tolist()} but refitting "
                        f"without each point predicts {rm.tolist()}, {rv.tolist()}"))
        want = float((-0.5 * ((out["y"] - rm) ** 2 / rv + np.log(rv))).sum())
        if abs(want - out["loo"]) > widen * 1e-6 * max(1.0, abs(want)) * case["n"]:
            bad.append(("C11/loo_likelihood-value",
                        f"loo_likelihood = {out['loo']!r} but the sum of the log-densities of the refit predictions is {want!r}"))
    return bad


def variant_oracle(case, out, vo):
    """The same oracles on the outputs obtained with the inputs in another representation: the true values
    (log-density under the baseline's K_xx + sig, refit predictions) and the true gradient (central differences
    of the value-only functions at the float64 hyper-parameters) do not depend on how the numbers were given."""
    lowprec = RP.UFUNC_PREC[vo["spec"]["theta"][0]] < 53
    pseudo = dict(out, **{k: vo[k] for k in ("gp", "ml", "mlg", "loo", "loog", "ml_grad", "loo_grad", "loo_mu", "loo_sig")})
    how = " [inputs given: " + RP.describe_spec(vo["spec"]) + "]"
    return [(key + "/representation", what + how) for key, what in oracle(case, pseudo, widen=1e4 if lowprec else 1.0)]


# ---------------------------------------------------------------- [R] real optimiser runs
class _Recorder:
    def __init__(self, seed):
        self.rng = np.random.default_rng(seed)
        self.draws = []

    def __call__(self, size=None):
        u = self.rng.random(size=size)
        self.draws.append(np.array(u, dtype=float).reshape(-1))
        return u


def optimiser_run(spec):
    """Run the real automatic hyper-parameter selection with seeded random numbers."""
    import inference.gp.regression as reg
    r = np.random.default_rng(spec["seed"])
    n, d = spec["n"], spec["d"]
    x = np.sort(r.uniform(0, 6, size=(n, d)), axis=0)
    y = np.sin(x[:, 0]) * 1.5 + 0.3 * x[:, 0] + r.normal(0, 0.2, size=n)
    yerr = np.full(n, 0.2)
    results, starts = [], []

    class Rec(reg.GpRegressor):
        def launch_bfgs(self, x0):
            res = super().launch_bfgs(x0)
            starts.append(np.array(x0, dtype=float))
            results.append((np.array(res[0], dtype=float), float(res[1])))
            return res

    rec = _Recorder(spec["seed"] + 1000)
    old = reg.random
    old_opt = reg.fmin_l_bfgs_b
    reg.random = rec
    if spec.get("scripted"):
        # a scripted optimiser meeting exactly the contract of C11_multistart_not_worse_than_centre (never ends
        # worse than it started, stays inside the bounds) and otherwise arbitrary: it may stop early, report any
        # warnflag (L-BFGS-B reports 1 / 2 for iteration limits and abnormal line-search terminations while
        # still returning its best point), and improve a lot or not at all
        sr = np.random.default_rng(spec["seed"] + 2000)

        def scripted_opt(func, x0, approx_grad=False, bounds=None, **kw):
            x0 = np.array(x0, dtype=float)
            f0, g0 = func(x0)
            best, fb, gb = x0, float(f0), g0
            b = np.array(bounds, dtype=float)
            for _ in range(int(sr.integers(0, 4))):
                cand = b[:, 0] + (b[:, 1] - b[:, 0]) * sr.random(len(x0))
                fc, gc = func(cand)
                if np.isfinite(fc) and fc <= fb:
                    best, fb, gb = cand, float(fc), gc
            flag = int(sr.choice([0, 1, 2, 2]))
            return best, fb, {"grad": gb, "task": "SCRIPTED", "funcalls": 1, "nit": 1, "warnflag": flag}
        reg.fmin_l_bfgs_b = scripted_opt
    np.random.seed(spec["seed"])          # differential_evolution draws from the global generator
    try:
        with warnings.catch_warnings():
            warnings.simplefilter("ignore")
            gp = Rec(x, y, y_err=yerr, kernel=MX.make_kernel(spec["kernel"]), mean=MX.make_mean(spec["mean"]),
                     cross_val=spec["cross_val"], optimizer=spec["optimizer"], n_starts=spec.get("n_starts"))
            bounds = np.array(gp.hp_bounds, dtype=float)
            sol = np.array(gp.hyperpars, dtype=float)
            cost = lambda th: -float(gp.model_selector(np.array(th, dtype=float)))
            centre = 0.5 * (bounds[:, 0] + bounds[:, 1])
            if spec["optimizer"] == "diffev":
                starts, results = [centre], [(sol, cost(sol))]
            out = {"status": "ok", "bounds": bounds, "draws": rec.draws, "starts": starts, "results": results,
                   "start_costs": [cost(s) for s in starts], "solution": sol, "solution_cost": cost(sol)
                   if spec["optimizer"] == "diffev" else min(results, key=lambda t: t[1])[1],
                   "centre_cost": cost(centre)}
    except Exception as e:
        out = {"status": "exception", "error": f"{type(e).__name__}: {e}"}
    finally:
        reg.random = old
        reg.fmin_l_bfgs_b = old_opt
    return out


def coq_ms_case(spec, o):
    sc = max(1.0, max(abs(c) for c in o["start_costs"]))
    is_de = spec["optimizer"] == "diffev"
    f = [("m_lwr", MX.qvec(o["bounds"][:, 0])), ("m_upr", MX.qvec(o["bounds"][:, 1])),
         ("m_draws", "[" + "; ".join(MX.qvec(u) for u in ([] if is_de else o["draws"])) + "]"),
         ("m_starts", "[" + "; ".join(MX.qvec(s) for s in o["starts"]) + "]"),
         ("m_results", "[" + "; ".join(f"({MX.qvec(x)}, {C.cq(c)})" for x, c in o["results"]) + "]"),
         ("m_start_costs", "[" + "; ".join(C.cq(c) for c in o["start_costs"]) + "]"),
         ("m_solution", MX.qvec(o["solution"])), ("m_solution_cost", C.cq(o["solution_cost"])),
         ("m_ts", MX.qtol(1e-12 * max(1.0, float(np.abs(o["bounds"]).max())))),
         # differential evolution is not claimed to beat the centre: only bounds are checked
         ("m_tc", MX.qtol(1e-9 * sc if not is_de else 1e30))]
    return "{| " + ";\n   ".join(f"{k} := {v}" for k, v in f) + " |}"


OPT_SPECS = [
    {"seed": 1, "n": 8, "d": 1, "kernel": ["SE"], "mean": "const", "cross_val": False, "optimizer": "bfgs"},
    {"seed": 2, "n": 9, "d": 1, "kernel": ["SE"], "mean": "linear", "cross_val": True, "optimizer": "bfgs"},
    {"seed": 3, "n": 10, "d": 2, "kernel": ["SE"], "mean": "const", "cross_val": False, "optimizer": "bfgs", "n_starts": 4},
    {"seed": 4, "n": 8, "d": 1, "kernel": ["RQ"], "mean": "const", "cross_val": False, "optimizer": "bfgs"},
    {"seed": 5, "n": 8, "d": 1, "kernel": ["sum", ["SE"], ["WN"]], "mean": "const", "cross_val": True, "optimizer": "bfgs"},
    {"seed": 6, "n": 7, "d": 1, "kernel": ["SE"], "mean": "const", "cross_val": False, "optimizer": "diffev"},
    {"seed": 7, "n": 7, "d": 1, "kernel": ["SE"], "mean": "const", "cross_val": True, "optimizer": "diffev"},
    {"seed": 8, "n": 12, "d": 1, "kernel": ["SE"], "mean": "quadratic", "cross_val": False, "optimizer": "bfgs"},
]
# scripted-optimiser runs of the real multistart selection (any optimiser behaviour the contract allows)
SCRIPTED_SPECS = [
    {"seed": 100 + k, "n": 6 + k % 4, "d": 1 + k % 2, "kernel": [["SE"], ["RQ"], ["sum", ["SE"], ["WN"]]][k % 3],
     "mean": ["const", "linear"][k % 2], "cross_val": bool(k % 3 == 1), "optimizer": "bfgs", "scripted": True,
     "n_starts": [None, 2, 5, 1][k % 4]} for k in range(24)]


# ---------------------------------------------------------------- large data sets (log-determinant far outside the double range as a product)
LARGE_PREAMBLE = """From Coq Require Import Reals List.
From Interval Require Import Tactic.
From IT Require Import RealModel.SelectionValue.
Import ListNotations.
Open Scope R_scope.
"""


def large_part(rep, r, tier):
    """n = 60..400 points, small / no observation error or a large amplitude: prod(diag L) leaves the double
    range although the score itself is moderate.  The value variants are compared (a) with each other, (b) with
    ml_value of RealModel/SelectionValue.v on the implementation's own factor (coq-interval goal), (c) [oracle]
    with an independent slogdet-based log-density."""
    from scipy.linalg import solve_triangular
    specs = [(120, 0.05, 1.0), (400, 0.05, 1.0), (120, 1e-3, 1.0), (150, 0.1, 1e3)]
    if tier != "quick":
        specs += [(250, 0.02, 1.0), (60, 0.0, 1.0), (300, 0.5, 1e4), (400, 0.01, 0.1)]
    goals, meta = [], {}
    for j, (n, noise, amp) in enumerate(specs):
        x = np.sort(np.array([r.uniform(0, 10) for _ in range(n)]))
        y = amp * (np.sin(x) + 0.1 * np.array([r.gauss(0, 1) for _ in range(n)]))
        theta = np.array([0.1 * amp, math.log(amp), math.log(0.7 if noise > 0 else 0.12)])
        m = {"n": n, "y_err": noise, "amplitude": amp, "hyperpars": theta.tolist(), "x": x.tolist(), "y": y.tolist()}
        rep.count("large_data_set/n=%d" % n)
        try:
            with warnings.catch_warnings():
                warnings.simplefilter("ignore")
                kw = {"y_err": np.full(n, noise)} if noise > 0 else {}
                gp = GP()(x, y, hyperpars=theta.copy(), kernel=MX.make_kernel(["SE"]), mean=MX.make_mean("const"), **kw)
                ml = float(gp.marginal_likelihood(theta.copy()))
                mlg = float(gp.marginal_likelihood_gradient(theta.copy())[0])
                gp.set_hyperparameters(theta.copy())
                L = np.array(gp.L, dtype=float)
                mu = np.array(gp.mu, dtype=float).reshape(-1)
                A = np.array(gp.K_xx, dtype=float)
        except Exception as e:
            rep.violation("C11/large-data/exception", f"marginal likelihood failed on {n} points: {e!r}", {"case": m}, True)
            continue
        sign, logdet = np.linalg.slogdet(A)
        resid = y - mu
        want = -0.5 * float(resid @ np.linalg.solve(A, resid)) - 0.5 * float(logdet)
        tol = 1e-7 * max(1.0, abs(want))
        if not math.isfinite(ml) or abs(ml - want) > tol:
            rep.violation("C11/marginal_likelihood-value/large-data",
                          f"marginal_likelihood = {ml!r} on {n} points (y_err {noise}, amplitude {amp}) but the log-density "
                          f"of the data (without the 2 pi constant) is {want!r}", {"case": m}, True)
            continue
        if not math.isfinite(mlg) or abs(mlg - ml) > 1e-9 * max(1.0, abs(ml)):
            rep.violation("C11/value-variants-differ/large-data",
                          f"marginal_likelihood = {ml!r} but marginal_likelihood_gradient()[0] = {mlg!r} on {n} points",
                          {"case": m}, True)
            continue
        v = solve_triangular(L, resid, lower=True)
        quad = -sum((Fraction(float(t)) ** 2 for t in v), Fraction(0)) / 2
        dl = "[" + "; ".join(C.cR(Fraction(float(t))) for t in np.diag(L)) + "]"
        # v is the float solve; its own rounding moves the quadratic part by ~ cond * eps
        gtol = Fraction(1e-7 * max(1.0, abs(ml))).limit_denominator(10 ** 12)
        for tag, val in (("value", ml), ("value_and_gradient", mlg)):
            gid = f"large{j}_{tag}"
            goals.append((gid, f"Rabs (ml_value {C.cR(quad)} {dl} - {C.cR(Fraction(val))}) <= {C.cR(gtol)}",
                          "unfold ml_value; cbn [sum_ln]; interval with (i_prec 60)"))
            meta[gid] = dict(m, variant=tag, observed=val)
    failed, broken = IV.check_goals(PROP, "large", goals, LARGE_PREAMBLE, "", 2, 8, 900)
    rep.obligation(not failed and not broken, max(1, len(goals)))
    rep.coverage["large_data_value_goals"] = len(goals)
    for gid, log in failed[:3]:
        rep.violation("C11/marginal_likelihood-value/large-data",
                      f"{meta[gid]['variant']} variant returned {meta[gid]['observed']!r} which is not "
                      "-1/2 v.v - sum ln L_ii for the implementation's own factor", {"case": meta[gid]}, True)
    for b in broken[:1]:
        rep.violation("C11/correspondence-run", "a large-data value goal file could not be processed",
                      {"theorem_or_correspondence": "coq/gen/C11/large_*.v", "log": b[-800:]}, False)


# ---------------------------------------------------------------- driver
def describe(case):
    return {k: case.get(k) for k in ("n", "d", "x", "y", "kernel", "mean", "hyperpars", "err")}


def run(rep: C.Report, tier: str) -> int:
    r = C.rng_for(PROP, "cases")
    n_cases = 63 if tier == "quick" else 630
    n_value = 16 if tier == "quick" else 120
    n_whole = 14 if tier == "quick" else 84      # whole-number configurations (every integer carrier applies)
    C.clean_gen(PROP)
    C.prove_and_audit(rep, PROP, THEOREMS)

    try:      # Jacobi's formula and the resolvent identity for every n (Matrix/Jacobi.v)
        _jac = ["C11_jacobi_poly_eval", "C11_jacobi_poly_degree", "C11_jacobi_coefficients", "C11_jacobi_first_order",
                "C11_jacobi_formal_derivative", "C11_jacobi_unit", "C11_jacobi_unit_field", "C11_jacobi_log_det_form",
                "C11_jacobi_formal_derivative_unit", "C11_jacobi_derivative", "C11_jacobi_derivative_unit",
                "C11_jacobi_log_derivative", "C11_inverse_resolvent", "C11_inverse_resolvent_right",
                "C11_inverse_first_order_exact", "C11_quad_first_order_exact"]
        _a = C.coq_audit("C11_jacobi", _jac, "IT.Properties.C11Jacobi")
        rep.obligation(True, len(_jac))
        rep.coverage["jacobi_theorems_audit"] = _a
    except C.ProofFailure as _e:
        rep.obligation(False, 16)
        rep.violation("C11/proof", f"proof obligation no longer checks: {_e.what}",
                      {"theorem_or_correspondence": _e.what, "log": _e.log[-1000:]}, False)

    try:      # the bridge MathComp realFieldType <-> Coq reals: the trace form as a genuine derivative, every n
        _real = ["C11_R_carrier", "C11_R_operations", "C11_R_order", "C11_det_derivative", "C11_ln_det_derivative",
                 "C11_quad_form_derivative", "C11_ml_score_def", "C11_ml_directional_derivative",
                 "C11_ml_directional_derivative_trace_form", "C11_ml_directional_derivative_general",
                 "C11_ml_mean_derivative", "C11_ln_det_derivative_at", "C11_quad_form_derivative_at",
                 "C11_ml_directional_derivative_at", "C11_ml_value_real", "C11_loo_value_real"]
        _a = C.coq_audit("C11_real", _real, "IT.Properties.C11Real")
        rep.obligation(True, len(_real))
        rep.coverage["real_bridge_theorems_audit"] = _a
    except C.ProofFailure as _e:
        rep.obligation(False, 16)
        rep.violation("C11/proof", f"proof obligation no longer checks: {_e.what}",
                      {"theorem_or_correspondence": _e.what, "log": _e.log[-1000:]}, False)

    try:      # inputs in other representations than float64 arrays (Matrix/SelectionRepr.v)
        _repr = ["C11_repr_as_f64_exact", "C11_repr_scores_of_numbers", "C11_repr_scores_independent",
                 "C11_repr_gradient_buffer_exact", "C11_repr_integer_buffer_truncates", "C11_repr_like_buffer_refuted",
                 "C11_repr_pinned_data_refuted", "C11_repr_pinned_data_small", "C11_repr_example"]
        _a = C.coq_audit("C11_repr", _repr, "IT.Properties.C11Repr")
        rep.obligation(True, len(_repr))
        rep.coverage["representation_theorems_audit"] = _a
    except C.ProofFailure as _e:
        rep.obligation(False, 9)
        rep.violation("C11/proof", f"proof obligation no longer checks: {_e.what}",
                      {"theorem_or_correspondence": _e.what, "log": _e.log[-1000:]}, False)

    cases, outs, variants = [], [], []
    rw = C.rng_for(PROP, "whole-number-cases")
    for k in range(n_cases + n_whole):
        case = gen_case(r, k, tier) if k < n_cases else \
            RP.gen_whole_case(rw, k - n_cases, KERNELS, MEANS, ERRS, data_cov_float, COND_MAX)
        out = run_impl(case)
        cases.append(case)
        outs.append(out)
        whole = bool(case.get("whole"))
        vs = []
        if out["status"] == "ok":
            for spec in RP.plan_variants(case, k, whole, 6 if whole else 2):
                vs.append(RP.run_variant(case, spec, GP()))
                for role in ("theta", "x", "y", "err"):
                    rep.count(f"{role}_given_as={spec[role][0]}/{spec[role][1]}")
        variants.append(vs)
        rep.count("whole_number_configuration" if whole else "dyadic_configuration")
        rep.count(f"n={case['n']}")
        rep.count(f"d={case['d']}")
        rep.count("kernel=" + MX.kernel_name(case["kernel"]))
        rep.count("mean=" + case["mean"])
        rep.count("errors=" + case["err"]["kind"] + ("/full" if case["err"].get("diag") is False else ""))
        rep.count("cond<=1e%d" % max(0, math.ceil(math.log10(case["cond"]))))
        rep.case(describe(case), nontrivial=True)
        if k < 3:
            rep.sample({"config": {"n": case["n"], "d": case["d"], "kernel": MX.kernel_name(case["kernel"]),
                                   "mean": case["mean"], "errors": case["err"]["kind"]},
                        "impl_marginal_likelihood": out.get("ml"), "impl_loo_likelihood": out.get("loo"),
                        "impl_ml_gradient": out.get("ml_grad")})

    suspicious, obligation_fail = {}, {}
    ok_idx = [k for k, o in enumerate(outs) if o["status"] == "ok"]
    for k, o in enumerate(outs):
        if o["status"] != "ok":
            suspicious[k] = f"{o['status']} in {o['stage']}: {o['error']}"

    # ---- correspondence inside Coq (vm_compute on ListOps)
    weight = lambda k: cases[k]["n"] ** 4 * (2 + len(outs[k]["dK"]))
    order = sorted(ok_idx, key=lambda k: -weight(k))
    nfiles = max(1, min(len(order), 12 if tier == "quick" else 48))
    buckets, loads = [[] for _ in range(nfiles)], [0] * nfiles
    for k in order:
        j = loads.index(min(loads))
        buckets[j].append(k)
        loads[j] += weight(k)
    # the small cases are evaluated on BOTH executable instances (exact agreement, obligation 9)
    small = [k for k in ok_idx if cases[k]["n"] <= 3 and len(outs[k]["theta"]) <= 5]
    cross = set(small[:8 if tier == "quick" else 40])
    rep.coverage["cases_cross_checked_on_both_instances"] = len(cross)
    files, index = [], []
    for j, bucket in enumerate(buckets):
        if not bucket:
            continue
        body = ("Definition cases : list repr_case :=\n [" +
                ";\n  ".join(coq_repr_case(cases[k], outs[k], k in cross, variants[k]) for k in bucket) + "].")
        files.append(C.write_case_file(PROP, f"cases_{j}", HEADER, body, ["failing_repr cases"]))
        index.append(bucket)

    # ---- score values: coq-interval goals on n <= 4
    val_idx = [k for k in ok_idx if cases[k]["n"] <= 4][:n_value]
    defs = [HEADER.replace("From Coq Require Import List QArith.", "From Coq Require Import List QArith Reals.")]
    goals, gmeta = [], {}
    for k in val_idx:
        defs.append(f"Definition case_{k} : sel_case := {coq_case(cases[k], outs[k])}.")
        kinds = [("ml", "ml_goal", "ml_tac"), ("mlc", "ml_closed_goal", "ml_closed_tac"), ("loo", "loo_goal", "loo_tac")]
        if refit_supported(cases[k]):
            kinds.append(("refit", "loo_refit_goal", "loo_refit_tac"))
        for tag, g, tac in kinds:
            gid = f"c{k}_{tag}"
            goals.append((gid, f"{g} case_{k}", tac))
            gmeta[gid] = {"case": k, "goal": g}
    d = C.GEN / PROP
    d.mkdir(parents=True, exist_ok=True)
    (d / "ValueCases.v").write_text("\n".join(defs) + "\n")

    # ---- [R] optimiser runs
    specs = (OPT_SPECS[:6] + SCRIPTED_SPECS[:8]) if tier == "quick" else (OPT_SPECS + SCRIPTED_SPECS)
    sseed = C.rng_for(PROP, "scripted-optimiser").randint(0, 10 ** 6)
    specs = [dict(s, seed=s["seed"] + sseed) if s.get("scripted") else s for s in specs]
    opt_runs = [(s, optimiser_run(s)) for s in specs]
    ms_ok = [(s, o) for s, o in opt_runs if o["status"] == "ok"]
    ms_file = None
    if ms_ok:
        body = ("Definition cases : list ms_case :=\n [" + ";\n  ".join(coq_ms_case(s, o) for s, o in ms_ok) + "].")
        ms_file = C.write_case_file(PROP, "optimiser_runs", HEADER, body, ["failing_ms cases"])

    rc, log, _ = C.sh(["timeout", "600", "coqc"] + C.COQFLAGS + [str(d / "ValueCases.v")], timeout=660)
    value_preamble = ("From Coq Require Import Reals List QArith.\nFrom Interval Require Import Tactic.\n"
                      "From IT Require Import Matrix.MxOps Matrix.ListOps Matrix.Selection Matrix.SelectionCheck "
                      "RealModel.SelectionValue.\nFrom ITGen Require Import C11.ValueCases.\n")
    from concurrent.futures import ThreadPoolExecutor
    with ThreadPoolExecutor(max_workers=2) as ex:
        fut_cases = ex.submit(C.run_case_files, files + ([ms_file] if ms_file else []), 13, 1500)
        if rc == 0:
            fut_goals = ex.submit(IV.check_goals, PROP, "values", goals, value_preamble, "",
                                  max(4, len(goals) // 6 + 1), 6, 1200)
        results = fut_cases.result()
        failed, broken = fut_goals.result() if rc == 0 else ([], [log[-1500:]])

    ms_result = results.pop() if ms_file else None
    n_checked = n_variants_checked = 0
    for pth, idx, (ok, res, log) in zip(files, index, results):
        if not ok or 0 not in res:
            rep.obligation(False, N_OBL * len(idx))
            rep.violation("C11/correspondence-run", f"case file {pth.name} did not evaluate",
                          {"theorem_or_correspondence": f"correspondence file {pth.name}", "log": log}, False)
            continue
        fails = MX.decode_failures(res[0])
        for j, k in enumerate(idx):
            fo_all = fails.get(j, [])
            fo = [o for o in fo_all if o < N_OBL]
            rep.obligation(True, N_OBL - len(fo))
            if fo:
                rep.obligation(False, len(fo))
                obligation_fail[k] = fo
                suspicious[k] = "; ".join(OBLIGATION_NAMES[o] for o in fo)
            ran = [v for v in variants[k] if v["status"] == "ok"]
            rep.obligation(True, N_VAR_OBL * len(ran) - len(fo_all) + len(fo))
            rep.obligation(False, len(fo_all) - len(fo))
            n_variants_checked += len(ran)
            for o in fo_all:
                if o >= N_OBL:
                    ran[(o - N_OBL) // N_VAR_OBL].setdefault("failing", []).append((o - N_OBL) % N_VAR_OBL)
        n_checked += len(idx)
    rep.obligation(True, len(goals) - len(failed))
    rep.obligation(False, len(failed))
    for br in broken:
        rep.obligation(False)
        rep.violation("C11/correspondence-run", "a value-goal file could not be processed",
                      {"theorem_or_correspondence": "coq/gen/C11/values_*.v", "log": br[-1500:]}, False)
    for gid, log in failed:
        m = gmeta[gid]
        suspicious[m["case"]] = (suspicious.get(m["case"], "") + f"; score value goal {m['goal']} not proved").lstrip("; ")
    rep.coverage["cases_validated_against_impl"] = n_checked
    rep.coverage["representation_variants_validated_against_impl"] = n_variants_checked
    rep.coverage["obligations_per_representation_variant"] = VAR_OBLIGATION_NAMES
    rep.coverage["score_value_goals"] = len(goals)
    rep.coverage["score_value_goals_failed"] = len(failed)
    rep.coverage["correspondence_disagreements"] = len(suspicious)
    rep.coverage["obligations_per_case"] = OBLIGATION_NAMES

    # ---- failing-input search
    reported = set()
    for k in sorted(suspicious):
        case, out = cases[k], outs[k]
        if out["status"] != "ok":
            if "C11/exception" not in reported:
                reported.add("C11/exception")
                rep.violation("C11/exception", f"a model-selection function failed on a valid input ({suspicious[k]})",
                              {"case": describe(case), "impl": {k2: out[k2] for k2 in ("status", "stage", "error")}}, True)
            continue
        bad = oracle(case, out)
        if bad:
            for key, what in bad:
                if key not in reported:
                    reported.add(key)
                    rep.violation(key, what, {"case": describe(case), "failing_obligations": obligation_fail.get(k),
                                              "model_obligations": suspicious[k]}, True)
        elif len(reported) < 6 and ("corr", suspicious[k]) not in reported:
            reported.add(("corr", suspicious[k]))
            rep.violation("C11/correspondence",
                          "implementation and model disagree (" + suspicious[k] +
                          "), but the property was not seen to fail on this input",
                          {"theorem_or_correspondence": "Matrix.SelectionCheck.check_sel / score value goals",
                           "failing_obligations": obligation_fail.get(k), "case": describe(case)}, False)

    # ---- inputs in other representations: variants that did not run, or disagree with the model
    n_corr = 0
    for k in sorted(ok_idx, key=lambda k_: not cases[k_].get("whole")):      # whole-number configurations first
        for v in variants[k]:
            rcase = dict(describe(cases[k]), representation=v["spec"])
            if v["status"] != "ok":
                rep.obligation(False, N_VAR_OBL)
                key = "C11/representation/" + v["status"]
                if key not in reported:
                    reported.add(key)
                    rep.violation(key, f"the model-selection functions fail on valid inputs given as {RP.describe_spec(v['spec'])} "
                                       f"({v['status']} in {v['stage']}: {v['error']}); the same numbers as float64 arrays are accepted",
                                  {"case": rcase, "impl": {k2: v[k2] for k2 in ("status", "stage", "error")}}, True)
                continue
            if not v.get("failing"):
                continue
            names = "; ".join(VAR_OBLIGATION_NAMES[o] for o in sorted(set(v["failing"])))
            bad = variant_oracle(cases[k], outs[k], v)
            for key, what in bad:
                if key not in reported:
                    reported.add(key)
                    rep.violation(key, what, {"case": rcase, "failing_obligations": sorted(set(v["failing"])),
                                              "model_obligations": names, "returned_gradient_dtypes": v["grad_dtypes"]}, True)
            if not bad and n_corr < 3:
                n_corr += 1
                rep.violation("C11/correspondence/representation",
                              f"implementation and model disagree for inputs given as {RP.describe_spec(v['spec'])} ({names}), "
                              "but the property was not seen to fail on this input",
                              {"theorem_or_correspondence": "Matrix.SelectionRepr.check_repr", "case": rcase,
                               "failing_obligations": sorted(set(v["failing"]))}, False)

    # ---- second opinion [R]: oracles on a slice of agreeing cases
    n_or = 0
    for k in ok_idx[::4 if tier == "quick" else 3]:
        if k in suspicious:
            continue
        n_or += 1
        for key, what in oracle(cases[k], outs[k]):
            if key not in reported:
                reported.add(key)
                rep.violation(key, what, {"case": describe(cases[k])}, True)
    rep.coverage["oracle_runs_on_agreeing_cases"] = n_or
    n_or = 0
    for k in ok_idx:           # ... and on the first agreeing variant of every whole-number configuration
        if not cases[k].get("whole") or k in suspicious:
            continue
        for v in variants[k][:1 if tier == "quick" else 3]:
            if v["status"] == "ok" and not v.get("failing"):
                n_or += 1
                for key, what in variant_oracle(cases[k], outs[k], v):
                    if key not in reported:
                        reported.add(key)
                        rep.violation(key, what, {"case": dict(describe(cases[k]), representation=v["spec"])}, True)
    rep.coverage["oracle_runs_on_agreeing_representation_variants"] = n_or

    large_part(rep, C.rng_for(PROP, "large"), tier)

    # ---- [R] optimiser runs
    rep.coverage["optimiser_runs_TEST_not_proof"] = [
        dict({k: v for k, v in s.items()}, status=o["status"],
             solution=o.get("solution"), solution_cost=o.get("solution_cost"), centre_cost=o.get("centre_cost"),
             error=o.get("error")) for s, o in opt_runs]
    for s, o in opt_runs:
        rep.count("optimiser_run=" + ("scripted-" if s.get("scripted") else "") + s["optimizer"] + ("/loo" if s["cross_val"] else "/ml"))
        if o["status"] != "ok":
            rep.violation("C11/optimiser-exception", f"automatic hyper-parameter selection failed: {o['error']}",
                          {"case": {"optimiser_run": s}}, True)
    if ms_file is not None:
        ok, res, log = ms_result
        if not ok or 0 not in res:
            rep.obligation(False, 6 * len(ms_ok))
            rep.violation("C11/correspondence-run", "optimiser-run file did not evaluate",
                          {"theorem_or_correspondence": "coq/gen/C11/optimiser_runs.v", "log": log}, False)
        else:
            fails = MX.decode_failures(res[0])
            for j, (s, o) in enumerate(ms_ok):
                fo = fails.get(j, [])
                rep.obligation(True, 6 - len(fo))
                if fo:
                    rep.obligation(False, len(fo))
                    rep.violation("C11/automatic-selection", "; ".join(MS_NAMES[x] for x in fo) +
                                  f" (solution {o['solution'].tolist()}, cost {o['solution_cost']!r}, centre cost {o['centre_cost']!r})",
                                  {"case": {"optimiser_run": s}, "failing_obligations": fo}, True)

    rep.assumptions = [
        "SciPy/LAPACK cholesky and solve_triangular are exact in the theorems (L L^T = K_xx+S, L invertible, lower "
        "triangular for the determinant); the run checks this on the implementation's own factor to 1e-12*max|A|; "
        "inputs are conditioned (cond <= 1e4)",
        "Jacobi's formula (det(A + t dA) = det A + t tr(adj A dA) + t^2 rem(t); epsilon-delta derivative over any "
        "ordered field) and the resolvent identity / exact first-order expansion of the inverse are proved for every n "
        "(Properties/C11Jacobi.v, axiom-free); on the bridge Common/Rstruct.v (Coq's R as a MathComp realFieldType) the "
        "directional derivative of -1/2 r^T A^-1 r - 1/2 ln det A along dA is proved to be the trace form the code "
        "evaluates, as a Coquelicot is_derive, for every n, and ml_value / loo_value are proved equal to the score / the "
        "sum of LOO log-densities over R (Properties/C11Real.v). NOT proved: the composition with theta -> K(theta) "
        "(only directional derivatives along a given dK/dtheta_k; the kernels' own derivatives are C10); checked on "
        "the implementation by central differences [oracle]",
        "NOT proved: that L-BFGS-B satisfies the optimiser contract of C11_multistart_not_worse_than_centre (returned "
        "cost <= cost at its start, result inside the bounds); checked on recorded seeded runs [R test]; differential "
        "evolution is only checked for bounds",
        "the matrix theorems (any real field) and the logarithm lemmas (Coq reals) are joined by Common/Rstruct.v "
        "(choiceType on R uses Coq.Logic.Epsilon.epsilon_statement)",
        "refit comparison: predictive variance of the refitted regressor + the diagonal term of K_xx + sig for the "
        "left-out observation (its own noise / jitter); mean functions are re-centred exactly; correlated observation "
        "noise (non-diagonal y_cov) is excluded from the refit comparison, not from the other obligations",
        "kernel / mean VALUES and their hyper-parameter gradients are inputs (tied to the code by C10)",
        "inputs in other representations (Properties/C11Repr.v): proved for every rounding function that leaves "
        "representable numbers alone -- conversion to float64 is exact for valid represented vectors (intN / uintN "
        "ranges, integers below 2^53, floats of at most 53 bits), so every output depends on the numbers only, and the "
        "float64 gradient buffer returns the computed components unchanged (a buffer made like theta would truncate: "
        "refuted); exponent range of the float carriers is not modelled; NOT proved: the accuracy of the kernels for "
        "hyper-parameters held in a single-precision carrier (float32, 16-bit integers) -- compared with tolerances "
        "1e-3 of the scale; half-precision carriers (float16, 8-bit integers) are not exercised for theta, only for data",
        "ListOps (list-of-Q instance, verified Bareiss inverse) implements the same algebra as the MathComp instance: "
        "not proved, see DESIGN 2.3",
    ]
    return rep.finish(
        level="proof",
        checker_cmd="make -C /verif/coq (coqc 8.16.1, full .vo) + coqc on coq/gen/C11/cases_*.v, optimiser_runs.v "
                    "(vm_compute) and values_*.v (coq-interval)",
        trusted_base=C.KERNEL_TB + [
            "axioms: matrix half closed under the global context; real half: Coq Reals + Coquelicot "
            "(ClassicalDedekindReals.sig_forall_dec, sig_not_dec, functional_extensionality_dep, Classical_Prop.classic); "
            "Properties/C11Real.v additionally Coq.Logic.Epsilon.epsilon_statement (choiceType structure on R)",
            "coq-interval reflexive interval evaluator (score-value goals)",
            "Matrix/ListOps.v (executable matrix instance; inverse verified at run time)"],
        rule="configurations walk kernel (SE, RQ, SE+WN, RQ+WN, SE+RQ, CP(SE,SE), SE+SE+WN) x mean (3) x errors "
             "(y_err, none, diagonal y_cov, full y_cov); n 2..7, d 1..3; theta random, resampled until "
             "cond(K_xx+S) <= 1e4; score-value goals on the first cases with n <= 4; large data sets (n 60..400, small / no "
             "y_err or amplitude 1e3..1e4: prod diag L outside the double range) with ml_value goals on the code's own "
             "factor; optimiser runs: 6 (quick) / 8 seeded real runs (L-BFGS-B multistart with ML and LOO criteria, "
             "differential evolution) + 8 / 24 runs of the real multistart selection under a scripted optimiser that "
             "meets the contract of C11_multistart_not_worse_than_centre and is otherwise arbitrary; every case "
             "non-trivial; distinct = distinct configurations; representations: 2 variants per configuration (theta as "
             "list / tuple of Python floats or NumPy scalars; x, y, errors as lists, tuples, float32 / float16 arrays where "
             "exact) + 14 (quick) / 84 whole-number configurations (n 3..5, coordinates 0..~100 in steps 1..20, y -6..6, "
             "errors 1..20, integer log-hyper-parameters; all seven kernels, three means, four error kinds) with 6 variants "
             "each cycling through int8..int64, uint8..uint64, float16/32/64 arrays, lists / tuples of Python ints, "
             "floats, NumPy scalars for the data and int16/32/64, uint32/64, float32, Python ints / floats for theta "
             "(every third variant changes theta only); counts under <role>_given_as=<carrier>/<container>")


def replay(path):
    d = json.load(open(path))
    rp = d["replay"]
    if "case" not in rp:
        print("replay names a broken theorem / correspondence:", rp.get("theorem_or_correspondence"))
        return 1
    case = rp["case"]
    if "optimiser_run" in case:
        o = optimiser_run(case["optimiser_run"])
        print({k: o.get(k) for k in ("status", "solution", "solution_cost", "centre_cost", "error")})
        if o["status"] != "ok":
            return 1
        b = o["bounds"]
        inside = bool(np.all(o["solution"] >= b[:, 0]) and np.all(o["solution"] <= b[:, 1]))
        worse = case["optimiser_run"]["optimizer"] == "bfgs" and o["solution_cost"] > o["centre_cost"] + 1e-9 * max(1, abs(o["centre_cost"]))
        print("inside bounds:", inside, " worse than centre:", worse)
        return 1 if (not inside or worse) else 0
    case.setdefault("cond", 0.0)
    out = run_impl(case)
    if out["status"] != "ok":
        print("implementation fails:", {k: out[k] for k in ("status", "stage", "error")})
        return 1
    if "representation" in case:
        vo = RP.run_variant(case, case["representation"], GP())
        print("inputs given:", RP.describe_spec(case["representation"]))
        if vo["status"] != "ok":
            print("implementation fails:", {k: vo[k] for k in ("status", "stage", "error")})
            return 1
        bad = variant_oracle(case, out, vo)
        print("marginal_likelihood", vo["ml"], "(float64 arrays:", out["ml"], ") gradient", vo["ml_grad"].tolist(),
              "(float64 arrays:", out["ml_grad"].tolist(), ")")
        print("property failures:", [w for _, w in bad])
        return 1 if bad else 0
    bad = oracle(case, out)
    print("marginal_likelihood", out["ml"], "loo_likelihood", out["loo"])
    print("property failures:", [w for _, w in bad])
    return 1 if bad else 0
