"""C19 -- density-estimator intervals, moments and normalisation are self-consistent and
covariant under shift / scale.   Claimed PARTIAL.

Theorems: coq/theories/Properties/C19.v about Model/Moments.v (scipy's Simpson rule on a
table, `moments` as written / repaired, `sample_moments` one-pass / centred, the interval
cost; over Q) and RealModel/Unimodal.v (the unimodal family, Gauss-Chebyshev normaliser,
interval cost; over R).

Tie to the code, every run:
  [X-exact]    the real `moments` method is run on recorded tables (a stub estimator whose
               __call__ returns a prescribed curve; the grid the code builds and the values
               it receives are read back as exact rationals) and compared, inside Coq, with
               the exact table moments of the repaired formula; the real static
               `sample_moments` on dyadic samples at offsets up to 2^20 against the exact
               centred moments; the real `__hdi_cost` on a dyadic stub estimator against
               hdi_cost_q, exactly.
  [X-interval] UnimodalPdf.log_pdf_model at sampled (x, theta) against log_pdf_model by
               coq-interval.
  [R]          TESTS, not proofs: seeded metamorphic runs of both estimators (shift 0..1e6,
               scale 1e-6..1e6): normalisation, cdf = integral of pdf, interval mass and end
               densities, mode maximal, moments = moments of the estimator's own density,
               covariance of mode / mean / variance / skewness / kurtosis / interval.
               Tolerances are wide: only gross failures alarm.
  [X-judged]   interval sweep: both estimators fitted to SMALL samples (120..400 points; thorough
               120..900) under every transform, `interval(f)` for fractions over the whole of
               (0, 1): below 1/n (the sample-based start has zero width), a few /n, mid range,
               0.99, 0.995..0.9995, and a fraction ABOVE the probability of every window as wide
               as the sample range (measured on the fitted estimator's own cdf), where the
               interval has to extend beyond the data.  The values the real __hdi_cost reads at
               the returned (c, w) -- and, when the mass is off, the real cost of neighbouring
               intervals -- go to Coq as exact rationals; Model.Moments.check_interval (sound by
               C19_check_interval_sound) judges them; C19_width_limited_search_misses /
               C19_restricted_search_misses say what a search confined to the sample range can
               reach.  The property oracle (mass under the estimator's own cdf and under the
               integral of its pdf) then reports the failing input.

Round 4 (seeded changes C19_1 / C19_2 of that round were missed): theorems in Properties/C19Cdf.v about
RealModel/UnimodalCdf.v -- the integration limits of the unimodal model, the mirror image of the family
(log-density, Gauss-Chebyshev normaliser, density and limits of (-x0, s0, ln v, -f, k, q)), the cumulative
function as cdf() assembles it (every value of one call is F(point) minus the probability below the lower limit,
differences within one call are exact: C19_cdf_value_error / C19_cdf_differences_exact), and the type of the
requested points (C19_typed_eval_float: with the float64 output buffer the answer depends on their value only).
  [X-interval] lwr_limit / upr_limit of EVERY unimodal model fitted in the [R] stage against the model's limits at
               the fitted MAP (coq-interval); log_pdf_model at whole-number points given as Python int / int32 /
               int64 / float32 scalars, lists and arrays against the model at IZR x.
  [X-exact]    typed query points: both estimators fitted to data in whole units; pdf and cdf asked at whole numbers
               (inside, at the edges of, and 5 sd beyond the data) as Python int, list / tuple of ints, int32 / int64
               arrays and scalars, float32 -- every answer must equal, as an exact rational (Coq), the answer to the
               float64 request of the same values and shape (float32: 1e-6 relative).  Oracle: cdf at the point vs
               the integral of the density up to it.
  [R]          every skewed sample of the metamorphic runs is also fitted as its MIRROR IMAGE (transforms with
               a < 0: ends swap, skewness changes sign), left-skewed base samples (-expn, -gamma, ...) go through the
               shifts / scales, and the sweep has left-skewed entries; the cdf is read as a VALUE: single points
               (one per call) inside and 3 sd beyond the data, and 14 / 1e3 / 1e6 sd below and above the data, alone
               and both in one unsorted call: 0 and the total to within 0.02.
"""
from __future__ import annotations

import json
import math
import os
import time
import warnings
from fractions import Fraction

import numpy as np

from lib import common as C
from lib import interval as I

PROP = "C19"
THEOREMS = ["C19_moments_shift_scale", "C19_kurtosis_invariant", "C19_skewness_sq_invariant",
            "C19_pinned_mean_shift", "C19_pinned_mean_shift_iff", "C19_kde_mean_shift_refuted",
            "C19_central_moment_identity", "C19_family_affine", "C19_family_affine_log",
            "C19_family_norm_affine", "C19_hdi_cost_zero_iff", "C19_hdi_cost_nonneg",
            "C19_hdi_cost_q_correct", "C19_hdi_cost_small_bounds", "C19_confined_interval_mass",
            "C19_width_limited_search_misses", "C19_restricted_search_misses",
            "C19_check_interval_sound", "C19_check_interval_complete_mass"]
# Properties/C19Cdf.v: the cdf as a value, integration limits, mirror image of the family, typed query points
THEOREMS_CDF = ["C19_family_reflect_log", "C19_family_norm_reflect", "C19_family_reflect",
                "C19_lwr_limit_reflect", "C19_upr_limit_reflect", "C19_lwr_limit_affine", "C19_upr_limit_affine",
                "C19_limits_four_widths", "C19_samesign_limit_refuted",
                "C19_cdf_values", "C19_cdf_base_bounds", "C19_cdf_value_error", "C19_cdf_single_point_error",
                "C19_cdf_accurate_iff", "C19_cdf_differences_exact", "C19_cdf_below_limit",
                "C19_typed_eval_float", "C19_typed_eval_dtype_irrelevant", "C19_like_buffer_truncates",
                "C19_like_buffer_refuted"]

HEADER = """From Coq Require Import List ZArith QArith.
From IT Require Import Model.Moments.
Import ListNotations.
Open Scope Q_scope.
"""

GOAL_PREAMBLE = """Set Warnings "-ambiguous-paths".
From Coq Require Import Reals List.
From Interval Require Import Tactic.
From IT Require Import RealModel.Unimodal.
Import ListNotations.
Open Scope R_scope.
Lemma abs_pow_pos z q : 0 < z -> abs_pow z q = exp (q * ln z).
Proof. intros H. unfold abs_pow. destruct (Req_EM_T z 0) as [E|E]; [exfalso; apply (Rlt_irrefl 0); rewrite <- E at 2; exact H|].
  rewrite Rabs_pos_eq by (left; exact H). reflexivity. Qed.
Lemma abs_pow_neg z q : z < 0 -> abs_pow z q = exp (q * ln (- z)).
Proof. intros H. unfold abs_pow. destruct (Req_EM_T z 0) as [E|E]; [exfalso; apply (Rlt_irrefl 0); rewrite <- E at 1; exact H|].
  rewrite Rabs_left by exact H. reflexivity. Qed.
Ltac uni_unfold := unfold log_pdf_model, log_pdf_of_z, zscore; cbn [t_x0 t_s0 t_lnv t_f t_k t_q]; cbv zeta.
Ltac uni_goal_pos := uni_unfold; rewrite abs_pow_pos by (unfold tanh, sinh, cosh; interval with (i_prec 60));
  unfold tanh, sinh, cosh; interval with (i_prec 90).
Ltac uni_goal_neg := uni_unfold; rewrite abs_pow_neg by (unfold tanh, sinh, cosh; interval with (i_prec 60));
  unfold tanh, sinh, cosh; interval with (i_prec 90).
"""


def mods():
    from inference.pdf.kde import GaussianKDE
    from inference.pdf.unimodal import UnimodalPdf
    from inference.pdf.base import DensityEstimator
    return GaussianKDE, UnimodalPdf, DensityEstimator


# ---------------------------------------------------------------- 1. moments on tables
def table_cases(r, quick):
    """(lo, hi, h, curve parameters) for the stub estimator; N even exercises the
    last-interval correction of scipy's simpson."""
    out = []
    shifts = [0.0, 1024.0, float(2 ** 20), 1e6]
    scales = [1.0, 2.0 ** -10, 2.0 ** 10]
    n_cases = 16 if quick else 96
    for k in range(n_cases):
        sc = r.choice(scales)
        sh = shifts[k % 4] * (sc if r.random() < 0.5 else 1.0)
        N = [5, 6, 8, 9, 13, 17, 20, 24][k % 8] if quick else r.randint(4, 48)
        delta = sc * r.choice([1.0, 0.75, 0.5, 0.3]) * 8.0 / (N - 1)
        lo = sh - delta * ((N - 1) // 2) - sc * r.choice([0.0, 0.25])
        hi = lo + delta * (N - 1)
        h = 5.0 * (hi - lo) / (N + 0.5)
        mass = r.choice([1.0, 0.9997, 0.98, 1.01])
        out.append(dict(lo=lo, hi=hi, h=h, N=N, sc=sc, sh=sh, mass=mass,
                        skew=r.choice([0.0, 0.6, -0.4]), w2=r.choice([0.0, 0.3])))
    return out


def curve(par):
    sc, sh = par["sc"], par["sh"]

    def fn(x):
        z = (x - sh) / sc
        p = np.exp(-0.5 * (z - par["skew"]) ** 2) + par["w2"] * np.exp(-0.5 * ((z + 1.5) / 0.5) ** 2)
        p = p * (1 + 0.2 * par["skew"] * z / (1 + z * z))
        area = math.sqrt(2 * math.pi) * (1 + par["w2"] * 0.5)
        p = par["mass"] * p / area
        return np.round(p * 2.0 ** 30) / (2.0 ** 30 * sc)
    return fn


def run_table_case(par):
    GaussianKDE, _, _ = mods()

    class Stub(GaussianKDE):
        def __init__(self):
            self.lwr_limit, self.upr_limit, self.h = par["lo"], par["hi"], par["h"]
            self.rec = None

        def __call__(self, x):
            x = np.atleast_1d(np.asarray(x, dtype=float))
            p = curve(par)(x)
            self.rec = (x.copy(), p.copy())
            return p
    s = Stub()
    try:
        with warnings.catch_warnings():
            warnings.simplefilter("ignore")
            out = GaussianKDE.moments(s)
        obs = [C.frac(float(v)) for v in out]
    except Exception as e:
        return {"status": "exception", "error": repr(e)[:300]}
    x, p = s.rec
    return {"status": "ok", "x": [C.frac(v) for v in x], "p": [C.frac(v) for v in p], "obs": obs,
            "span": C.frac(float(par["hi"] - par["lo"]))}


# ---------------------------------------------------------------- 2. sample moments
def sample_cases(r, quick):
    out = []
    for k in range(24 if quick else 200):
        n = r.randint(3, 60)
        kind = r.choice(["sym", "skew", "ties"])
        if kind == "sym":
            xs = [C.dyadic(r, 10, 0) for _ in range(n)]
        elif kind == "skew":
            xs = [Fraction(r.randint(0, 31) ** 2, 64) for _ in range(n)]
        else:
            xs = [Fraction(r.randint(-3, 3)) for _ in range(n)]
        if len(set(xs)) < 2:
            xs[0] += 1
        off = [0, 2 ** 10, 2 ** 20, -2 ** 20][k % 4]
        sc = r.choice([1, Fraction(1, 1024), 1024])
        out.append([sc * (x + off) for x in xs])
    return out


def run_sample_case(xs):
    _, UnimodalPdf, _ = mods()
    try:
        with warnings.catch_warnings():
            warnings.simplefilter("ignore")
            mu, sig, skew = UnimodalPdf.sample_moments(np.array([float(x) for x in xs]))
        return {"status": "ok", "obs": [C.frac(float(mu)), C.frac(float(sig)), C.frac(float(skew))]}
    except Exception as e:
        return {"status": "exception", "error": repr(e)[:300]}


# ---------------------------------------------------------------- 3. interval cost
def cost_cases(r, quick):
    _, _, DensityEstimator = mods()
    out = []
    for k in range(40 if quick else 300):
        vals = {n: C.dyadic(r, 8, 0) for n in ("Pa", "Pb", "Fa", "Fb")}
        w = C.dyadic(r, 6, 0)
        f = Fraction(r.randint(1, 63), 64)
        c, wd = C.dyadic(r, 8, 0), abs(C.dyadic(r, 8, 0)) + Fraction(1, 4)
        if k % 5 == 0:
            vals["Pb"] = vals["Pa"]
            vals["Fb"] = vals["Fa"] + f

        class Stub(DensityEstimator):
            sample = np.zeros(3)
            mode = 0.0

            def __call__(self, x):
                return np.array([float(vals["Pa"]), float(vals["Pb"])])

            def cdf(self, x):
                return np.array([float(vals["Fa"]), float(vals["Fb"])])

            def moments(self):
                return (0, 1, 0, 0)
        try:
            got = Stub()._DensityEstimator__hdi_cost((float(c), float(wd)), float(f), float(w))
            out.append((w, vals, f, C.frac(float(got)), None))
        except Exception as e:
            out.append((w, vals, f, None, repr(e)[:200]))
    return out


# ---------------------------------------------------------------- 4. the family, by interval goals
def family_goals(r, quick):
    _, UnimodalPdf, _ = mods()
    goals, info = [], {}
    for k in range(16 if quick else 120):
        x0 = r.choice([0.0, 3.5, 1e3, 1e6]) + r.uniform(-1, 1)
        s0 = r.choice([1.0, 0.37, 1e-6, 2.5e5]) * r.uniform(0.5, 2)
        th = [x0, s0, r.uniform(0.0, 4.0), r.uniform(-2.5, 2.5), r.uniform(0.3, 15.0), r.uniform(1.0, 6.0)]
        z0 = r.choice([-1, 1]) * 10 ** r.uniform(-1.5, 1.0)
        x = x0 + s0 * z0
        if x == x0:
            continue
        with warnings.catch_warnings():
            warnings.simplefilter("ignore")
            got = float(UnimodalPdf.log_pdf_model(None, np.float64(x), np.array(th)))
        th_c = "(Build_theta " + " ".join(C.cR(v) for v in th) + ")"
        tol = abs(C.frac(got)) / 10 ** 9 + Fraction(1, 10 ** 12)
        st = f"Rabs (log_pdf_model {C.cR(x)} {th_c} - {C.cR(got)}) <= {C.cR(tol)}"
        gid = f"fam_{k}"
        goals.append((gid, st, "uni_goal_pos" if x > x0 else "uni_goal_neg"))
        info[gid] = (x, th, got)
    # the same method asked about WHOLE-NUMBER points of every type a caller may hold them in: the
    # model's value at IZR x (RealModel.UnimodalCdf.qval) must be reproduced whatever the type
    forms = [("Python int", int), ("int64 scalar", np.int64), ("int32 scalar", np.int32), ("float32 scalar", np.float32),
             ("list of ints", lambda v: [int(v)]), ("int64 array", lambda v: np.array([v], dtype=np.int64)),
             ("int32 array", lambda v: np.array([v], dtype=np.int32)), ("float32 array", lambda v: np.array([v], dtype=np.float32))]
    for k in range(8 if quick else 48):
        x0 = r.choice([0.0, 3.5, 1e3, 1e6]) + r.uniform(-1, 1)
        s0 = r.choice([1.0, 40.0, 2.5e5]) * r.uniform(0.5, 2)
        th = [x0, s0, r.uniform(0.0, 4.0), r.uniform(-2.5, 2.5), r.uniform(0.3, 15.0), r.uniform(1.0, 6.0)]
        z0 = r.choice([-1, 1]) * 10 ** r.uniform(-0.5, 1.0)
        xi = int(round(x0 + s0 * z0))
        if not (0.03 <= abs(xi - x0) / s0 <= 12.0) or abs(xi) >= 2 ** 24:
            continue
        form, conv = forms[k % len(forms)]
        try:
            with warnings.catch_warnings():
                warnings.simplefilter("ignore")
                got = float(np.atleast_1d(UnimodalPdf.log_pdf_model(None, conv(xi), np.array(th)))[0])
        except Exception as e:
            got = float("nan")
        gid = f"famtyped_{k}"
        if got != got:
            goals.append((gid, "False", "idtac"))       # raising / nan on a typed point: reported as a failed goal
            info[gid] = (f"{form} {xi}", th, got)
            continue
        th_c = "(Build_theta " + " ".join(C.cR(v) for v in th) + ")"
        tol = abs(C.frac(got)) / 10 ** 9 + Fraction(1, 10 ** 12)
        st = f"Rabs (log_pdf_model {C.cR(xi)} {th_c} - {C.cR(got)}) <= {C.cR(tol)}"
        goals.append((gid, st, "uni_goal_pos" if xi > x0 else "uni_goal_neg"))
        info[gid] = (f"{form} {xi}", th, got)
    return goals, info


def family_affine_failures(r):
    """[R] evaluate_model(a x + b; theta') = evaluate_model(x; theta) / a on the real code."""
    _, UnimodalPdf, _ = mods()
    u = object.__new__(UnimodalPdf)
    u.sd, u.n_nodes = 0.2, 128
    k = np.linspace(1, 128, 128)
    t = np.cos(0.5 * np.pi * ((2 * k - 1) / 128))
    u.u = t / (1.0 - t ** 2)
    u.w = (np.pi / 128) * (1 + t ** 2) / (0.2 * (1 - t ** 2) ** 1.5)
    bad = []
    for _ in range(20):
        th = np.array([r.uniform(-2, 2), r.uniform(0.5, 2), r.uniform(0.0, 4.0), r.uniform(-2, 2),
                       r.uniform(0.5, 10.0), r.uniform(1.0, 6.0)])
        a, b = 10 ** r.uniform(-6, 6), r.choice([0.0, 1e3, -1e6])
        th2 = th.copy()
        th2[0], th2[1] = a * th[0] + b, a * th[1]
        x = th[0] + th[1] * np.array([-3.0, -0.5, 0.2, 2.0])
        with warnings.catch_warnings():
            warnings.simplefilter("ignore")
            p1 = u.evaluate_model(x, th)
            p2 = u.evaluate_model(a * x + b, th2) * a
        if not np.allclose(p1, p2, rtol=1e-6 + 1e-9 * abs(b) / (a * th[1]), atol=0):
            bad.append(f"evaluate_model is not affine-covariant for a={a!r}, b={b!r}, theta={th.tolist()}: {p1.tolist()} vs {p2.tolist()}")
            break
    return bad


# ---------------------------------------------------------------- 5. [R] metamorphic runs
def gen_sample(kind, n, r):
    if kind.startswith("-"):    # mirror image: the same draws, negated (left-skewed for gamma / lognormal / expn)
        return -gen_sample(kind[1:], n, r)
    if kind == "normal":
        return np.array([r.gauss(0, 1) for _ in range(n)])
    if kind == "gamma":
        return np.array([r.gammavariate(3, 1) for _ in range(n)])
    if kind == "t5":
        return np.array([r.gauss(0, 1) / math.sqrt(sum(r.gauss(0, 1) ** 2 for _ in range(5)) / 5) for _ in range(n)])
    if kind == "lognormal":
        return np.array([math.exp(0.4 * r.gauss(0, 1)) for _ in range(n)])
    if kind == "expn":      # normal + exponential: smooth, skewed, exponential right tail
        return np.array([r.gauss(0, 1) + r.expovariate(0.5) for _ in range(n)])
    raise ValueError(kind)


def estimator_stats(cls, s):
    """Everything C19 talks about, measured on one fitted estimator."""
    with warnings.catch_warnings():
        warnings.simplefilter("ignore")
        e = cls(s)
        sd, loc = float(np.std(s)), float(np.mean(s))
        st = {"sd": sd, "loc": loc, "mode": float(e.mode)}
        st["moments"] = [float(v) for v in e.moments()]
        x = np.linspace(loc - 14 * sd, loc + 14 * sd, 7001)
        p = np.atleast_1d(e(x))
        w = 0.5 * (p[1:] + p[:-1]) * np.diff(x)
        integ = np.concatenate([[0.0], np.cumsum(w)])
        st["norm"] = float(integ[-1])
        st["pmode_ratio"] = float(e(e.mode) / p.max())
        # the evaluation points are deliberately NOT sorted (and not a product of swaps of the sorted
        # order): every value must belong to its own abscissa whatever the order of the array
        xs = np.array([loc + q * sd for q in (0.0, 1.0, -2.0, 2.0, -1.0)])
        c = np.atleast_1d(e.cdf(xs))
        st["cdf_err"] = float(np.max(np.abs(c - np.interp(xs, x, integ))))
        st["cdf_monotone"] = bool(np.all(np.diff(c[np.argsort(xs)]) >= -1e-9))
        # the cumulative function read as a VALUE, one point per call (differences between the
        # elements of one array call are integrated point to point and cannot see a misplaced
        # lower integration limit: C19_cdf_differences_exact / C19_cdf_value_error) ...
        Z = float(integ[-1])
        reads = []          # (what, x, got, expected)
        for q in (-1.5, 0.4, 1.3):
            xq = loc + q * sd
            reads.append(("single point", xq, float(e.cdf(xq)), float(np.interp(xq, x, integ))))
        for xq in (float(np.min(s)) - 3 * sd, float(np.max(s)) + 3 * sd):
            expd = float(np.interp(xq, x, integ)) if x[0] <= xq <= x[-1] else (0.0 if xq < x[0] else Z)
            reads.append(("single point beyond the data", xq, float(e.cdf(xq)), expd))
        # ... and far below / above the data, alone and in one (unsorted) call
        for Q in FAR_SD:
            xl, xh = loc - Q * sd, loc + Q * sd
            reads.append((f"single point {Q:g} sd below", xl, float(e.cdf(xl)), 0.0))
            reads.append((f"single point {Q:g} sd above", xh, float(e.cdf(xh)), Z))
            pair = np.atleast_1d(e.cdf(np.array([xh, xl])))
            reads.append((f"array call, point {Q:g} sd above", xh, float(pair[0]), Z))
            reads.append((f"array call, point {Q:g} sd below", xl, float(pair[1]), 0.0))
        def _err(t):
            return float(abs(t[2] - t[3])) if t[2] == t[2] else float("inf")
        # near (inside the +-14 sd grid) and far reads are judged separately, so that each names its own failing input
        near = [t for t in reads if abs(t[1] - loc) <= 14.0 * sd * (1 + 1e-9)]
        far = [t for t in reads if t not in near]
        st["cdf_value_worst"] = max(near, key=_err)
        st["cdf_value_err"] = _err(st["cdf_value_worst"])
        st["cdf_far_worst"] = max(far, key=_err)
        st["cdf_far_err"] = _err(st["cdf_far_worst"])
        if hasattr(e, "MAP"):
            st["limits"] = ([float(v) for v in e.MAP], float(e.lwr_limit), float(e.upr_limit))
            # probability the estimated density carries below / above its own integration limits
            # (C19_cdf_value_error: this IS the amount every value of the cdf is short by)
            st["outside_limits"] = (float(np.interp(e.lwr_limit, x, integ)), Z - float(np.interp(e.upr_limit, x, integ)))
        # moments of the estimator's own density, by brute force on the wide grid
        xm = 0.5 * (x[1:] + x[:-1])
        m1 = float(np.sum(w * xm) / Z)
        v = float(np.sum(w * (xm - m1) ** 2) / Z)
        st["own_moments"] = [m1, v, float(np.sum(w * (xm - m1) ** 3) / Z / v ** 1.5),
                             float(np.sum(w * (xm - m1) ** 4) / Z / v ** 2 - 3.0)]
        for f in (0.5, 0.9):
            lo, hi = e.interval(f)
            cc = np.atleast_1d(e.cdf(np.array([lo, hi])))
            pp = np.atleast_1d(e(np.array([lo, hi])))
            st[f"int{f}"] = (float(lo), float(hi))
            st[f"mass{f}"] = float(cc[1] - cc[0])
            st[f"ends{f}"] = float(abs(pp[0] - pp[1]) / p.max())
    return st


def self_consistency_failures(st, name, heavy):
    bad = []
    sd = st["sd"]
    if abs(st["norm"] - 1) > 0.003:   # clean runs are within 1e-4 (measured); a stale normaliser moves it by several 1e-3 or more
        bad.append(f"{name}: density integrates to {st['norm']:.4f}")
    if st["cdf_err"] > 0.02 or not st["cdf_monotone"]:
        bad.append(f"{name}: cdf differs from the integral of the pdf by {st['cdf_err']:.3g}")
    for key in ("cdf_value", "cdf_far"):
        if not st[key + "_err"] <= 0.02:
            what, xq, got, expd = st[key + "_worst"]
            bad.append(f"{name}: cdf({xq!r}) = {got!r} ({what}) but the density integrates to {expd:.5f} up to there"
                       + (f"; its integration limits ({st['limits'][1]!r}, {st['limits'][2]!r}) leave {st['outside_limits'][0]:.4f} "
                          f"below and {st['outside_limits'][1]:.4f} above" if "limits" in st else ""))
    if st["pmode_ratio"] < 0.9:
        bad.append(f"{name}: density at the reported mode is {st['pmode_ratio']:.3f} of the maximum")
    for f in (0.5, 0.9):
        if abs(st[f"mass{f}"] - f) > 0.03:
            bad.append(f"{name}: interval({f}) holds mass {st[f'mass{f}']:.4f}")
        if st[f"ends{f}"] > 0.15:
            bad.append(f"{name}: interval({f}) end densities differ by {st[f'ends{f}']:.3f} of the peak")
    m, o = st["moments"], st["own_moments"]
    if abs(m[0] - o[0]) > 0.05 * sd:
        bad.append(f"{name}: mean {m[0]!r} but the density's own mean is {o[0]!r} (sd {sd:.3g})")
    if not heavy:
        if abs(m[1] / o[1] - 1) > 0.1:
            bad.append(f"{name}: variance {m[1]!r} but the density's own variance is {o[1]!r}")
        if abs(m[2] - o[2]) > 0.3:
            bad.append(f"{name}: skewness {m[2]:.3f} vs own {o[2]:.3f}")
        if abs(m[3] - o[3]) > 1.0:
            bad.append(f"{name}: excess kurtosis {m[3]:.3f} vs own {o[3]:.3f}")
    return bad


def covariance_failures(st, st2, a, b, name):
    bad = []
    sd = abs(a) * st["sd"]
    sgn = 1.0 if a > 0 else -1.0       # a < 0: mirror image -- ends swap, skewness changes sign
    tag = f"{name}, data -> {a}*x + {b}"
    if abs(st2["mode"] - (a * st["mode"] + b)) > 0.6 * sd:
        bad.append(f"{tag}: mode {st2['mode']!r} instead of {a * st['mode'] + b!r} (sd {sd:.3g})")
    m, m2 = st["moments"], st2["moments"]
    if not abs(m2[0] - (a * m[0] + b)) <= 0.03 * sd:
        bad.append(f"{tag}: mean {m2[0]!r} instead of {a * m[0] + b!r} (sd {sd:.3g})")
    if not abs(m2[1] / (a * a * m[1]) - 1) <= 0.05:
        bad.append(f"{tag}: variance {m2[1]!r} instead of {a * a * m[1]!r}")
    if not abs(m2[2] - sgn * m[2]) <= 0.2 + 0.15 * abs(m[2]):
        bad.append(f"{tag}: skewness {m2[2]:.4g} instead of {sgn * m[2]:.4g}")
    # the fitted estimators come out of Nelder-Mead with absolute tolerances, so the shape moments of
    # two fits of affinely related data agree only to the optimiser's noise, which grows with the
    # size of the moment itself (measured: 0.74 on a kurtosis of 3.1 for a lognormal sample)
    if not abs(m2[3] - m[3]) <= 0.5 + 0.35 * abs(m[3]):
        bad.append(f"{tag}: excess kurtosis {m2[3]:.4g} instead of {m[3]:.4g}")
    for f in (0.5, 0.9):
        for i in (0, 1):
            want = a * st[f"int{f}"][i if a > 0 else 1 - i] + b
            if not abs(st2[f"int{f}"][i] - want) <= 0.2 * sd:
                bad.append(f"{tag}: interval({f}) end {st2[f'int{f}'][i]!r} instead of {want!r}")
                break
    return bad


TRANSFORMS = [(1.0, 1e3), (1.0, 1e6), (1e-6, 0.0), (1e6, 0.0), (1e-3, 1e3), (37.0, -1e6)]
# mirror images (C19_family_reflect, C19_lwr_limit_reflect, C19_moments_shift_scale with a < 0): every
# skewed sample of every run is also fitted reflected, so that left-skewed data occur wherever
# right-skewed data do
REFLECTIONS = [(-1.0, 0.0), (-1e-6, 5.0), (-37.0, 1e6), (-1.0, 1e3)]
SKEWED = ("gamma", "lognormal", "expn")
FAR_SD = (14.0, 1e3, 1e6)      # how far from the data (in sample standard deviations) the cdf is read


def metamorphic_case(est, kind, n, stream, transforms, collect=None):
    """Returns list of failure strings for one seeded sample.  `collect` (a list) receives
    (transform, (MAP, lwr_limit, upr_limit), probability outside the limits) of every unimodal fit."""
    GaussianKDE, UnimodalPdf, _ = mods()
    cls = GaussianKDE if est == "kde" else UnimodalPdf
    r = C.rng_for(PROP, stream)
    s = gen_sample(kind, n, r)
    heavy = kind.lstrip("-") in ("t5", "lognormal", "expn")     # heavy (exponential / power-law) right/both tails: higher moments are dominated by the tail cut-off
    bad = []
    try:
        st = estimator_stats(cls, s)
    except Exception as e:
        return [f"{est} on a {kind} sample of {n}: raises {e!r}"[:300]]
    bad += self_consistency_failures(st, f"{est}/{kind}/{n}", heavy)
    if collect is not None and "limits" in st:
        collect.append(((1.0, 0.0), st["limits"], st["outside_limits"]))
    for a, b in transforms:
        try:
            st2 = estimator_stats(cls, a * s + b)
        except Exception as e:
            bad.append(f"{est}/{kind}/{n}, data -> {a}*x + {b}: raises {e!r}"[:300])
            continue
        if collect is not None and "limits" in st2:
            collect.append(((a, b), st2["limits"], st2["outside_limits"]))
        bad += self_consistency_failures(st2, f"{est}/{kind}/{n} [{a}*x + {b}]", heavy)
        bad += covariance_failures(st, st2, a, b, f"{est}/{kind}/{n}")
    return bad


# ---------------------------------------------------------------- 5b. mode sweep (few-hundred-point samples, every scale)
MODE_TRANSFORMS = [(1.0, 0.0)] + TRANSFORMS
MODE_KINDS = ("normal", "gamma", "t5")


def mode_sweep_case(kind, n, stream, tr):
    """[R] "The reported mode is a point of maximal estimated density" on a kernel estimate of a few hundred
    points, where the estimate has local bumps and a search that is bracketed too tightly, or whose tolerance
    does not follow the scale of the data, stops beside the peak.  Same threshold as everywhere else (0.9 of
    the largest density on a 4001-point grid over the sample range; measured on the repaired tree: >= 0.98)."""
    GaussianKDE, _, _ = mods()
    s = tr[0] * gen_sample(kind, n, C.rng_for(PROP, stream)) + tr[1]
    with warnings.catch_warnings():
        warnings.simplefilter("ignore")
        e = GaussianKDE(s)
        x = np.linspace(float(s.min()), float(s.max()), 4001)
        p = np.atleast_1d(e(x))
        k = int(np.argmax(p))
        ratio = float(e(e.mode)) / float(p[k])
    if not ratio >= 0.9:
        return [f"kde/{kind}/{n} [{tr[0]}*x + {tr[1]}]: density at the reported mode {float(e.mode)!r} is {ratio:.3f} of the "
                f"density at {float(x[k])!r}"]
    return []


# ---------------------------------------------------------------- 6. interval sweep (small samples, all fractions)
SWEEP_TIGHT = Fraction(3, 1000)     # mass error above this needs the returned point to be a local optimum of its cost
SWEEP_LOOSE = Fraction(1, 100)      # mass error above this always alarms
SWEEP_ENDS = Fraction(1, 50)        # on wt * (Pa - Pb) = 0.2 * (end-density mismatch / peak): 10 % of the peak
#   measured on the repaired tree (D32 + D33), 24000 intervals (160 seeds): mass error <= 1.5e-3 in the sweep
#   (<= 3e-7 unless an end sits on a hard edge / zero-density gap of the fitted density, where the cost has no
#   zero; 2.8e-3 is the largest seen anywhere, at a local optimum of the cost), mismatch <= 3.4 % of the peak,
#   nothing rejected; with the seeded bounds on the search every one of 20 seeds rejects 6..13 intervals
SWEEP_RTOL, SWEEP_ATOL = Fraction(1, 10 ** 6), Fraction(1, 10 ** 22)   # float cost vs exact cost of the same end values
SWEEP_TRANSFORMS = [(1.0, 0.0)] + TRANSFORMS
SWEEP_BASE = [("kde", "normal"), ("kde", "gamma"), ("kde", "expn"), ("kde", "t5"),
              ("uni", "normal"), ("uni", "gamma"), ("uni", "expn"), ("uni", "lognormal"),
              ("uni", "-gamma"), ("kde", "-expn")]      # left-skewed: mirror images


def sweep_plan(r, quick):
    """(estimator, kind, n, (a, b)) -- every transform is used in every run."""
    out = []
    off = r.randrange(len(SWEEP_TRANSFORMS))
    reps = 1 if quick else 4
    for rep_i in range(reps):
        for j, (est, kind) in enumerate(SWEEP_BASE):
            n = r.randint(120, 400) if quick else r.randint(120, 900)
            out.append((est, kind, n, SWEEP_TRANSFORMS[(j + off + 3 * rep_i) % len(SWEEP_TRANSFORMS)]))
    return out


def recording_class(cls):
    """The real estimator, with the values its pdf / cdf hand to __hdi_cost recorded."""
    class Rec(cls):
        _log = None

        def __call__(self, x):
            out = cls.__call__(self, x)
            if self._log is not None:
                self._log.append(("P", np.array(out, dtype=float).ravel().copy()))
            return out

        def cdf(self, x):
            out = cls.cdf(self, x)
            if self._log is not None:
                self._log.append(("F", np.array(out, dtype=float).ravel().copy()))
            return out
    Rec.__name__ = cls.__name__
    return Rec


def real_cost(e, c, w, f, wt):
    """The real __hdi_cost at (c, w) and the end values it read."""
    e._log = []
    try:
        cost = float(e._DensityEstimator__hdi_cost((c, w), f, wt))
        P = next(v for k, v in e._log if k == "P" and v.size == 2)
        F = [v for k, v in e._log if k == "F" and v.size == 2][-1]
    finally:
        e._log = None
    return cost, (float(P[0]), float(P[1]), float(F[0]), float(F[1]))


def widest_window_mass(e, s):
    """max over x of cdf(x + R) - cdf(x), R = range of the sample, on the estimator's own cdf."""
    lo, hi = float(s.min()), float(s.max())
    R = hi - lo
    xs = np.linspace(lo - 0.5 * R, lo + 0.5 * R, 41)
    F = np.atleast_1d(e.cdf(np.concatenate([xs, xs + R])))
    return float(np.max(F[41:] - F[:41])), float(F[41 + 20] - F[20])


def sweep_fractions(r, n):
    return [("below 1/n", r.uniform(0.2, 0.95) / n), ("few/n", r.uniform(1.2, 6.0) / n),
            ("mid", r.uniform(0.02, 0.2)), ("mid", r.uniform(0.2, 0.6)), ("mid", 0.6827),
            ("mid", r.uniform(0.8, 0.97)), ("0.99", 0.99), (">=0.995", r.uniform(0.995, 0.9995))]


def probe_points(c, w, unit):
    pts = []
    for eta in (0.01, 0.03, 0.1, 0.3):
        d = eta * unit
        pts += [(c, w + d), (c, max(w - d, 0.0)), (c + 0.5 * d, w), (c - 0.5 * d, w),
                (c + 0.5 * d, w + d), (c - 0.5 * d, w + d)]
    return pts


def interval_case(e, s, f, tag):
    """One call of the real interval(f) on the fitted estimator e; everything the judgement needs."""
    sd = float(np.std(s))
    rec = {"f": f, "tag": tag}
    with warnings.catch_warnings():
        warnings.simplefilter("ignore")
        try:
            lo, hi = (float(v) for v in e.interval(f))
            rec["interval"] = (lo, hi)
            c, w = 0.5 * (lo + hi), hi - lo
            wt = 0.2 / float(e(e.mode))
            cost, (Pa, Pb, Fa, Fb) = real_cost(e, c, w, f, wt)
            rec.update(wt=wt, cost=cost, ends=(Pa, Pb, Fa, Fb), mass=Fb - Fa)
            probes = []
            if not abs(Fb - Fa - f) <= float(SWEEP_TIGHT):
                for c2, w2 in probe_points(c, w, max(w, 0.05 * sd)):
                    try:
                        probes.append(real_cost(e, c2, w2, f, wt)[0])
                    except Exception:
                        pass
                probes = [v for v in probes if v == v and abs(v) != float("inf")]
            rec["probes"] = probes
            vals = [wt, Pa, Pb, Fa, Fb, f, cost] + probes
            rec["q"] = [C.frac(v) for v in vals]
            rec["status"] = "ok"
        except Exception as ex:
            rec["status"] = "exception"
            rec["error"] = repr(ex)[:300]
    return rec


def sweep_case(est, kind, n, tr, stream, only_fraction=None):
    """Fit the real estimator to a seeded small sample under the transform and call interval(f)
    over the whole range of fractions.  Returns (records, info)."""
    GaussianKDE, UnimodalPdf, _ = mods()
    cls = recording_class(GaussianKDE if est == "kde" else UnimodalPdf)
    r = C.rng_for(PROP, stream)
    z = gen_sample(kind, n, r)
    a, b = tr
    s = a * z + b
    fr = sweep_fractions(r, n)
    info = {"sd": float(np.std(s))}
    with warnings.catch_warnings():
        warnings.simplefilter("ignore")
        try:
            e = cls(s)
            Mw, Mrange = widest_window_mass(e, s)
            info.update(window_mass=Mw, range_mass=Mrange)
            if 0.5 < Mw < 1.0:
                fr.append(("above every sample-range window", min(Mw + 0.85 * (1.0 - Mw), 0.9997)))
        except Exception as ex:
            return [{"status": "exception", "error": "fitting raises " + repr(ex)[:300], "f": None, "tag": "fit"}], info, None, s
    if only_fraction is not None:
        fr = [(t, f) for t, f in fr if abs(f - only_fraction) <= 1e-12 * only_fraction] or [("replayed", only_fraction)]
    return [interval_case(e, s, f, tag) for tag, f in fr], info, e, s


def interval_property_failures(est, kind, n, tr, stream, f):
    """The property itself on the real code, for one fraction: the interval must hold f under the
    estimator's own cdf, the cdf must be the integral of the pdf over it, the end densities equal."""
    recs, info, e, s = sweep_case(est, kind, n, tr, stream, only_fraction=f)
    rec = recs[0]
    name = f"{est} fitted to the seeded {kind} sample of {n} under x -> {tr[0]}*x + {tr[1]}"
    if e is None:
        return [f"{name}: {rec['error']}"]
    if rec["status"] != "ok":
        return [f"{name}: interval({rec['f']!r}) raises {rec['error']}"]
    lo, hi = rec["interval"]
    bad = []
    with warnings.catch_warnings():
        warnings.simplefilter("ignore")
        x = np.linspace(lo, hi, 20001)
        p = np.atleast_1d(e(x))
        integral = float(np.sum(0.5 * (p[1:] + p[:-1]) * np.diff(x))) if hi > lo else 0.0
        peak = float(e(e.mode))
    Pa, Pb, Fa, Fb = rec["ends"]
    mass = Fb - Fa
    better = [v for v in rec["probes"] if 2 * v < rec["cost"]]
    if abs(mass - f) > float(SWEEP_LOOSE) or (abs(mass - f) > float(SWEEP_TIGHT) and better):
        why = (f"; an interval right next to it (wider / shifted by 1-30 %) has {rec['cost'] / max(min(better), 1e-300):.3g}x "
               f"lower cost, so the search stopped or was confined short of it" if better else "")
        bad.append(f"{name}: interval({f!r}) = ({lo!r}, {hi!r}) holds {mass:.6f} under the estimator's own cdf "
                   f"(integral of its pdf over it: {integral:.6f}) instead of {f:.6f}; sample range "
                   f"({float(s.min())!r}, {float(s.max())!r}) holds {info.get('range_mass', float('nan')):.6f}{why}")
    if abs(integral - mass) > 0.003:
        bad.append(f"{name}: cdf difference over interval({f!r}) is {mass:.6f} but the pdf integrates to {integral:.6f} there")
    if abs(Pa - Pb) / peak > 0.1:
        bad.append(f"{name}: interval({f!r}) = ({lo!r}, {hi!r}) has end densities {Pa!r}, {Pb!r} "
                   f"(differ by {abs(Pa - Pb) / peak:.3f} of the peak)")
    return bad


# ---------------------------------------------------------------- 7. typed query points
#   Data in whole units; the points the estimators are asked about are whole numbers handed over as
#   a Python int, a list / tuple of ints, int32 / int64 arrays and scalars, float32 -- for every
#   method that takes points (pdf = __call__, cdf) of both estimators.  Model: RealModel.UnimodalCdf
#   typed_eval with the float64 buffer; C19_typed_eval_float says the answer depends on the VALUE of
#   the points only, so every typed answer must equal the answer to the float64 request of the same
#   values and shape (compared in Coq as exact rationals).
TYPED_UNITS = [(50.0, 10.0), (0.0, 3.0), (1.0e6, 25.0), (-4000.0, 150.0)]
TYPED_BASE = [("kde", "normal"), ("uni", "-expn"), ("kde", "-gamma"), ("uni", "normal"),
              ("kde", "expn"), ("uni", "gamma"), ("kde", "t5"), ("uni", "-lognormal")]
TYPED_F32_RTOL = Fraction(1, 10 ** 6)


def typed_plan(r, quick):
    off = r.randrange(len(TYPED_UNITS))
    base = TYPED_BASE[:4] if quick else TYPED_BASE
    return [(est, kind, r.randint(150, 400), TYPED_UNITS[(j + off) % len(TYPED_UNITS)]) for j, (est, kind) in enumerate(base)]


def typed_points(s):
    loc, sd = float(np.mean(s)), float(np.std(s))
    q = [int(round(loc + k * sd)) for k in (-2, -1, 0, 1, 2)]
    q += [int(round(float(np.min(s)) - 5 * sd)), int(round(float(np.max(s)) + 5 * sd))]
    q = [q[i] for i in (3, 0, 6, 2, 5, 4, 1)]         # not sorted
    return list(dict.fromkeys(q))


def typed_requests(q):
    """(form, shape, request): shape 'array' answers are compared with the float64 array request,
    shape i with the float64 scalar request at q[i]."""
    qa = np.array(q, dtype=np.int64)
    out = [("list of ints", "array", [int(v) for v in q]), ("tuple of ints", "array", tuple(int(v) for v in q)),
           ("int64 array", "array", qa), ("int32 array", "array", qa.astype(np.int32))]
    f32 = all(float(np.float32(v)) == float(v) for v in q)
    if f32:
        out.append(("float32 array", "array", qa.astype(np.float32)))
    for i, v in enumerate(q):
        out += [("Python int", i, int(v)), ("int64 scalar", i, np.int64(v)), ("int32 scalar", i, np.int32(v))]
        if f32:
            out.append(("float32 scalar", i, np.float32(v)))
    return out


def typed_fit(est, kind, n, unit, stream):
    GaussianKDE, UnimodalPdf, _ = mods()
    z = gen_sample(kind, n, C.rng_for(PROP, stream))
    s = unit[0] + unit[1] * z
    with warnings.catch_warnings():
        warnings.simplefilter("ignore")
        return (GaussianKDE if est == "kde" else UnimodalPdf)(s), s


def typed_case(est, kind, n, unit, stream):
    """Records (method, form, point index or None, point, observed, reference, error)."""
    try:
        e, s = typed_fit(est, kind, n, unit, stream)
    except Exception as ex:
        return None, [("fit", "", None, None, None, None, "fitting raises " + repr(ex)[:200])]
    q = typed_points(s)
    recs = []
    with warnings.catch_warnings():
        warnings.simplefilter("ignore")
        for mname, m in (("pdf", e.__call__), ("cdf", e.cdf)):
            try:
                ref_arr = [float(v) for v in np.atleast_1d(m(np.array(q, dtype=np.float64)))]
                ref_sc = [float(m(float(v))) for v in q]
            except Exception as ex:
                recs.append((mname, "float64", None, None, None, None, "raises " + repr(ex)[:200]))
                continue
            for form, shape, req in typed_requests(q):
                try:
                    got = np.atleast_1d(m(req))
                    if shape == "array":
                        if got.shape != (len(q),):
                            raise ValueError(f"answer of shape {got.shape} for {len(q)} points")
                        for i, v in enumerate(got):
                            recs.append((mname, form, i, q[i], C.frac(v), C.frac(ref_arr[i]), None))
                    else:
                        if got.shape != (1,):
                            raise ValueError(f"answer of shape {got.shape} for one point")
                        recs.append((mname, form, shape, q[shape], C.frac(got[0]), C.frac(ref_sc[shape]), None))
                except Exception as ex:
                    recs.append((mname, form, None if shape == "array" else shape, None, None, None, "raises " + repr(ex)[:200]))
    return q, recs


def typed_property_failures(est, kind, n, unit, stream, method, form, index):
    """The property on the real code for one typed request: the cdf at the point must be the integral
    of the estimated density up to it, the density a function of the location alone."""
    name = f"{est} fitted to the seeded {kind} sample of {n} in whole units (x -> {unit[0]} + {unit[1]}*x)"
    try:
        e, s = typed_fit(est, kind, n, unit, stream)
    except Exception as ex:
        return [f"{name}: fitting raises {ex!r}"[:300]]
    q = typed_points(s)
    req = {(f, sh): rq for f, sh, rq in typed_requests(q)}
    shape = "array" if (form, "array") in req else index
    if (form, shape) not in req:
        return []
    m = e.__call__ if method == "pdf" else e.cdf
    bad = []
    with warnings.catch_warnings():
        warnings.simplefilter("ignore")
        try:
            got = np.atleast_1d(m(req[(form, shape)]))
        except Exception as ex:
            return [f"{name}: {method}({form} {req[(form, shape)]!r}) raises {ex!r}"[:400]]
        loc, sd = float(np.mean(s)), float(np.std(s))
        for j, i in enumerate(range(len(q)) if shape == "array" else [shape]):
            if j >= got.size:
                break
            x = np.linspace(min(loc, q[i]) - 14 * sd, float(q[i]), 7001)
            p = np.atleast_1d(e(x))
            integral = float(np.sum(0.5 * (p[1:] + p[:-1]) * np.diff(x)))
            ask = f"{form} {req[(form, shape)]!r}" if shape == "array" else f"{form} {q[i]}"
            if method == "cdf" and not abs(float(got[j]) - integral) <= 0.02:
                bad.append(f"{name}: cdf({ask}) gives {got[j]!r} at {q[i]} but the density integrates to {integral:.5f} "
                           f"up to that point (asked with the float {float(q[i])!r}: {float(e.cdf(float(q[i])))!r})")
            if method == "pdf":
                ref = float(e(float(q[i])))
                if not abs(float(got[j]) - ref) <= 1e-6 * abs(ref) + 1e-300:
                    bad.append(f"{name}: the density at {q[i]} is {got[j]!r} when asked with {ask} "
                               f"but {ref!r} when asked with the float {float(q[i])!r}")
    return bad


# ---------------------------------------------------------------- 8. integration limits of the fitted unimodal model
LIMIT_PREAMBLE = """Set Warnings "-ambiguous-paths".
From Coq Require Import Reals List.
From Interval Require Import Tactic.
From IT Require Import RealModel.Unimodal RealModel.UnimodalCdf.
Import ListNotations.
Open Scope R_scope.
Ltac limit_goal := unfold lwr_limit, upr_limit; cbn [t_x0 t_s0 t_lnv t_f t_k t_q]; split; interval with (i_prec 100).
"""


def limit_goal(gid, MAP, lwr, upr):
    x0, s0, lnv, f, k, q = MAP
    th_c = "(Build_theta " + " ".join(C.cR(v) for v in MAP) + ")"
    tol = (abs(C.frac(x0)) + abs(C.frac(s0)) * C.frac(4 * math.exp(abs(f)) + 1)) / 10 ** 12 + Fraction(1, 10 ** 300)
    st = (f"Rabs (lwr_limit {th_c} - {C.cR(lwr)}) <= {C.cR(tol)} /\\ "
          f"Rabs (upr_limit {th_c} - {C.cR(upr)}) <= {C.cR(tol)}")
    return (gid, st, "limit_goal")


def limit_property_failures(est, kind, n, stream, tr):
    """A misplaced limit shows in the cdf read as a value on the sample whose wide tail faces it:
    fit the sample AND its mirror image under the transform, read the cdf at single points."""
    _, UnimodalPdf, _ = mods()
    bad = []
    for mirror in (False, True):
        k2 = (kind[1:] if kind.startswith("-") else "-" + kind) if mirror else kind
        z = gen_sample(k2, n, C.rng_for(PROP, stream))
        s = tr[0] * z + tr[1]
        try:
            st = estimator_stats(UnimodalPdf, s)
        except Exception as ex:
            bad.append(("raises", f"uni on the seeded {k2} sample of {n} under x -> {tr[0]}*x + {tr[1]}: raises {ex!r}"[:300]))
            continue
        for key in ("cdf_value", "cdf_far"):
            if st[key + "_err"] <= 0.02:
                continue
            what, xq, got, expd = st[key + "_worst"]
            bad.append((key, f"uni fitted to the seeded {k2} sample of {n} under x -> {tr[0]}*x + {tr[1]} (fitted asymmetry f = "
                       f"{st['limits'][0][3]:.3f}): cdf({xq!r}) = {got!r} ({what}) but the density integrates to {expd:.5f} "
                       f"up to there; integration limits ({st['limits'][1]!r}, {st['limits'][2]!r}) leave "
                       f"{st['outside_limits'][0]:.4f} below and {st['outside_limits'][1]:.4f} above"))
    # reads inside / just beyond the data first: they are what a misplaced limit changes
    return [m for k, m in bad if k == "cdf_value"] + [m for k, m in bad if k != "cdf_value"]


# ---------------------------------------------------------------- Coq side
def qpairs(xs, ps):
    return C.clist([f"({C.cq(x)}, {C.cq(p)})" for x, p in zip(xs, ps)]) + "%Q"


def q4(v):
    return "(" + ", ".join(C.cq(x) for x in v) + ")"


def meta_transforms(j, kind, quick):
    tr = TRANSFORMS if not quick else [TRANSFORMS[(j + i) % len(TRANSFORMS)] for i in (0, 1, 2)] + [TRANSFORMS[1]]
    if kind.lstrip("-") in SKEWED:        # every skewed sample is also fitted as its mirror image
        tr = tr + ([REFLECTIONS[j % len(REFLECTIONS)]] if quick else [REFLECTIONS[j % len(REFLECTIONS)], REFLECTIONS[(j + 1) % len(REFLECTIONS)]])
    elif not quick:
        tr = tr + [REFLECTIONS[j % len(REFLECTIONS)]]
    return list(dict.fromkeys(tr))


def meta_plan(quick):
    plan = [("kde", "normal", 400), ("kde", "gamma", 1500), ("kde", "t5", 700),
            ("uni", "normal", 500), ("uni", "gamma", 2500), ("uni", "lognormal", 900),
            ("uni", "normal", 4500)]      # >= 4000 points: UnimodalPdf fits a sub-sample first, then re-fits
    # left-skewed base samples (mirror images of the skewed families), under shifts and scales
    plan += [("uni", "-expn", 700), ("kde", "-gamma", 500)]
    if not quick:
        plan += [("kde", "lognormal", 12000), ("uni", "t5", 800), ("uni", "normal", 20000), ("kde", "gamma", 300),
                 ("uni", "-gamma", 1200), ("uni", "-lognormal", 900), ("kde", "-lognormal", 2000), ("kde", "-expn", 400)]
    return plan


def run(rep: C.Report, tier: str) -> int:
    quick = tier == "quick"
    T0 = [time.time()]
    stages = {}

    def lap(name):
        stages[name] = round(time.time() - T0[0], 1)
        T0[0] = time.time()
        rep.coverage["stage_seconds"] = stages
    C.clean_gen(PROP)
    C.prove_and_audit(rep, PROP, THEOREMS)
    lap("audit")
    from concurrent.futures import ThreadPoolExecutor
    pool = ThreadPoolExecutor(max_workers=6)
    # Properties/C19Cdf.v is audited while the implementation runs (collected before the Coq results)
    fut_audit_cdf = pool.submit(C.coq_audit, "C19_cdf", THEOREMS_CDF, "IT.Properties.C19Cdf")
    RTOL = Fraction(1, 10 ** 6)

    # ---- tables
    r = C.rng_for(PROP, "tables")
    tcases = table_cases(r, quick)
    tobs = [run_table_case(p) for p in tcases]
    t_texts, t_idx = [], []
    for k, (par, o) in enumerate(zip(tcases, tobs)):
        rep.case(("table", sorted(par.items())), nontrivial=True)
        rep.count(f"table shift={par['sh'] / par['sc']:.3g}sd mass={par['mass']}")
        if o["status"] == "ok":
            t_texts.append(f"({qpairs(o['x'], o['p'])}, {q4(o['obs'])}, {C.cq(o['span'])})")
            t_idx.append(k)
            if k < 2:
                rep.sample({"table_x": [float(v) for v in o["x"][:5]], "table_p": [float(v) for v in o["p"][:5]],
                            "N": len(o["x"]), "moments_observed": [float(v) for v in o["obs"]]})
    files, index, kinds = [], [], []
    CH = 2
    for i in range(0, len(t_texts), CH):
        body = ("Definition cases : list (list pt * (Q * Q * Q * Q) * Q) :=\n " + C.clist(t_texts[i:i + CH], ";\n ") + ".\n"
                f"Definition chk (c : list pt * (Q * Q * Q * Q) * Q) : nat := "
                f"let '(l, obs, span) := c in check_moments l obs span {C.cq(RTOL)}.")
        files.append(C.write_case_file(PROP, f"tables_{i // CH}", HEADER, body, ["failing_codes chk cases 0"]))
        index.append(t_idx[i:i + CH])
        kinds.append("table")

    # ---- sample moments
    r = C.rng_for(PROP, "samples")
    scases = sample_cases(r, quick)
    sobs = [run_sample_case(xs) for xs in scases]
    s_texts, s_idx = [], []
    for k, (xs, o) in enumerate(zip(scases, sobs)):
        rep.case(("sample", xs), nontrivial=True)
        off = abs(float(sum(xs) / len(xs))) / (float(np.std([float(x) for x in xs])) + 1e-300)
        rep.count("sample_moments offset/sd " + ("<10" if off < 10 else "<1e4" if off < 1e4 else ">=1e4"))
        if o["status"] == "ok":
            s_texts.append("(" + C.clist([C.cq(x) for x in xs]) + "%Q, (" + ", ".join(C.cq(v) for v in o["obs"]) + "))")
            s_idx.append(k)
    CH = 12
    for i in range(0, len(s_texts), CH):
        body = ("Definition cases : list (list Q * (Q * Q * Q)) :=\n " + C.clist(s_texts[i:i + CH], ";\n ") + ".\n"
                f"Definition chk (c : list Q * (Q * Q * Q)) : nat := check_sample_moments (fst c) (snd c) {C.cq(RTOL)}.")
        files.append(C.write_case_file(PROP, f"samples_{i // CH}", HEADER, body, ["failing_codes chk cases 0"]))
        index.append(s_idx[i:i + CH])
        kinds.append("sample")

    # ---- interval cost
    r = C.rng_for(PROP, "cost")
    ccases = cost_cases(r, quick)
    c_texts = []
    for w, vals, f, got, err in ccases:
        rep.case(("cost", w, sorted(vals.items()), f), nontrivial=True)
        if got is not None:
            c_texts.append("(" + ", ".join(C.cq(v) for v in (w, vals["Pa"], vals["Pb"], vals["Fa"], vals["Fb"], f, got)) + ")")
    body = ("Definition cases : list (Q*Q*Q*Q*Q*Q*Q) :=\n " + C.clist(c_texts, ";\n ") + ".\n"
            "Definition chk (c : Q*Q*Q*Q*Q*Q*Q) : nat := let '(w, Pa, Pb, Fa, Fb, f, got) := c in "
            "if Qeq_bool (hdi_cost_q w Pa Pb Fa Fb f) got then 0%nat else 1%nat.")
    files.append(C.write_case_file(PROP, "cost_0", HEADER, body, ["failing_codes chk cases 0"]))
    index.append(list(range(len(c_texts))))
    kinds.append("cost")
    fut_cases = pool.submit(C.run_case_files, files, 8)

    # ---- family goals
    r = C.rng_for(PROP, "family")
    goals, ginfo = family_goals(r, quick)
    fut_goals = pool.submit(I.check_goals, PROP, "family", goals, GOAL_PREAMBLE, "", 8, 3, 600)
    lap("generate + run implementation")

    # ---- [R] metamorphic runs (tests)
    plan = meta_plan(quick)
    n_runs = 0
    meta_viol = []
    fitted_limits = []          # (plan index, transform, (MAP, lwr, upr), outside)
    for j, (est, kind, n) in enumerate(plan):
        tr = meta_transforms(j, kind, quick)
        stream = f"meta/{est}/{kind}/{n}"
        got = []
        bad = metamorphic_case(est, kind, n, stream, tr, got)
        fitted_limits += [(j, t, lim, out) for t, lim, out in got]
        for t in tr:
            if t[0] < 0:
                rep.count(f"[R] mirror image of {kind}")
        n_runs += 1 + len(tr)
        rep.count(f"[R] {est}/{kind}")
        rep.case(("meta", est, kind, n), nontrivial=True)
        if bad:
            meta_viol.append((bad[0] + (f" (+{len(bad) - 1} more)" if len(bad) > 1 else ""),
                              {"check": "metamorphic", "estimator": est, "kind": kind, "n": n, "stream": stream,
                               "transforms": tr, "all": bad[:8]}))
    bad = family_affine_failures(C.rng_for(PROP, "family-affine"))
    if bad:
        meta_viol.append((bad[0], {"check": "family-affine"}))
    rm = C.rng_for(PROP, "mode-sweep")
    for j in range(42 if quick else 168):
        kind, n, tr = MODE_KINDS[j % 3], rm.randint(150, 600), MODE_TRANSFORMS[j % len(MODE_TRANSFORMS)]
        stream = f"mode/{j}/{kind}"
        rep.count(f"[R] mode sweep {tr[0]:g}*x+{tr[1]:g}")
        rep.case(("mode", kind, n, tr), nontrivial=True)
        bad = mode_sweep_case(kind, n, stream, tr)
        if bad:
            meta_viol.append((bad[0], {"check": "mode-sweep", "kind": kind, "n": n, "stream": stream, "transform": list(tr)}))
            break
    rep.coverage["metamorphic_fits_R"] = n_runs
    # ---- integration limits of every unimodal fit above against RealModel.UnimodalCdf (interval goals)
    lgoals = [limit_goal(f"lim_{i}", lim[0], lim[1], lim[2]) for i, (j, t, lim, out) in enumerate(fitted_limits)]
    for j, t, lim, out in fitted_limits:
        f_ = lim[0][3]
        rep.count("limits: fitted asymmetry f " + ("< -0.3" if f_ < -0.3 else "> 0.3" if f_ > 0.3 else "in [-0.3, 0.3]"))
    rep.coverage["unimodal_limits"] = {
        "fits": len(fitted_limits),
        "largest_probability_below_lwr_limit": max([o[0] for _, _, _, o in fitted_limits], default=None),
        "largest_probability_above_upr_limit": max([o[1] for _, _, _, o in fitted_limits], default=None)}
    fut_limits = pool.submit(I.check_goals, PROP, "limits", lgoals, LIMIT_PREAMBLE, "", 8, 4, 600)
    lap("[R] metamorphic runs")

    # ---- typed query points (whole numbers as ints / int arrays / float32), both estimators, pdf and cdf
    tplan = typed_plan(C.rng_for(PROP, "typed-plan"), quick)
    typed = []          # (plan index, record)
    for j, (est, kind, n, unit) in enumerate(tplan):
        q, recs = typed_case(est, kind, n, unit, f"typed/{j}/{est}/{kind}")
        rep.case(("typed", est, kind, n, unit), nontrivial=True)
        rep.count(f"typed queries {est} data unit {unit[1]:g} at {unit[0]:g}")
        if j < 2:
            rep.sample({"typed": [est, kind, n, list(unit)], "points": q})
        for rec in recs:
            rep.count(f"typed {rec[0]} / {rec[1]}")
            typed.append((j, rec))
    ty_ok = [(j, rec) for j, rec in typed if rec[6] is None]
    ty_texts = []
    for j, rec in ty_ok:
        tol = TYPED_F32_RTOL * abs(rec[5]) + Fraction(1, 10 ** 12) if rec[1].startswith("float32") else Fraction(0)
        ty_texts.append(f"({C.cq(rec[4])}, {C.cq(rec[5])}, {C.cq(tol)})")
    typed_file = None
    if ty_texts:
        body = ("Definition cases : list (Q*Q*Q) :=\n " + C.clist(ty_texts, ";\n ") + ".\n"
                "Definition chk (c : Q*Q*Q) : nat := let '(o, ref, tol) := c in "
                "if Qle_bool (Qabs.Qabs (o - ref)) tol then 0%nat else 1%nat.")
        typed_file = C.write_case_file(PROP, "typed_0", HEADER.replace("ZArith QArith.", "ZArith QArith Qabs."), body,
                                       ["failing_codes chk cases 0"])
        fut_typed = pool.submit(C.run_case_file, typed_file)
    rep.coverage["typed_queries"] = {"estimators": len(tplan), "answers_compared": len(ty_ok),
                                     "requests_raising": len(typed) - len(ty_ok)}
    lap("typed queries")

    # ---- interval sweep: small samples, fractions over all of (0, 1), judged in Coq
    splan = sweep_plan(C.rng_for(PROP, "sweep-plan"), quick)
    sweep = []          # (plan index, stream, record)
    sweep_exc = []
    worst = {"mass": 0.0, "ends": 0.0}
    for j, (est, kind, n, tr) in enumerate(splan):
        stream = f"sweep/{j}/{est}/{kind}"
        recs, info, _, _ = sweep_case(est, kind, n, tr, stream)
        rep.case(("sweep", est, kind, n, tr), nontrivial=True)
        rep.count(f"sweep {est} n={'<200' if n < 200 else '<300' if n < 300 else '<=400' if n <= 400 else '>400'}")
        rep.count(f"sweep transform {tr[0]:g}*x+{tr[1]:g}")
        for rec in recs:
            rep.count(f"sweep fraction {rec['tag']}")
            if rec["status"] == "ok":
                sweep.append((j, stream, rec))
                worst["mass"] = max(worst["mass"], abs(rec["mass"] - rec["f"]))
                worst["ends"] = max(worst["ends"], 5.0 * abs(rec["wt"] * (rec["ends"][0] - rec["ends"][1])))
                if rec["probes"]:
                    rep.count("sweep intervals with neighbouring-cost probes")
            else:
                sweep_exc.append((j, stream, rec))
        if j < 2 and recs and recs[-1]["status"] == "ok":
            rep.sample({"sweep": [est, kind, n, list(tr)], "window_mass": info.get("window_mass"),
                        "fraction": recs[-1]["f"], "interval": recs[-1]["interval"], "mass": recs[-1]["mass"]})
    rep.coverage["interval_sweep"] = {"estimators": len(splan), "intervals": len(sweep) + len(sweep_exc),
                                      "largest_mass_error": worst["mass"], "largest_end_mismatch_of_peak": worst["ends"]}
    w_texts = []
    for j, stream, rec in sweep:
        q = rec["q"]
        w_texts.append("(" + ", ".join(C.cq(v) for v in q[:7]) + ", " + C.clist([C.cq(v) for v in q[7:]]) + ")")
    sweep_file = None
    if w_texts:
        tol = " ".join(C.cq(v) for v in (SWEEP_TIGHT, SWEEP_LOOSE, SWEEP_ENDS, SWEEP_RTOL, SWEEP_ATOL))
        body = ("Definition cases : list (Q*Q*Q*Q*Q*Q*Q*list Q) :=\n " + C.clist(w_texts, ";\n ") + ".\n"
                "Definition chk (c : Q*Q*Q*Q*Q*Q*Q*list Q) : nat := let '(wt, Pa, Pb, Fa, Fb, f, cost, probes) := c in "
                f"check_interval wt Pa Pb Fa Fb f cost probes {tol}.")
        sweep_file = C.write_case_file(PROP, "sweep_0", HEADER, body, ["failing_codes chk cases 0"])
        fut_sweep = pool.submit(C.run_case_file, sweep_file)
    lap("interval sweep")

    # ---- collect Coq results
    try:
        rep.coverage["cdf_theorems_audit"] = fut_audit_cdf.result()
        rep.obligation(True, len(THEOREMS_CDF))
    except C.ProofFailure as e:
        rep.obligation(False, len(THEOREMS_CDF))
        rep.violation("C19/proof", f"proof obligation no longer checks: {e.what}",
                      {"theorem_or_correspondence": e.what, "log": e.log[-1500:]}, False)
    outs = fut_cases.result()
    disagreements = []
    for p, idx, kind, (ok, res, log) in zip(files, index, kinds, outs):
        if not ok or 0 not in res:
            rep.obligation(False)
            rep.violation("C19/correspondence-run", f"case file {p.name} did not evaluate",
                          {"theorem_or_correspondence": f"correspondence file {p.name}", "log": log[-800:]}, False)
            continue
        rep.obligation(True)
        codes = res[0]
        for j in range(0, len(codes) - 1, 2):
            disagreements.append((kind, idx[codes[j]], codes[j + 1]))
    for k, o in enumerate(tobs):
        if o["status"] != "ok":
            disagreements.append(("table-exc", k, o["error"]))
    for k, o in enumerate(sobs):
        if o["status"] != "ok":
            disagreements.append(("sample-exc", k, o["error"]))
    for k, c in enumerate(ccases):
        if c[3] is None:
            disagreements.append(("cost-exc", k, c[4]))
    rep.coverage["exact_cases"] = {"tables": len(t_texts), "sample_moments": len(s_texts), "interval_cost": len(c_texts)}
    rep.coverage["correspondence_disagreements"] = len(disagreements)
    failed, broken = fut_goals.result()
    rep.obligation(True, len(goals) - len(failed))
    rep.obligation(False, len(failed))
    rep.coverage["family_goals"] = {"total": len(goals), "failed": len(failed)}
    for b in broken:
        rep.violation("C19/goal-run", "a goal file could not be processed",
                      {"theorem_or_correspondence": "generated interval goals (unimodal family)", "log": b[-800:]}, False)
    for gid, log in failed[:2]:
        x, th, got = ginfo[gid]
        rep.violation("C19/correspondence", f"log_pdf_model({x!r}, {th}) = {got!r} is not the model's value",
                      {"theorem_or_correspondence": "RealModel.Unimodal.log_pdf_model", "x": x, "theta": th}, False)
    # the interval sweep, judged by Model.Moments.check_interval
    sweep_viol = []
    flagged = [(j, stream, rec, "raises") for j, stream, rec in sweep_exc]
    if sweep_file is not None:
        ok, res, log = fut_sweep.result()
        if not ok or 0 not in res:
            rep.obligation(False)
            rep.violation("C19/correspondence-run", f"case file {sweep_file.name} did not evaluate",
                          {"theorem_or_correspondence": f"correspondence file {sweep_file.name}", "log": log[-800:]}, False)
        else:
            rep.obligation(True)
            codes = res[0]
            for i in range(0, len(codes) - 1, 2):
                j, stream, rec = sweep[codes[i]]
                flagged.append((j, stream, rec, codes[i + 1]))
    rep.coverage["interval_sweep"]["rejected_by_model_judgement"] = len(flagged)
    seen_est = set()
    for j, stream, rec, code in flagged:
        est, kind, n, tr = splan[j]
        if est in seen_est:
            continue
        seen_est.add(est)
        rp = {"check": "interval-sweep", "estimator": est, "kind": kind, "n": n, "transform": list(tr),
              "stream": stream, "fraction": rec["f"], "code": code}
        bad = interval_property_failures(est, kind, n, tr, stream, rec["f"]) if rec["f"] is not None else [rec["error"]]
        if bad:
            sweep_viol.append((bad[0], rp, True))
        else:
            rp["theorem_or_correspondence"] = "Model.Moments.check_interval (C19_check_interval_sound)"
            sweep_viol.append((f"interval({rec['f']!r}) of {est} on the seeded {kind} sample of {n}: the values read by the real "
                               f"__hdi_cost at the returned interval are rejected by the model's judgement (code {code})", rp, False))
    # integration limits of the fitted unimodal models
    limit_viol = []
    lfailed, lbroken = fut_limits.result()
    rep.obligation(True, len(lgoals) - len(lfailed))
    rep.obligation(False, len(lfailed))
    rep.coverage["unimodal_limits"]["goals"] = len(lgoals)
    rep.coverage["unimodal_limits"]["failed"] = len(lfailed)
    for b in lbroken:
        rep.violation("C19/goal-run", "a goal file could not be processed",
                      {"theorem_or_correspondence": "generated interval goals (integration limits)", "log": b[-800:]}, False)
    if lfailed:
        # the fit whose limits are furthest from the model's among the rejected ones is the most telling
        idx = [int(gid.split("_")[1]) for gid, _ in lfailed]
        i = max(idx, key=lambda i_: abs(fitted_limits[i_][2][0][3]))
        j, t, lim, out = fitted_limits[i]
        est, kind, n = plan[j]
        rp = {"check": "limits", "estimator": est, "kind": kind, "n": n, "stream": f"meta/{est}/{kind}/{n}",
              "transform": list(t), "MAP": lim[0], "lwr_limit": lim[1], "upr_limit": lim[2]}
        bad = limit_property_failures(est, kind, n, rp["stream"], t)
        if bad:
            limit_viol.append((bad[0], rp, True))
        else:
            rp["theorem_or_correspondence"] = "RealModel.UnimodalCdf.lwr_limit / upr_limit (C19_lwr_limit_reflect, C19_limits_four_widths)"
            limit_viol.append((f"the integration limits ({lim[1]!r}, {lim[2]!r}) of the unimodal model fitted to the seeded {kind} sample "
                               f"of {n} under x -> {t[0]}*x + {t[1]} (MAP {lim[0]}) are not the model's ({len(lfailed)} of {len(lgoals)} fits)",
                               rp, False))
    # typed query points
    typed_viol = []
    ty_flagged = [(j, rec) for j, rec in typed if rec[6] is not None]
    if typed_file is not None:
        ok, res, log = fut_typed.result()
        if not ok or 0 not in res:
            rep.obligation(False)
            rep.violation("C19/correspondence-run", f"case file {typed_file.name} did not evaluate",
                          {"theorem_or_correspondence": f"correspondence file {typed_file.name}", "log": log[-800:]}, False)
        else:
            rep.obligation(True)
            codes = res[0]
            ty_flagged += [ty_ok[codes[i]] for i in range(0, len(codes) - 1, 2)]
    rep.coverage["typed_queries"]["disagreements"] = len(ty_flagged)
    seen_ty = set()
    for j, rec in ty_flagged:
        est, kind, n, unit = tplan[j]
        if (est, rec[0]) in seen_ty:
            continue
        seen_ty.add((est, rec[0]))
        rp = {"check": "typed", "estimator": est, "kind": kind, "n": n, "unit": list(unit), "stream": f"typed/{j}/{est}/{kind}",
              "method": rec[0], "form": rec[1], "index": rec[2]}
        bad = typed_property_failures(est, kind, n, unit, rp["stream"], rec[0], rec[1], rec[2]) if rec[0] != "fit" else [rec[6]]
        if bad:
            typed_viol.append((bad[0], rp, True))
        else:
            rp["theorem_or_correspondence"] = "RealModel.UnimodalCdf.typed_eval BufFloat (C19_typed_eval_float)"
            typed_viol.append((f"{est}.{rec[0]} asked with {rec[1]} at {rec[3]} answers {float(rec[4]) if rec[4] is not None else rec[6]!r}, "
                               f"with the float64 of the same value {float(rec[5]) if rec[5] is not None else None!r}", rp, False))
    lap("wait: Coq")

    # ---- failing-input search for the exact disagreements
    seen = set()
    for kind, k, code in disagreements:
        if kind in seen:
            continue
        seen.add(kind)
        if kind.startswith("table"):
            par = tcases[k]
            bad = table_property_failures(par)
            if bad:
                rep.violation("C19/property", bad[0], {"check": "table", "par": par, "code": code}, True)
            else:
                rep.violation("C19/correspondence", f"moments() on a recorded table disagrees with the exact table moments (code {code})",
                              {"theorem_or_correspondence": "Model.Moments.check_moments", "par": par}, False)
        elif kind.startswith("sample"):
            xs = scases[k]
            bad = sample_property_failures(xs)
            if bad:
                rep.violation("C19/property", bad[0], {"check": "sample_moments", "sample": [str(x) for x in xs], "code": code}, True)
            else:
                rep.violation("C19/correspondence", f"sample_moments disagrees with the exact centred moments (code {code})",
                              {"theorem_or_correspondence": "Model.Moments.check_sample_moments",
                               "sample": [str(x) for x in xs]}, False)
        else:
            w, vals, f, got, err = ccases[k]
            rep.violation("C19/correspondence", f"__hdi_cost returned {got} ({err}); the model gives a different value",
                          {"theorem_or_correspondence": "Model.Moments.hdi_cost_q",
                           "inputs": {"w": str(w), "f": str(f), **{n: str(v) for n, v in vals.items()}}}, False)
    # the interval sweep (one per estimator), then the runtime tests (one per estimator)
    for what, rp, found in typed_viol + limit_viol + sweep_viol:
        rep.violation("C19/property" if found else "C19/correspondence", what, rp, found)
    done = set()
    for what, rp in meta_viol:
        key = rp.get("estimator", rp["check"])
        if key not in done:
            done.add(key)
            rep.violation("C19/property", what, rp, True)
    lap("search")
    pool.shutdown()

    rep.assumptions = [
        "PARTIAL: accuracy of the Gauss-Chebyshev normaliser, scipy quad (cdf) and Simpson's rule on the moment grid, "
        "and convergence of Nelder-Mead (fit, interval) / minimize_scalar (mode) are NOT proved; normalisation, "
        "cdf = integral of pdf, interval mass / end densities, mode maximality, moments = own moments and the "
        "covariance of the fitted estimators are decided only by seeded runs [R] (tests, wide tolerances)",
        "scipy.integrate.simpson (1.18) is modelled as written incl. the even-N last-interval correction; floats of the "
        "recorded table are exact rationals; the float result may differ from the exact table moments by 1e-6 relative",
        "the stub estimators run the real moments / __hdi_cost / sample_moments code on prescribed inputs",
        "interval sweep: Nelder-Mead itself is not modelled; the returned interval is judged (Model.Moments.check_interval, "
        "sound by C19_check_interval_sound) from the values the real __hdi_cost reads at it: mass within 1e-2 of f always, "
        "within 3e-3 unless no neighbouring interval (1-30 % wider / narrower / shifted) has less than half its cost "
        "(the cost has no zero when an end sits on a hard edge or a zero-density gap of the fitted density), "
        "end densities within 10 % of the peak",
        "cdf of the unimodal model: scipy quad is NOT modelled (C19Cdf.v takes the quadrature as exact); that the fitted "
        "density carries little probability outside (lwr_limit, upr_limit) is measured on the real estimator "
        "(coverage.unimodal_limits; <= 5e-3 observed), not proved; the limits themselves are tied to the model by interval goals",
        "typed query points: equality of the typed and the float64 answers is decided on exact rationals in Coq; the value of the "
        "float64 answer itself is covered by the other stages (and by C12 for the KDE)",
    ]
    return rep.finish(
        level="proof",
        checker_cmd="make -C /verif/coq (coqc 8.16.1) + coqc on coq/gen/C19/*.v (vm_compute; coq-interval)",
        trusted_base=C.KERNEL_TB + [
            "coq-interval (family goals)",
            "axioms: table / sample-moment theorems are closed under the global context; the family and cost theorems "
            "use Coq Reals (ClassicalDedekindReals.sig_forall_dec, sig_not_dec, functional_extensionality_dep)"],
        rule="tables: two-bump skewed curves of mass 0.98..1.01 on 6..33-point grids at offsets 0..1e6 sd; sample_moments: "
             "dyadic samples (3..60 points) at offsets 0, 2^10, 2^20 and scales 2^-10..2^10; interval cost: dyadic inputs; "
             "family: theta over the fit bounds, |z| in [0.03, 10]; [R]: seeded normal / gamma / t5 / lognormal samples "
             "(400..2500 points, thorough up to 20000) under shift 0..1e6 and scale 1e-6..1e6; interval sweep: both "
             "estimators on seeded normal / gamma / normal+exponential / t5 / lognormal samples of 120..400 points "
             "(thorough 120..900) under every transform, fractions below 1/n, a few /n, 0.02..0.97, 0.99, 0.995..0.9995 "
             "and above the mass of every window as wide as the sample range; round 4: mirror images of every skewed "
             "sample (a < 0) and left-skewed base samples in [R] and in the sweep; cdf read as single values inside / 3 sd "
             "beyond the data and 14, 1e3, 1e6 sd below / above it; integration limits of every unimodal fit vs the model; "
             "typed query points (Python int, list / tuple of ints, int32 / int64 / float32 arrays and scalars) for pdf and cdf "
             "of both estimators on data in whole units (10, 3, 25, 150 per sd at 50, 0, 1e6, -4000); log_pdf_model at typed "
             "whole-number points")


def table_property_failures(par):
    """D19a on the real estimator: moments of a KDE of shifted data."""
    GaussianKDE, _, _ = mods()
    r = C.rng_for(PROP, "table-oracle")
    s = gen_sample("normal", 300, r)
    bad = []
    try:
        with warnings.catch_warnings():
            warnings.simplefilter("ignore")
            m = [float(v) for v in GaussianKDE(s).moments()]
            for b in (1e3, 1e6):
                m2 = [float(v) for v in GaussianKDE(s + b).moments()]
                sd = float(np.std(s))
                if abs(m2[0] - (m[0] + b)) > 0.03 * sd or abs(m2[1] / m[1] - 1) > 0.05:
                    bad.append(f"GaussianKDE.moments of data shifted by {b}: mean {m2[0]!r}, variance {m2[1]!r}; "
                               f"unshifted mean {m[0]!r}, variance {m[1]!r} (seeded normal sample of 300)")
    except Exception as e:
        bad.append(f"raises {e!r}"[:200])
    return bad


def sample_property_failures(xs):
    """D19b on the real code: sample_moments must be shift-covariant."""
    _, UnimodalPdf, _ = mods()
    x = np.array([float(v) for v in xs])
    sd = float(np.std(x))
    base = x - float(np.mean(x))
    with warnings.catch_warnings():
        warnings.simplefilter("ignore")
        m0 = [float(v) for v in UnimodalPdf.sample_moments(base)]
        m1 = [float(v) for v in UnimodalPdf.sample_moments(x)]
    bad = []
    if not (abs(m1[1] / m0[1] - 1) <= 1e-4 and abs(m1[2] - m0[2]) <= 1e-3):
        bad.append(f"sample_moments: sd {m1[1]!r}, skewness {m1[2]!r} for the sample at offset {float(np.mean(x))!r} "
                   f"but sd {m0[1]!r}, skewness {m0[2]!r} for the same sample centred")
    return bad


def replay(path):
    d = json.load(open(path))
    os.environ["VERIF_SEED"] = str(d.get("seed", 0))
    rp = d["replay"]
    chk = rp.get("check")
    if chk == "metamorphic":
        bad = metamorphic_case(rp["estimator"], rp["kind"], rp["n"], rp["stream"], [tuple(t) for t in rp["transforms"]])
    elif chk == "table":
        bad = table_property_failures(rp["par"])
    elif chk == "sample_moments":
        bad = sample_property_failures([Fraction(v) for v in rp["sample"]])
    elif chk == "family-affine":
        bad = family_affine_failures(C.rng_for(PROP, "family-affine"))
    elif chk == "mode-sweep":
        bad = mode_sweep_case(rp["kind"], rp["n"], rp["stream"], tuple(rp["transform"]))
    elif chk == "typed":
        bad = typed_property_failures(rp["estimator"], rp["kind"], rp["n"], tuple(rp["unit"]), rp["stream"],
                                      rp["method"], rp["form"], rp["index"])
    elif chk == "limits":
        bad = limit_property_failures(rp["estimator"], rp["kind"], rp["n"], rp["stream"], tuple(rp["transform"]))
    elif chk == "interval-sweep":
        bad = interval_property_failures(rp["estimator"], rp["kind"], rp["n"], tuple(rp["transform"]), rp["stream"], rp["fraction"])
    else:
        print("replay names a broken theorem / correspondence:", rp.get("theorem_or_correspondence"))
        return 1
    print("property failures:", bad[:6])
    return 1 if bad else 0
