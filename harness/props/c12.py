"""C12 -- GaussianKDE is a faithful, normalised Gaussian kernel-density estimate.

Theorems: coq/theories/Properties/C12.v about Model/KdeRegions.v (discrete structure,
over Q, for every sample / bandwidth / layer count / evaluation point) and
RealModel/Kde.v (truncated and exact kernel sums, rule-of-thumb bandwidth, the
repaired cross-validation grid).

Tie to the code, every run:
  [X-exact]   the region tables the implementation built (sorted sample, tree edges,
              slices, cdf offsets, per-point regions, index groups) are read back as
              exact rationals and compared inside Coq with the model (vm_compute, no
              tolerance except the correctly-rounded division lwr/N); the hypothesis
              of the coverage theorem  range <= 2^n h  is evaluated on the n the code
              computed (bit 6 of the result).
  [X-interval] pdf / cdf values, the rule-of-thumb bandwidth and the first five
              cross-validation widths are enclosed by coq-interval goals on the real
              model (cdf: Phi = 1/2 + RInt phi 0 z, each integral enclosed by
              `integral_intro`).
  [R]         metamorphic runs on the implementation (labelled tests): permutation of
              sample and points, scalar vs array, shift / scale for the three bandwidth
              modes, cdf monotone / limits / = integral of pdf, and the exact KDE sum
              (decimal arithmetic) against the proved truncation bound.
"""
from __future__ import annotations

import json
import math
import warnings
from decimal import Decimal, getcontext
from fractions import Fraction

import numpy as np

from lib import common as C
from lib import interval as I

PROP = "C12"
THEOREMS = ["C12_slice_covers", "C12_pdf_truncation_bound", "C12_pdf_nonneg",
            "C12_groups_partition", "C12_groups_labels_distinct", "C12_array_is_pointwise",
            "C12_scalar_array_agree", "C12_point_order_irrelevant",
            "C12_sample_order_irrelevant", "C12_exact_sample_order_irrelevant",
            "C12_cdf_monotone_within_region", "C12_cdf_truncation_bound_partial",
            "C12_rule_of_thumb_equivariant", "C12_cv_grid_equivariant",
            "C12_cv_grid_pinned_refuted"]

HEADER = """From Coq Require Import List ZArith QArith.
From IT Require Import Model.KdeRegions.
Import ListNotations.
Open Scope Q_scope.
"""

GOAL_PREAMBLE = """Set Warnings "-ambiguous-paths".
From Coq Require Import Reals List QArith Qreals ZArith.
From Coquelicot Require Import Coquelicot.
From Interval Require Import Tactic.
From IT Require Import Model.KdeRegions RealModel.Kde Proofs.KdeProofs.
Import ListNotations.
Open Scope R_scope.
Ltac kde_rot_goal :=
  unfold rule_of_thumb, rvar, rmean, rsum; cbv [map fold_right length];
  rewrite ?INR_IZR_INZ;
  repeat match goal with |- context [Z.of_nat ?k] =>
    let v := eval vm_compute in (Z.of_nat k) in change (Z.of_nat k) with v end;
  unfold Rpower; interval with (i_prec 90).
Ltac kde_cv_goal :=
  unfold cv_widths, cv_grid, cv_offsets, cv_dh; cbv [map nth]; interval with (i_prec 90).
"""

getcontext().prec = 60
PHI_TAIL = 0.5 * math.erfc(3.5 / math.sqrt(2.0))       # Phi(-3.5)
E6125 = math.exp(-6.125)


def KDE():
    from inference.pdf.kde import GaussianKDE
    return GaussianKDE


# ---------------------------------------------------------------- generation
def gen_sample(r, kind, n):
    if kind == "ints_ties":
        k = r.randint(2, max(2, n // 2))
        vals = [Fraction(r.randint(-30, 30)) for _ in range(k)]
        xs = [r.choice(vals) for _ in range(n)]
    elif kind == "dyadic":
        xs = [C.dyadic(r, 9, r.choice([0, 0, -4, 6])) for _ in range(n)]
    elif kind == "clusters":
        gap = r.choice([64, 256, 1024])
        xs = [Fraction(r.randint(0, 40), 4) + r.choice([0, gap]) for _ in range(n)]
    elif kind == "outlier":
        xs = [Fraction(r.randint(-40, 40), 8) for _ in range(n)]
        xs[r.randrange(n)] = Fraction(r.choice([-1, 1]) * r.randint(100, 2000))
    elif kind == "heavy":
        xs = [Fraction(int(round(64 * math.tan(math.pi * (r.random() - 0.5) * 0.97))), 64) for _ in range(n)]
    else:
        raise ValueError(kind)
    if len(set(xs)) < 2:
        xs[0] = xs[0] + 1
    return xs


KINDS = ["ints_ties", "dyadic", "clusters", "outlier", "heavy"]


def dyadic_near(x: Fraction, bits=6) -> Fraction:
    """A dyadic rational with a `bits`-bit numerator close to x > 0."""
    e = math.floor(math.log2(float(x))) - bits + 1
    m = int(x / Fraction(2) ** e)
    return max(m, 1) * Fraction(2) ** e


def gen_struct_case(r, tier, wide_ok=True):
    u = r.random()
    n = r.randint(3, 8) if u < 0.3 else r.randint(9, 30) if u < 0.9 else r.randint(31, 60)
    kind = r.choice(KINDS)
    xs = gen_sample(r, kind, n)
    rng_ = max(xs) - min(xs)
    # bandwidth from range/3500 (12 layers, 4096 regions) to 100*range, log-uniform
    u = r.random()
    f = 10 ** (r.uniform(-3.55, -1.8) if u < 0.14 else r.uniform(-1.8, 0) if u < 0.7 else r.uniform(0, 2))
    h = dyadic_near(rng_ * Fraction(f).limit_denominator(10 ** 6))
    return {"sample": xs, "h": h, "kind": kind}


def gen_points(r, sample, h, edges):
    lo, hi = min(sample), max(sample)
    R = hi - lo
    pts = []
    for _ in range(4):
        pts.append(lo + R * Fraction(r.randint(0, 1024), 1024))
    for _ in range(3):
        pts.append(C.frac(edges[r.randrange(len(edges))]))        # exactly on a region edge
    pts.append(C.frac(edges[0]))
    pts.append(C.frac(edges[-1]))
    pts.append(r.choice(sample))
    pts += [lo - 100 * R, hi + 100 * R, lo - h / 2, hi + 3 * h, lo - 4 * h, hi + Fraction(1, 1024)]
    r.shuffle(pts)
    return pts


# ---------------------------------------------------------------- running the code
def build(sample, h=None, cv=False, cls=None):
    cls = cls or KDE()
    with warnings.catch_warnings():
        warnings.simplefilter("ignore")
        arr = np.array([float(x) for x in sample])
        if h is not None:
            return cls(arr, bandwidth=float(h))
        return cls(arr, cross_validation=cv)


def observe_structure(case, r):
    """Runs the implementation; returns dict(status, ...observed tables...)."""
    try:
        kde = build(case["sample"], case["h"])
    except Exception as e:
        return {"status": "exception", "error": repr(e)[:300]}
    try:
        n = int(kde.tree.n)
        edges = [C.frac(v) for v in kde.tree.edges]
        pts = gen_points(r, case["sample"], case["h"], kde.tree.edges)
        x = np.array([float(p) for p in pts])
        assert all(C.frac(v) == p for v, p in zip(x, pts))
        labels, groups = kde.tree.region_groups(x)
        groups = [(int(l), sorted(int(i) for i in g)) for l, g in zip(labels, groups)]
        regions = [None] * len(pts)
        for l, g in groups:
            for i in g:
                if regions[i] is not None:
                    return {"status": "structure", "error": f"point {i} is in two groups"}
                regions[i] = l
        if any(v is None for v in regions):
            return {"status": "structure", "error": "a point is in no group"}
        with warnings.catch_warnings():
            warnings.simplefilter("ignore")
            pdf = np.atleast_1d(kde(x)).astype(float)
            cdf = np.atleast_1d(kde.cdf(x)).astype(float)
        return {"status": "ok", "kde": kde, "n": n, "edges": edges, "points": pts,
                "sorted": [C.frac(v) for v in kde.sample],
                "slices": [(int(s.start), int(s.stop)) for s in kde.slices],
                "offsets": [C.frac(v) for v in kde.cdf_offsets],
                "regions": regions, "groups": groups, "pdf": pdf, "cdf": cdf, "x": x}
    except Exception as e:
        return {"status": "exception", "error": repr(e)[:300]}


# ---------------------------------------------------------------- the property, evaluated on the implementation
def exact_pdf(sample, h, x):
    """Exact Gaussian KDE at x in 60-digit decimal arithmetic."""
    hd = Decimal(h.numerator) / Decimal(h.denominator)
    xd = Decimal(x.numerator) / Decimal(x.denominator)
    tot = Decimal(0)
    for s in sample:
        z = (xd - Decimal(s.numerator) / Decimal(s.denominator)) / hd
        tot += (-(z * z) / 2).exp()
    pi = Decimal("3.14159265358979323846264338327950288419716939937510582097494")
    return float(tot / (len(sample) * hd * (2 * pi).sqrt()))


def exact_cdf(sample, h, x):
    return sum(0.5 * math.erfc(-float((x - s) / h) / math.sqrt(2.0)) for s in sample) / len(sample)


def n_excluded(kde, x):
    """Number of samples outside the slice the implementation uses for each point."""
    N = kde.sample.size
    try:
        labels, groups = kde.tree.region_groups(np.atleast_1d(x))
        out = [N] * len(np.atleast_1d(x))
        for l, g in zip(labels, groups):
            s = kde.slices[int(l)]
            for i in g:
                out[int(i)] = N - max(0, int(s.stop) - int(s.start))
        return out
    except Exception:
        return [N] * len(np.atleast_1d(x))


def property_failures(sample, h, pts, r=None, deep=True):
    """C12 itself on the implementation for a user bandwidth.  Returns list of strings."""
    bad = []
    try:
        kde = build(sample, h)
        x = np.array([float(p) for p in pts])
        with warnings.catch_warnings():
            warnings.simplefilter("ignore")
            pdf = np.atleast_1d(kde(x)).astype(float)
            cdf = np.atleast_1d(kde.cdf(x)).astype(float)
    except Exception as e:
        return [f"GaussianKDE raised on a valid input: {e!r}"[:300]]
    N = len(sample)
    hf = float(h)
    nex = n_excluded(kde, x)
    for i, p in enumerate(pts):
        ex = exact_pdf(sample, h, p)
        bound = nex[i] / N * E6125 / (hf * math.sqrt(2 * math.pi))
        slack = 1e-11 * ex + 1e-300
        if not pdf[i] >= 0.0:
            bad.append(f"pdf({float(p)}) = {pdf[i]} is negative")
        elif pdf[i] > ex + slack or ex - pdf[i] > bound + slack:
            bad.append(f"pdf({float(p)}) = {pdf[i]!r} but the exact KDE is {ex!r}: outside the truncation "
                       f"bound [0, {bound:.3e}] (excluded {nex[i]}/{N})")
        cex = exact_cdf(sample, h, p)
        if abs(cdf[i] - cex) > nex[i] / N * PHI_TAIL + 1e-11:
            bad.append(f"cdf({float(p)}) = {cdf[i]!r} but the exact KDE cdf is {cex!r} "
                       f"(allowed {nex[i] / N * PHI_TAIL:.3e})")
    order = np.argsort(x, kind="stable")
    cs = cdf[order]
    if np.any(np.diff(cs) < -1e-12):
        k = int(np.argmin(np.diff(cs)))
        bad.append(f"cdf decreases from {cs[k]!r} at {x[order][k]} to {cs[k + 1]!r} at {x[order][k + 1]}")
    if not deep:
        return bad
    # scalar vs array, permutations
    with warnings.catch_warnings():
        warnings.simplefilter("ignore")
        for i in range(len(pts)):
            ps, cs_ = float(kde(x[i])), float(kde.cdf(x[i]))
            if not (close(ps, pdf[i]) and close(cs_, cdf[i])):
                bad.append(f"scalar call at {x[i]} gives ({ps!r}, {cs_!r}), array call ({pdf[i]!r}, {cdf[i]!r})")
                break
        r = r or C.rng_for(PROP, "oracle")
        perm = list(range(len(pts)))
        r.shuffle(perm)
        p2 = np.atleast_1d(kde(x[perm]))
        c2 = np.atleast_1d(kde.cdf(x[perm]))
        if not all(close(p2[j], pdf[perm[j]]) and close(c2[j], cdf[perm[j]]) for j in range(len(perm))):
            bad.append("results change when the evaluation points are reordered")
        sp = list(sample)
        r.shuffle(sp)
        try:
            k2 = build(sp, h)
            if not (np.allclose(np.atleast_1d(k2(x)), pdf, rtol=1e-12, atol=0) and
                    np.allclose(np.atleast_1d(k2.cdf(x)), cdf, rtol=1e-12, atol=1e-15)):
                bad.append("results change when the sample is reordered")
        except Exception as e:
            bad.append(f"reordered sample raises {e!r}"[:200])
        # shift / scale (exact in binary: a = 2^k, b dyadic)
        for a, b in ((Fraction(1024), Fraction(0)), (Fraction(1, 1024), Fraction(0)),
                     (Fraction(1), Fraction(4096)), (Fraction(8), Fraction(-1000))):
            try:
                k3 = build([a * s + b for s in sample], a * h)
                x3 = np.array([float(a * p + b) for p in pts])
                p3 = np.atleast_1d(k3(x3)) * float(a)
                c3 = np.atleast_1d(k3.cdf(x3))
                if not (np.allclose(p3, pdf, rtol=1e-9, atol=1e-300) and np.allclose(c3, cdf, rtol=1e-9, atol=1e-12)):
                    bad.append(f"not covariant under x -> {a}*x + {b} (bandwidth {a}*h)")
            except Exception as e:
                bad.append(f"x -> {a}*x + {b} raises {e!r}"[:200])
    return bad


def close(a, b, rtol=1e-12, atol=1e-300):
    return abs(a - b) <= rtol * max(abs(a), abs(b)) + atol


# ---------------------------------------------------------------- Coq side
def qlist(xs):
    return C.clist([C.cq(x) for x in xs]) + "%Q"


def coq_struct_case(case, obs):
    nl = lambda ns: C.clist([C.cnat(k) for k in ns])
    slices = C.clist([f"({C.cnat(a)}, {C.cnat(b)})" for a, b in obs["slices"]])
    groups = C.clist([f"({C.cnat(l)}, {nl(g)})" for l, g in obs["groups"]])
    return ("Build_kde_case " + " ".join([
        qlist(case["sample"]), C.cq(case["h"]), C.cnat(obs["n"]), qlist(obs["points"]),
        qlist(obs["sorted"]), qlist(obs["edges"]), slices, qlist(obs["offsets"]),
        nl(obs["regions"]), groups]))


BITS = ["sorted sample", "tree edges (linspace)", "slices (searchsorted cut-offs at mid -/+ 4h)",
        "cdf_offsets (lwr/N)", "region look-up of the evaluation points", "index groups",
        "coverage condition range <= 2^n h (layer count)"]


def describe(case, pts=None):
    d = {"sample_hex": [float(x).hex() for x in case["sample"]],
         "sample": [float(x) for x in case["sample"]],
         "bandwidth_hex": float(case["h"]).hex() if case.get("h") is not None else None,
         "bandwidth": float(case["h"]) if case.get("h") is not None else None}
    if pts is not None:
        d["points_hex"] = [float(p).hex() for p in pts]
    return d


# ---------------------------------------------------------------- bandwidth modes
def gen_float_sample(r, n, kind):
    if kind == "normal":
        return [r.gauss(0, 1) for _ in range(n)]
    if kind == "bimodal":
        return [r.gauss(0, 1) + r.choice([0, 6]) for _ in range(n)]
    if kind == "skewed":
        return [r.expovariate(1.0) for _ in range(n)]
    if kind == "heavy":
        return [r.gauss(0, 1) / max(abs(r.gauss(0, 1)), 0.05) for _ in range(n)]
    if kind == "ties":
        return [float(round(r.gauss(0, 2) * 4)) / 4 for _ in range(n)]
    raise ValueError(kind)


def recorder_class():
    G = KDE()

    class Rec(G):
        widths = []

        def cross_validation_logprob(self, samples, width, c=0.99):
            Rec.widths.append(float(width))
            return super().cross_validation_logprob(samples, width, c)
    return Rec


def mode_h(sample, mode):
    """bandwidth the implementation selects; mode in simple / cv"""
    k = build(sample, None, cv=(mode == "cv"))
    return float(k.h), k


def bandwidth_equivariance_failures(sample, mode):
    """[R] h(a*s + b) = a*h(s) for the automatic modes (5% tolerance; a = 2^k)."""
    bad = []
    try:
        h0, _ = mode_h(sample, mode)
    except Exception as e:
        return [f"{mode} bandwidth raises on the unscaled sample: {e!r}"[:250]]
    for a, b in ((2.0 ** -20, 0.0), (2.0 ** 20, 0.0), (1.0, 1e6), (2.0 ** 10, -3e4), (2.0 ** -10, 7.0)):
        try:
            h1, k1 = mode_h([a * s + b for s in sample], mode)
        except Exception as e:
            bad.append(f"{mode} bandwidth: data scaled by {a} and shifted by {b} raises {e!r}"[:250])
            continue
        if not abs(h1 / (a * h0) - 1.0) <= 0.05:
            bad.append(f"{mode} bandwidth: h = {h0!r} for the sample but {h1!r} = {h1 / (a * h0):.4g} * a*h "
                       f"for the data scaled by a = {a} and shifted by {b}")
    return bad


# ---------------------------------------------------------------- the run
def run(rep: C.Report, tier: str) -> int:
    quick = tier == "quick"
    import time
    T0 = [time.time()]
    stages = {}

    def lap(name):
        stages[name] = round(time.time() - T0[0], 1)
        T0[0] = time.time()
        rep.coverage["stage_seconds"] = stages
    C.clean_gen(PROP)
    C.prove_and_audit(rep, PROP, THEOREMS)
    try:      # supplementary theorems (the exact KDE integrates to one; Phi tail property)
        _a = C.coq_audit("C12_gaussnorm", ['GaussNorm_kde_exact_normalised', 'GaussNorm_kde_exact_total', 'GaussNorm_kde_exact_at_normalised', 'GaussNorm_kde_Phi_tail_property', 'GaussNorm_Phi_limits'], "IT.Properties.GaussNorm")
        rep.obligation(True, 5)
        rep.coverage["gaussnorm_audit"] = _a
    except C.ProofFailure as _e:
        rep.obligation(False, 5)
        rep.violation("C12/proof", f"proof obligation no longer checks: {_e.what}",
                      {"theorem_or_correspondence": _e.what, "log": _e.log[-1000:]}, False)
    try:      # cumulative-function clauses as theorems (exact cdf monotone / limits / derivative; truncation bound with eps = Phi(-3.5))
        _cdf = ["C12_exact_cdf_monotone", "C12_exact_cdf_strictly_increasing", "C12_exact_cdf_range", "C12_exact_cdf_limits",
                "C12_exact_cdf_derivative", "C12_exact_cdf_integral", "C12_exact_cdf_at_monotone", "C12_exact_cdf_at_integral",
                "C12_Phi_tail_sharp", "C12_Phi_tail_value", "C12_cdf_truncation_bound_lists", "C12_cdf_truncation_bound",
                "C12_cdf_monotone_across_regions", "C12_cdf_monotone_across_regions_uniform", "C12_cdf_range",
                "C12_cdf_far_left", "C12_cdf_far_right", "C12_exact_cdf_far_left", "C12_exact_cdf_far_right"]
        _a = C.coq_audit("C12_cdf", _cdf, "IT.Properties.C12Cdf")
        rep.obligation(True, len(_cdf))
        rep.coverage["cdf_theorems_audit"] = _a
    except C.ProofFailure as _e:
        rep.obligation(False, 19)
        rep.violation("C12/proof", f"proof obligation no longer checks: {_e.what}",
                      {"theorem_or_correspondence": _e.what, "log": _e.log[-1000:]}, False)
    lap("audit")

    from concurrent.futures import ThreadPoolExecutor
    pool = ThreadPoolExecutor(max_workers=3)

    # ---------- 1. discrete structure, exactly ----------
    r = C.rng_for(PROP, "structure")
    n_struct = 110 if quick else 1500
    cases, obs_l = [], []
    for k in range(n_struct):
        case = gen_struct_case(r, tier)
        obs = observe_structure(case, r)
        cases.append(case)
        obs_l.append(obs)
        R_ = max(case["sample"]) - min(case["sample"])
        ratio = float(case["h"] / R_)
        rep.count("h/range " + ("<1e-2" if ratio < 1e-2 else "<1" if ratio < 1 else "<4" if ratio < 4 else ">=4"))
        rep.count("kind=" + case["kind"])
        rep.count(f"N<={10 * (1 + (len(case['sample']) - 1) // 10)}")
        if obs["status"] == "ok":
            rep.count(f"layers={obs['n']}")
        rep.case((case["sample"], case["h"]), nontrivial=True)
        if k < 3 and obs["status"] == "ok":
            rep.sample({"sample": [float(x) for x in case["sample"][:10]], "N": len(case["sample"]),
                        "bandwidth": float(case["h"]), "layers": obs["n"],
                        "points": [float(p) for p in obs["points"][:6]],
                        "pdf": [float(v) for v in obs["pdf"][:6]]})
    lap("run implementation (structure)")
    suspicious = {}          # case index -> reason
    texts = []
    for k, (case, obs) in enumerate(zip(cases, obs_l)):
        if obs["status"] != "ok":
            suspicious[k] = obs["error"]
            continue
        if obs["n"] > 12:
            continue
        texts.append((k, coq_struct_case(case, obs)))
    files, index = [], []
    CH = 8
    for i in range(0, len(texts), CH):
        chunk = texts[i:i + CH]
        body = "Definition cases : list kde_case :=\n " + C.clist([t for _, t in chunk], ";\n ") + "."
        p = C.write_case_file(PROP, f"structure_{i // CH}", HEADER, body, ["failing_codes cases 0"])
        files.append(p)
        index.append([k for k, _ in chunk])
    fut_struct = pool.submit(C.run_case_files, files, 7 if quick else 14)

    # ---------- 2. pdf / cdf values by interval goals ----------
    rg = C.rng_for(PROP, "goals")
    defs, goals = [], []
    goal_case = {}
    n_pdf = n_cdf = 0
    max_pdf = 100 if quick else 900
    max_cdf = 14 if quick else 200
    for k, (case, obs) in enumerate(zip(cases, obs_l)):
        if obs["status"] != "ok" or len(case["sample"]) > 30 or obs["n"] > 12:
            continue
        defs.append(f"Definition s_{k} : list Q := {qlist(case['sample'])}.")
        pts = list(range(len(obs["points"])))
        rg.shuffle(pts)
        for i in pts[:2]:
            if n_pdf >= max_pdf:
                break
            v = C.frac(obs["pdf"][i])
            tol = abs(v) * Fraction(1, 10 ** 9) + Fraction(1, 10 ** 30)
            st = (f"Rabs (pdf_code_at {obs['n']} s_{k} {C.cq(case['h'])} {C.cq(obs['points'][i])} - "
                  f"{C.cR(v)}) <= {C.cR(tol)}")
            gid = f"pdf_{k}_{i}"
            goals.append((gid, st, "kde_pdf_goal"))
            goal_case[gid] = (k, i)
            n_pdf += 1
        if len(case["sample"]) <= 10 and n_cdf < max_cdf:
            # integral enclosures get expensive for |z| >> 10: stay within 6 h of the data
            lo, hi, h = min(case["sample"]), max(case["sample"]), case["h"]
            near = [i for i in pts[2:] if lo - 6 * h <= obs["points"][i] <= hi + 6 * h]
            if near:
                i = near[0]
                v = C.frac(obs["cdf"][i])
                st = (f"Rabs (cdf_code_at {obs['n']} s_{k} {C.cq(case['h'])} {C.cq(obs['points'][i])} - "
                      f"{C.cR(v)}) <= {C.cR(Fraction(1, 10 ** 8))}")
                gid = f"cdf_{k}_{i}"
                goals.append((gid, st, "kde_cdf_goal"))
                goal_case[gid] = (k, i)
                n_cdf += 1
    pre = GOAL_PREAMBLE + "\n".join(defs) + "\n"
    # cdf goals are the slow ones: spread them over the chunks
    goals.sort(key=lambda g: g[0].startswith("cdf"))
    nchunks = max(1, (len(goals) + 9) // 10)
    goals = [g for c in range(nchunks) for g in goals[c::nchunks]]
    fut_vals = pool.submit(I.check_goals, PROP, "values", goals, pre, "", max(1, (len(goals) + nchunks - 1) // nchunks),
                           8 if quick else 14, 600)

    # ---------- 3. bandwidth modes: goals ----------
    rb = C.rng_for(PROP, "bandwidth")
    bw_goals, bw_case = [], {}
    Rec = recorder_class()
    n_bw = 10 if quick else 60
    bw_samples = []
    for k in range(n_bw):
        kind = rb.choice(["normal", "bimodal", "skewed", "heavy", "ties"])
        n = rb.randint(5, 10) if k % 2 == 0 else rb.randint(40, 300 if quick else 1500)
        s = gen_float_sample(rb, n, kind)
        sc = rb.choice([1.0, 1e-3, 250.0, 1e5]) if k % 3 else 1.0
        s = [v * sc + rb.choice([0.0, 0.0, 1e3 * sc]) for v in s]
        bw_samples.append((kind, s))
        rep.count("bandwidth-sample=" + kind)
        try:
            Rec.widths = []
            kd = build(s, None, cv=True, cls=Rec)
            h0 = float(kd.simple_bandwidth_estimator())
            widths = list(Rec.widths[:5])
        except Exception as e:
            rep.obligation(False)
            bad = bandwidth_equivariance_failures(s, "cv") or [f"cross_validation=True raises {e!r}"[:250]]
            if not any(v["replay"].get("mode") == "cv" for v in rep.violations):
                rep.violation("C12/property", bad[0],
                              {"check": "bandwidth", "mode": "cv", "sample_hex": [float(v).hex() for v in s]}, True)
            continue
        if n <= 10:
            lit = C.clist([C.cR(v) for v in s])
            st = f"Rabs (rule_of_thumb {lit} - {C.cR(h0)}) <= {C.cR(C.frac(h0) / 10 ** 9)}"
            gid = f"rot_{k}"
            bw_goals.append((gid, st, "kde_rot_goal"))
            bw_case[gid] = (s, "simple")
        for m in range(5):
            if m < len(widths):
                st = (f"Rabs (nth {m} (cv_widths {C.cR(h0)}) 0 - {C.cR(widths[m])}) <= "
                      f"{C.cR(C.frac(widths[m]) / 10 ** 9)}")
                gid = f"cv_{k}_{m}"
                bw_goals.append((gid, st, "kde_cv_goal"))
                bw_case[gid] = (s, "cv")
    fut_bw = pool.submit(I.check_goals, PROP, "bandwidth", bw_goals, GOAL_PREAMBLE, "", 28, 2 if quick else 6, 600)
    lap("generate goals")

    # ---------- 4. [R] runs on the implementation while Coq works ----------
    rs = C.rng_for(PROP, "search")
    step = 6 if quick else 3
    n_oracle = 0
    for k in range(0, len(cases), step):
        if obs_l[k]["status"] != "ok":
            continue
        bad = property_failures(cases[k]["sample"], cases[k]["h"], obs_l[k]["points"], rs)
        n_oracle += 1
        if bad:
            small = shrink_struct(cases[k], obs_l[k]["points"])
            rep.violation("C12/property", "; ".join(bad[:2]),
                          {"check": "values", "case": describe(small[0], small[1])}, True)
            break
    rep.coverage["oracle_runs_R"] = n_oracle
    n_eq = 0
    for kind, s in bw_samples[: (6 if quick else 40)]:
        for mode in ("simple", "cv"):
            bad = bandwidth_equivariance_failures(s, mode)
            n_eq += 1
            if bad and not any(v["replay"].get("mode") == mode for v in rep.violations):
                rep.violation("C12/property", bad[0],
                              {"check": "bandwidth", "mode": mode, "sample_hex": [float(v).hex() for v in s]}, True)
    rep.coverage["bandwidth_equivariance_runs_R"] = n_eq
    rc = C.rng_for(PROP, "cdf")
    n_cdf_runs = 0
    for k in range(8 if quick else 60):
        kind = rc.choice(["normal", "bimodal", "skewed", "heavy", "ties"])
        s = gen_float_sample(rc, rc.randint(20, 400), kind)
        mode = rc.choice(["user", "simple", "cv"])
        bad = cdf_failures(s, mode, rc)
        n_cdf_runs += 1
        if bad:
            rep.violation("C12/property", bad[0], {"check": "cdf", "mode": mode,
                                                  "sample_hex": [float(v).hex() for v in s]}, True)
            break
    rep.coverage["cdf_runs_R"] = n_cdf_runs
    lap("[R] runs")

    # ---------- 5. collect the Coq results ----------
    outs = fut_struct.result()
    n_checked = 0
    for p, idx, (ok, res, log) in zip(files, index, outs):
        if not ok or 0 not in res:
            rep.obligation(False)
            rep.violation("C12/correspondence-run", f"case file {p.name} did not evaluate",
                          {"theorem_or_correspondence": f"correspondence file {p.name}", "log": log[-800:]}, False)
            continue
        rep.obligation(True)
        n_checked += len(idx)
        codes = res[0]
        cm = {codes[j]: codes[j + 1] for j in range(0, len(codes) - 1, 2)}
        for j in sorted(cm):
            code = cm[j]
            what = [BITS[b] for b in range(7) if code >> b & 1]
            suspicious[idx[j]] = "model and implementation disagree on: " + ", ".join(what)
            for b in range(7):
                if code >> b & 1:
                    rep.count("disagree:" + BITS[b].split(" (")[0])
    rep.coverage["structures_validated_against_impl"] = n_checked
    lap("wait: structure in Coq")

    failed, broken = fut_vals.result()
    rep.obligation(True, len(goals) - len(failed))
    rep.obligation(False, len(failed))
    rep.coverage["interval_goals"] = {"pdf": n_pdf, "cdf": n_cdf, "failed": len(failed)}
    for b in broken:
        rep.violation("C12/goal-run", "a goal file could not be processed",
                      {"theorem_or_correspondence": "generated interval goals", "log": b[-800:]}, False)
    for gid, log in failed:
        k, i = goal_case[gid]
        suspicious.setdefault(k, f"interval goal {gid} fails: the model's value at point {float(obs_l[k]['points'][i])} "
                                 f"is not the implementation's")
    lap("wait: value goals")

    failed, broken = fut_bw.result()
    rep.obligation(True, len(bw_goals) - len(failed))
    rep.obligation(False, len(failed))
    rep.coverage["bandwidth_goals"] = {"total": len(bw_goals), "failed": len(failed)}
    for b in broken:
        rep.violation("C12/goal-run", "a bandwidth goal file could not be processed",
                      {"theorem_or_correspondence": "generated interval goals (bandwidth)", "log": b[-800:]}, False)
    seen = set()
    for gid, log in failed:
        s, mode = bw_case[gid]
        if (id(s), mode) in seen:
            continue
        seen.add((id(s), mode))
        bad = bandwidth_equivariance_failures(s, mode)
        if bad:
            if not any(v["replay"].get("mode") == mode for v in rep.violations):
                rep.violation("C12/property", bad[0],
                              {"check": "bandwidth", "mode": mode, "sample_hex": [float(v).hex() for v in s]}, True)
        else:
            rep.violation("C12/correspondence", f"bandwidth goal {gid} fails but shift/scale equivariance holds on this sample",
                          {"theorem_or_correspondence": "RealModel.Kde.rule_of_thumb / cv_widths",
                           "mode": mode, "sample_hex": [float(v).hex() for v in s]}, False)
    lap("wait: bandwidth goals")

    # ---------- 6. failing-input search on every disagreement ----------
    reported = 0
    for k in sorted(suspicious):
        if reported >= 3:
            break
        case, obs = cases[k], obs_l[k]
        pts = obs.get("points") or [min(case["sample"]), max(case["sample"])]
        bad = property_failures(case["sample"], case["h"], pts, rs)
        if not bad:
            # targeted search: points within 3.4 bandwidths of a sample (where a kernel left out of the
            # slice would exceed the truncation bound)
            uniq = sorted(set(case["sample"]))[:40]
            extra = [x + Fraction(c, 5) * case["h"] for x in uniq for c in range(-17, 18)]
            b2 = property_failures(case["sample"], case["h"], extra, rs, deep=False)
            if b2:
                bad, pts = b2, extra
        if not bad:
            # neighbouring inputs: the same sample with a narrower user bandwidth (more regions), evaluated
            # on and next to the samples
            for div in (8, 64, 512):
                h2 = case["h"] / div
                uniq = sorted(set(case["sample"]))[:40]
                extra = [x + Fraction(c, 2) * h2 for x in uniq for c in (-2, -1, 0, 1, 2)]
                try:
                    b2 = property_failures(case["sample"], h2, extra, rs, deep=False)
                except MemoryError:
                    break
                if b2:
                    bad, pts, case = b2, extra, dict(case, h=h2)
                    break
        reported += 1
        if bad:
            small = shrink_struct(case, pts)
            rep.violation("C12/property", "; ".join(bad[:2]),
                          {"check": "values", "case": describe(small[0], small[1]), "why": suspicious[k]}, True)
        else:
            rep.violation("C12/correspondence", suspicious[k] + " -- the property was not seen to fail on this input",
                          {"theorem_or_correspondence": "Model.KdeRegions.check_structure / RealModel.Kde goals",
                           "case": describe(case, pts)}, False)
    rep.coverage["correspondence_disagreements"] = len(suspicious)
    lap("search")
    pool.shutdown()

    rep.assumptions = [
        "layer count n = int(log(range/h)/log 2)+1 is a float computation: it is read back from the code and the "
        "model checks range <= 2^n h (the only fact the coverage theorem needs) exactly, per case",
        "np.sort / np.linspace / np.searchsorted(side=left) / np.unique semantics as modelled; order inside an index "
        "group is unspecified (argsort is not stable) and compared as a set",
        "scipy.special.erf is the error function: Phi z = (1 + erf(z/sqrt 2))/2 = 1/2 + int_0^z phi",
        "proved since (Properties/GaussNorm.v, Properties/C12Cdf.v): the exact KDE integrates to one, its cdf is monotone "
        "with limits 0 / 1 and derivative = pdf, Phi(-3.5) in (2.32e-4, 2.33e-4), the truncated cdf is within "
        "(excluded/N) Phi(-3.5) of the exact one, monotone across regions up to that slack and within it of 0 / 1 far "
        "outside the data. NOT PROVED: optimality of the "
        "cross-validated bandwidth; bandwidth search beyond its first five grid points is tied only by [R] "
        "equivariance runs",
    ]
    return rep.finish(
        level="proof",
        checker_cmd="make -C /verif/coq (coqc 8.16.1) + coqc on coq/gen/C12/*.v (vm_compute; coq-interval interval / integral_intro)",
        trusted_base=C.KERNEL_TB + [
            "coq-interval (reflexive interval / integral enclosures; primitive Uint63 / PrimFloat operations)",
            "axioms: Coq Reals (ClassicalDedekindReals.sig_forall_dec, sig_not_dec, functional_extensionality_dep), "
            "Classical_Prop.classic (Coquelicot); the discrete-structure theorems are closed under the global context"],
        rule="samples: ints with ties / dyadic / two clusters / outlier / heavy-tailed (N 3..60), bandwidth dyadic, "
             "log-uniform in [range/3500, 100 range] (up to 12 layers / 4096 regions); 16 evaluation points per case: inside, exactly on region edges, "
             "on samples, just outside, far outside; a case counts as distinct by (sample, bandwidth); bandwidth-mode "
             "and cdf runs use seeded float samples (normal / bimodal / skewed / heavy / ties)")


def cdf_failures(s, mode, r):
    bad = []
    try:
        if mode == "user":
            sd = float(np.std(s))
            k = build(s, Fraction(sd * 10 ** r.uniform(-2, 0.5)).limit_denominator(10 ** 9))
        else:
            k = build(s, None, cv=(mode == "cv"))
        lo, hi, h = float(k.sample[0]), float(k.sample[-1]), float(k.h)
        x = np.linspace(lo - 9 * h, hi + 9 * h, 4001)
        with warnings.catch_warnings():
            warnings.simplefilter("ignore")
            c = np.atleast_1d(k.cdf(x))
            p = np.atleast_1d(k(x))
    except Exception as e:
        return [f"{mode}: raises {e!r}"[:250]]
    if np.any(np.diff(c) < -1e-12):
        j = int(np.argmin(np.diff(c)))
        bad.append(f"{mode}: cdf decreases between {x[j]!r} and {x[j + 1]!r}: {c[j]!r} -> {c[j + 1]!r}")
    if abs(c[0]) > 1e-9 or abs(c[-1] - 1) > 1e-9:
        bad.append(f"{mode}: cdf limits are {c[0]!r} and {c[-1]!r}, not 0 and 1")
    if np.any(p < 0):
        bad.append(f"{mode}: negative density")
    # cdf = integral of pdf (trapezium on a fine grid; tolerance covers quadrature + truncation)
    integ = np.concatenate([[0.0], np.cumsum(0.5 * (p[1:] + p[:-1]) * np.diff(x))])
    dxh = (x[1] - x[0]) / h
    tol = 2e-3 + 0.2 * dxh * dxh
    if np.max(np.abs(integ - (c - c[0]))) > tol:
        j = int(np.argmax(np.abs(integ - (c - c[0]))))
        bad.append(f"{mode}: cdf({x[j]!r}) = {c[j]!r} but the integral of the pdf up to there is {integ[j]!r}")
    if abs(integ[-1] - 1.0) > tol:
        bad.append(f"{mode}: the density integrates to {integ[-1]!r}")
    return bad


def shrink_struct(case, pts):
    def fails(xs):
        if len(set(xs)) < 2 or len(xs) < 3:
            return False
        return bool(property_failures(xs, case["h"], pts, deep=False))
    if not property_failures(case["sample"], case["h"], pts, deep=False):
        return case, pts
    xs = C.shrink_list(case["sample"], fails, min_len=3, budget=60)
    c2 = dict(case, sample=xs)
    p2 = C.shrink_list(pts, lambda ps: len(ps) >= 1 and bool(property_failures(xs, case["h"], ps, deep=False)),
                       min_len=1, budget=40)
    return c2, p2


def replay(path):
    d = json.load(open(path))
    rp = d["replay"]
    chk = rp.get("check")
    if chk == "values":
        c = rp["case"]
        sample = [C.frac(float.fromhex(v)) for v in c["sample_hex"]]
        h = C.frac(float.fromhex(c["bandwidth_hex"]))
        pts = [C.frac(float.fromhex(v)) for v in c["points_hex"]]
        bad = property_failures(sample, h, pts)
    elif chk == "bandwidth":
        s = [float.fromhex(v) for v in rp["sample_hex"]]
        bad = bandwidth_equivariance_failures(s, rp["mode"])
    elif chk == "cdf":
        s = [float.fromhex(v) for v in rp["sample_hex"]]
        bad = cdf_failures(s, rp["mode"], C.rng_for(PROP, "cdf-replay"))
    else:
        print("replay names a broken theorem / correspondence:", rp.get("theorem_or_correspondence"))
        return 1
    print("property failures:", bad)
    return 1 if bad else 0
