"""C12 -- GaussianKDE is a faithful, normalised Gaussian kernel-density estimate.

Theorems: coq/theories/Properties/C12.v about Model/KdeRegions.v (discrete structure,
over Q, for every sample / bandwidth / layer count / evaluation point) and
RealModel/Kde.v (truncated and exact kernel sums, rule-of-thumb bandwidth, the
repaired cross-validation grid).

Tie to the code, every run:
  [X-exact]   the region tables the implementation built (sorted sample, tree edges,
              slices, cdf offsets, per-point regions, index groups) are read back as
              exact rationals and compared inside Coq with the model (vm_compute, no
              tolerance except the correctly-rounded division lwr/N); the hypothesis
              of the coverage theorem  range <= 2^n h  is evaluated on the n the code
              computed (bit 6 of the result).
  [X-interval] pdf / cdf values, the rule-of-thumb bandwidth and the first five
              cross-validation widths are enclosed by coq-interval goals on the real
              model (cdf: Phi = 1/2 + RInt phi 0 z, each integral enclosed by
              `integral_intro`).
  [R]         metamorphic runs on the implementation (labelled tests): permutation of
              sample and points, scalar vs array, shift / scale for the three bandwidth
              modes, cdf monotone / limits / = integral of pdf, and the exact KDE sum
              (decimal arithmetic) against the proved truncation bound.

Round 4 (Model/KdeInputs.v, Proofs/KdeInputsProofs.v, Properties/C12Inputs.v): HOW the sample
and the points are handed over is part of every case:
  dtype       integer-typed samples / points (int8 .. uint64, small counts to 2^63 time-stamps;
              differences far above 2^32) -- Coq's `to_double` must reproduce the binary64
              values the estimator holds, then the usual structure / value comparison;
  scale       the whole case multiplied by 2^e, |e| up to 900 (h^2 under/overflows);
  container   list, ndarray, an ordered ndarray, an ordered strided view, an ordered 2-D array,
  after       and the caller's own in-place change of that array between construction and the
              observation (rescale, refill, reverse): the tables are read back AFTER it;
  histories   several buffers / estimators / caller updates: after every event every
              `kde.sample` and every caller array is compared with the object-history model
              (`check_history`), evaluations must stay bit-identical.
"""
from __future__ import annotations

import json
import math
import warnings
from decimal import Decimal, getcontext
from fractions import Fraction

import numpy as np

from lib import common as C
from lib import interval as I

PROP = "C12"
THEOREMS = ["C12_slice_covers", "C12_pdf_truncation_bound", "C12_pdf_nonneg",
            "C12_groups_partition", "C12_groups_labels_distinct", "C12_array_is_pointwise",
            "C12_scalar_array_agree", "C12_point_order_irrelevant",
            "C12_sample_order_irrelevant", "C12_exact_sample_order_irrelevant",
            "C12_cdf_monotone_within_region", "C12_cdf_truncation_bound_partial",
            "C12_rule_of_thumb_equivariant", "C12_cv_grid_equivariant",
            "C12_cv_grid_pinned_refuted"]

THEOREMS_INPUTS = ["C12_history_estimate_frozen", "C12_history_faithful", "C12_history_reachable_wf",
                   "C12_history_pdf_faithful", "C12_history_caller_untouched", "C12_alias_constructor_refuted",
                   "C12_to_double_exact", "C12_to_double_error", "C12_narrow_int_exact", "C12_dx_repaired_exact",
                   "C12_dx_pinned_refuted", "C12_dx_pinned_exact_without_overflow", "C12_integer_square_refuted",
                   "C12_kernel_sum_affine", "C12_cdf_sum_affine", "C12_exact_pdf_affine", "C12_exact_cdf_affine"]

HEADER_INPUTS = """From Coq Require Import List ZArith QArith.
From IT Require Import Model.KdeRegions Model.KdeInputs.
Import ListNotations.
Open Scope Q_scope.
"""

HEADER = """From Coq Require Import List ZArith QArith.
From IT Require Import Model.KdeRegions.
Import ListNotations.
Open Scope Q_scope.
"""

GOAL_PREAMBLE = """Set Warnings "-ambiguous-paths".
From Coq Require Import Reals List QArith Qreals ZArith.
From Coquelicot Require Import Coquelicot.
From Interval Require Import Tactic.
From IT Require Import Model.KdeRegions RealModel.Kde Proofs.KdeProofs.
Import ListNotations.
Open Scope R_scope.
Ltac kde_rot_goal :=
  unfold rule_of_thumb, rvar, rmean, rsum; cbv [map fold_right length];
  rewrite ?INR_IZR_INZ;
  repeat match goal with |- context [Z.of_nat ?k] =>
    let v := eval vm_compute in (Z.of_nat k) in change (Z.of_nat k) with v end;
  unfold Rpower; interval with (i_prec 90).
Ltac kde_cv_goal :=
  unfold cv_widths, cv_grid, cv_offsets, cv_dh; cbv [map nth]; interval with (i_prec 90).
"""

getcontext().prec = 60
PHI_TAIL = 0.5 * math.erfc(3.5 / math.sqrt(2.0))       # Phi(-3.5)
E6125 = math.exp(-6.125)


def KDE():
    from inference.pdf.kde import GaussianKDE
    return GaussianKDE


# ---------------------------------------------------------------- generation
def gen_sample(r, kind, n):
    if kind == "ints_ties":
        k = r.randint(2, max(2, n // 2))
        vals = [Fraction(r.randint(-30, 30)) for _ in range(k)]
        xs = [r.choice(vals) for _ in range(n)]
    elif kind == "dyadic":
        xs = [C.dyadic(r, 9, r.choice([0, 0, -4, 6])) for _ in range(n)]
    elif kind == "clusters":
        gap = r.choice([64, 256, 1024])
        xs = [Fraction(r.randint(0, 40), 4) + r.choice([0, gap]) for _ in range(n)]
    elif kind == "outlier":
        xs = [Fraction(r.randint(-40, 40), 8) for _ in range(n)]
        xs[r.randrange(n)] = Fraction(r.choice([-1, 1]) * r.randint(100, 2000))
    elif kind == "heavy":
        xs = [Fraction(int(round(64 * math.tan(math.pi * (r.random() - 0.5) * 0.97))), 64) for _ in range(n)]
    else:
        raise ValueError(kind)
    if len(set(xs)) < 2:
        xs[0] = xs[0] + 1
    return xs


KINDS = ["ints_ties", "dyadic", "clusters", "outlier", "heavy"]


def dyadic_near(x: Fraction, bits=6) -> Fraction:
    """A dyadic rational with a `bits`-bit numerator close to x > 0."""
    e = math.floor(math.log2(float(x))) - bits + 1
    m = int(x / Fraction(2) ** e)
    return max(m, 1) * Fraction(2) ** e


def gen_struct_case(r, tier, wide_ok=True):
    u = r.random()
    n = r.randint(3, 8) if u < 0.3 else r.randint(9, 30) if u < 0.9 else r.randint(31, 60)
    kind = r.choice(KINDS)
    xs = gen_sample(r, kind, n)
    rng_ = max(xs) - min(xs)
    # bandwidth from range/3500 (12 layers, 4096 regions) to 100*range, log-uniform
    u = r.random()
    f = 10 ** (r.uniform(-3.55, -1.8) if u < 0.14 else r.uniform(-1.8, 0) if u < 0.7 else r.uniform(0, 2))
    h = dyadic_near(rng_ * Fraction(f).limit_denominator(10 ** 6))
    return {"sample": xs, "h": h, "kind": kind}


def gen_points(r, sample, h, edges, unit=Fraction(1)):
    lo, hi = min(sample), max(sample)
    R = hi - lo
    pts = []
    for _ in range(4):
        pts.append(lo + R * Fraction(r.randint(0, 1024), 1024))
    for _ in range(3):
        pts.append(C.frac(edges[r.randrange(len(edges))]))        # exactly on a region edge
    pts.append(C.frac(edges[0]))
    pts.append(C.frac(edges[-1]))
    pts.append(r.choice(sample))
    pts += [lo - 100 * R, hi + 100 * R, lo - h / 2, hi + 3 * h, lo - 4 * h, hi + unit * Fraction(1, 1024)]
    r.shuffle(pts)
    return pts


# ---------------------------------------------------------------- how the sample is handed over (round 4)
ITYPES = {"int8": "I8", "uint8": "U8", "int16": "I16", "uint16": "U16", "int32": "I32", "uint32": "U32",
          "int64": "I64", "uint64": "U64"}
CFG_KEYS = ("sdtype", "xdtype", "hint", "container", "after", "sfloat", "xfloat")
CONTAINERS = ["array", "list", "sorted_array", "sorted_slice", "sorted_strided", "sorted_2d"]


def cfg_of(case):
    return {k: case[k] for k in CFG_KEYS if case.get(k) is not None}


def plain(cfg, keep=()):
    """the same configuration without sharing (fresh array, no later change by the caller)"""
    return {k: v for k, v in (cfg or {}).items() if k in keep}


def eff(v) -> Fraction:
    """the binary64 value of an integer (Python's int -> float conversion: nearest, ties to even)"""
    return C.frac(float(int(v)))


def safe_range(dt):
    """integers of dtype dt whose binary64 value is again in the type's range"""
    info = np.iinfo(dt)
    lo, hi = int(info.min), int(info.max)
    if info.bits == 64:
        lo, hi = (-(2 ** 62), 2 ** 62) if lo < 0 else (0, 2 ** 63)
    return lo, hi


def hand_over(sample, cfg=None, raw=None):
    """What the caller passes to GaussianKDE.  Returns (handed, base): `handed` goes to the
    constructor, `base` is the caller's own object that holds the memory."""
    cfg = cfg or {}
    dt = cfg.get("sdtype")
    if dt:
        arr = np.array([int(v) for v in (raw if raw is not None else sample)], dtype=dt)
    else:
        arr = np.array([float(x) for x in sample])
        if cfg.get("sfloat"):
            arr = arr.astype(cfg["sfloat"])
    cont = cfg.get("container") or "array"
    if cont == "array":
        return arr, arr
    if cont == "list":
        lst = arr.tolist()
        return lst, lst
    srt = np.sort(arr)
    if cont == "sorted_array":
        return srt, srt
    if cont == "sorted_slice":
        big = np.concatenate([srt[:1], srt, srt[-1:]])
        return big[1:-1], big
    if cont == "sorted_strided":
        big = np.repeat(srt, 2)
        return big[::2], big
    if cont == "sorted_2d":
        n = srt.size
        rows = 2 if n % 2 == 0 else 3 if n % 3 == 0 else 1
        return srt.reshape(rows, -1), srt
    raise ValueError(cont)


def apply_after(base, after):
    """the caller's own in-place change of ITS array, after the estimator was constructed"""
    if not after:
        return
    kind = after[0]
    if isinstance(base, list):
        if kind == "zero":
            base[:] = [0] * len(base)
        elif kind == "reverse":
            base.reverse()
        elif kind == "affine":
            base[:] = [v * after[1] + after[2] for v in base]
        elif kind == "plus1":
            base[:] = [v + 1 for v in base]
        return
    if kind == "zero":
        base[...] = 0
    elif kind == "reverse":
        base[...] = base[::-1].copy()
    elif kind == "affine":
        base *= after[1]
        base += after[2]
    elif kind == "plus1":
        base += 1
    else:
        raise ValueError(kind)


def points_array(pts, cfg=None):
    xd = (cfg or {}).get("xdtype")
    if xd:
        return np.array([int(p) for p in pts], dtype=xd)
    x = np.array([float(p) for p in pts])
    xf = (cfg or {}).get("xfloat")
    if xf and all(C.frac(v) == p for v, p in zip(x.astype(xf), pts)):      # only when the narrower type carries them exactly
        x = x.astype(xf)
    return x


def fit_points(case, pts):
    """evaluation points the case's point dtype can carry (integers inside the type, as binary64 values)"""
    xd = case.get("xdtype")
    if not xd:
        return list(pts)
    lo_t, hi_t = safe_range(xd)
    out = []
    for p in pts:
        v = eff(min(max(math.floor(p), lo_t), hi_t))
        if v not in out:
            out.append(v)
    return out


# ---------------------------------------------------------------- running the code
def build_cfg(sample, h=None, cv=False, cls=None, cfg=None, raw=None):
    """Constructs the estimator the way `cfg` says, then lets the caller change its own array.
    Returns (kde, info)."""
    cls = cls or KDE()
    cfg = cfg or {}
    with warnings.catch_warnings():
        warnings.simplefilter("ignore")
        handed, base = hand_over(sample, cfg, raw)
        snap = list(base) if isinstance(base, list) else base.copy()
        if h is not None:
            kde = cls(handed, bandwidth=(int(h) if cfg.get("hint") else float(h)))
        else:
            kde = cls(handed, cross_validation=cv)
        same = (base == snap) if isinstance(base, list) else bool(np.array_equal(base, snap))
        apply_after(base, cfg.get("after"))
    return kde, {"ctor_changed_caller": not same, "base": base}


def build(sample, h=None, cv=False, cls=None, cfg=None, raw=None):
    return build_cfg(sample, h, cv, cls, cfg, raw)[0]


def observe_structure(case, r):
    """Runs the implementation; returns dict(status, ...observed tables...)."""
    cfg = cfg_of(case)
    try:
        kde, info = build_cfg(case["sample"], case["h"], cfg=cfg, raw=case.get("raw_sample"))
    except Exception as e:
        return {"status": "exception", "error": repr(e)[:300]}
    try:
        n = int(kde.tree.n)
        edges = [C.frac(v) for v in kde.tree.edges]
        pts = gen_points(r, case["sample"], case["h"], kde.tree.edges,
                         case.get("unit", case.get("unit_pts", Fraction(1))))
        raw_pts = None
        if cfg.get("xdtype"):
            lo_t, hi_t = safe_range(cfg["xdtype"])
            raw_pts = [min(max(math.floor(p), lo_t), hi_t) for p in pts]
            pts = [eff(v) for v in raw_pts]
            x = np.array(raw_pts, dtype=cfg["xdtype"])
        else:
            x = points_array(pts, cfg)
        assert all(C.frac(float(v)) == p for v, p in zip(x, pts))
        labels, groups = kde.tree.region_groups(x)
        groups = [(int(l), sorted(int(i) for i in g)) for l, g in zip(labels, groups)]
        regions = [None] * len(pts)
        for l, g in groups:
            for i in g:
                if regions[i] is not None:
                    return {"status": "structure", "error": f"point {i} is in two groups"}
                regions[i] = l
        if any(v is None for v in regions):
            return {"status": "structure", "error": "a point is in no group"}
        with warnings.catch_warnings():
            warnings.simplefilter("ignore")
            pdf = np.atleast_1d(kde(x)).astype(float)
            cdf = np.atleast_1d(kde.cdf(x)).astype(float)
        return {"status": "ok", "kde": kde, "n": n, "edges": edges, "points": pts, "raw_points": raw_pts,
                "sorted": [C.frac(v) for v in kde.sample],
                "slices": [(int(s.start), int(s.stop)) for s in kde.slices],
                "offsets": [C.frac(v) for v in kde.cdf_offsets],
                "regions": regions, "groups": groups, "pdf": pdf, "cdf": cdf, "x": x}
    except Exception as e:
        return {"status": "exception", "error": repr(e)[:300]}


# ---------------------------------------------------------------- generation of the round-4 cases
def gen_int_case(r, tier):
    """integer-typed sample (and mostly integer-typed points)"""
    sub = r.choice(["narrow", "narrow", "counts", "big", "big", "big", "huge"])
    n = r.randint(3, 24)
    if sub == "narrow":
        sd = r.choice(["int8", "uint8", "int16", "uint16"])
        info = np.iinfo(sd)
        span = int(info.max) - int(info.min)
        lo, hi = int(info.min) + r.randint(0, span // 8), int(info.max) - r.randint(0, span // 8)
        raw = [r.randint(lo, hi) for _ in range(n)]
        xd = r.choice([sd, sd, sd, r.choice(["int8", "uint8", "int16", "uint16", "int64"]), None])
        f = 10 ** r.uniform(-2, 0.6)
    elif sub == "counts":
        sd = r.choice(["int64", "int32", "uint32", "uint64", "uint16"])
        lam = r.choice([3, 40, 1000])
        raw = [max(0, int(round(r.gauss(lam, math.sqrt(lam))))) for _ in range(n)]
        xd = r.choice([sd, sd, "int64", None])
        f = 10 ** r.uniform(-1.5, 0.6)
    elif sub == "big":
        # time-stamps / large counters: differences far above 2^32, everything below 2^53.  Values are
        # (A + m) 2^j with a short A + m, so that linspace / the mid-points stay exact in binary64 (as in
        # every other case: the model computes the edges exactly)
        sd = r.choice(["int64", "int64", "int64", "uint64"])
        j = r.randint(20, 34)
        A = r.randint(0, 2 ** min(28, 51 - j)) * (1 if sd == "uint64" else r.choice([-1, 1, 1]))
        mb = r.randint(13, 17)
        raw = [(A + r.randint(0, 2 ** mb) + (2 ** (mb + 2) if r.random() < 0.3 else 0)) * 2 ** j for _ in range(n)]
        if sd == "uint64":
            raw = [abs(v) for v in raw]
        xd = r.choice([sd, sd, sd, "int64", None])
        f = 10 ** r.uniform(-1.8, 0.3)
    else:
        # beyond 2^53: the conversion to binary64 rounds.  raw = M 2^j + d with |d| at most half a unit in
        # the last place (ties included), so the binary64 values M 2^j again have short significands
        sd = r.choice(["int64", "uint64"])
        j = r.randint(45, 50)
        top = 61 if sd == "int64" else 62
        M = [r.randint(2 ** (54 - j), 2 ** (top - j)) * (r.choice([-1, 1]) if sd == "int64" else 1) for _ in range(n)]
        raw = []
        for m in M:
            v = m * 2 ** j
            half = 2 ** (abs(v).bit_length() - 54)
            d = r.choice([r.randint(-half, half), half, -half, 0, r.randint(-half, half)])
            if abs(v + d).bit_length() != abs(v).bit_length():
                d = 0
            raw.append(v + d)
        xd = r.choice([sd, sd, None])
        f = 10 ** r.uniform(-1.2, 0.3)
    if r.random() < 0.3:
        raw[r.randrange(n)] = raw[r.randrange(n)]            # a tie
    if len(set(eff(v) for v in raw)) < 2:
        raw[0] = raw[0] + (2 ** 50 if sub == "huge" else 2 ** 34 if sub == "big" else 1) * (1 if raw[0] <= 0 else -1)
    xs = [eff(v) for v in raw]
    rng_ = max(xs) - min(xs)
    h = dyadic_near(rng_ * Fraction(f).limit_denominator(10 ** 6))
    case = {"sample": xs, "raw_sample": raw, "h": h, "kind": "int:" + sub, "sdtype": sd}
    if sub in ("big", "huge"):
        case["unit_pts"] = Fraction(2) ** (j + 10)      # "just outside the data" in units the values can carry
    if xd:
        case["xdtype"] = xd
    if h.denominator == 1 and r.random() < 0.4:
        case["hint"] = True
    if r.random() < 0.25:
        case["container"] = r.choice(["sorted_array", "sorted_slice", "list", "sorted_2d"])
        case["after"] = r.choice([["zero"], ["reverse"], ["plus1"]])
    return case


def gen_scale_case(r, tier):
    """an ordinary case multiplied by 2^e: squares of the bandwidth leave the binary64 range"""
    e = r.choice([-1, 1]) * (r.randint(500, 900) if r.random() < 0.7 else r.randint(60, 400))
    # Q arithmetic in Coq does not reduce fractions: with 2^-900-size values every region costs
    # multiplications of 10^4-bit numbers, so these cases keep to few regions (the class is the
    # arithmetic at the scale, not the number of regions; the ordinary cases have up to 4096)
    max_ratio = 24 if e < 0 else 400
    for _ in range(200):
        base = gen_struct_case(r, tier)
        if (max(base["sample"]) - min(base["sample"])) / base["h"] <= max_ratio:
            break
    u = Fraction(2) ** e
    return {"sample": [x * u for x in base["sample"]], "h": base["h"] * u, "kind": "scale:" + base["kind"],
            "unit": u, "scale_exp": e}


def gen_shared_case(r, tier):
    """the caller keeps the array it handed over and changes it in place afterwards"""
    for _ in range(200):         # up to 8 layers: the ordinary cases cover the large region tables
        case = gen_struct_case(r, tier)
        if (max(case["sample"]) - min(case["sample"])) / case["h"] <= 200:
            break
    case["container"] = r.choice(["sorted_array", "sorted_array", "sorted_slice", "sorted_strided", "sorted_2d",
                                  "list", "array"])
    case["after"] = r.choice([["affine", 2.0 ** r.randint(-3, 6), float(r.randint(-50, 50))],
                              ["affine", 3.0, -7.0], ["zero"], ["reverse"], ["plus1"]])
    case["kind"] = "shared:" + case["kind"]
    # the same values carried by float32 arrays (only when float32 holds them exactly)
    if r.random() < 0.35 and all(C.frac(np.float32(float(v))) == v for v in case["sample"]):
        case["sfloat"] = "float32"
    if r.random() < 0.35:
        case["xfloat"] = "float32"
    return case


# ---------------------------------------------------------------- the property, evaluated on the implementation
def exact_pdf(sample, h, x):
    """Exact Gaussian KDE at x in 60-digit decimal arithmetic."""
    hd = Decimal(h.numerator) / Decimal(h.denominator)
    xd = Decimal(x.numerator) / Decimal(x.denominator)
    tot = Decimal(0)
    for s in sample:
        z = (xd - Decimal(s.numerator) / Decimal(s.denominator)) / hd
        tot += (-(z * z) / 2).exp()
    pi = Decimal("3.14159265358979323846264338327950288419716939937510582097494")
    return float(tot / (len(sample) * hd * (2 * pi).sqrt()))


def exact_cdf(sample, h, x):
    return sum(0.5 * math.erfc(-float((x - s) / h) / math.sqrt(2.0)) for s in sample) / len(sample)


def n_excluded(kde, x):
    """Number of samples outside the slice the implementation uses for each point."""
    N = kde.sample.size
    try:
        labels, groups = kde.tree.region_groups(np.atleast_1d(x))
        out = [N] * len(np.atleast_1d(x))
        for l, g in zip(labels, groups):
            s = kde.slices[int(l)]
            for i in g:
                out[int(i)] = N - max(0, int(s.stop) - int(s.start))
        return out
    except Exception:
        return [N] * len(np.atleast_1d(x))


def value_failures(kde, sample, h, pts, x, pdf, cdf, unit=Fraction(1)):
    """density / cumulative function against the exact estimate of `sample` with bandwidth h.
    `unit`: scale of the data (2^e for the rescaled cases): a density has the unit 1/unit, and a kernel
    exp(-z^2/2) below the binary64 range underflows to 0 whatever the scale, so the absolute slack
    (1e-300 at scale one) is 1e-300/unit for tiny scales."""
    bad = []
    N = len(sample)
    hf = float(h)
    nex = n_excluded(kde, x)
    for i, p in enumerate(pts):
        ex = exact_pdf(sample, h, p)
        bound = nex[i] / N * E6125 / (hf * math.sqrt(2 * math.pi))
        slack = 1e-11 * ex + (1e-300 / float(unit) if unit < 1 else 1e-300)
        if not pdf[i] >= 0.0:
            bad.append(f"pdf({float(p)}) = {pdf[i]} is negative")
        elif pdf[i] > ex + slack or ex - pdf[i] > bound + slack:
            bad.append(f"pdf({float(p)}) = {float(pdf[i])!r} but the exact KDE is {ex!r}: outside the truncation "
                       f"bound [0, {bound:.3e}] (excluded {nex[i]}/{N})")
        cex = exact_cdf(sample, h, p)
        if not abs(cdf[i] - cex) <= nex[i] / N * PHI_TAIL + 1e-11:
            bad.append(f"cdf({float(p)}) = {float(cdf[i])!r} but the exact KDE cdf is {cex!r} "
                       f"(allowed {nex[i] / N * PHI_TAIL:.3e})")
    return bad


def cfg_text(cfg):
    return (" [" + ", ".join(f"{k}={v}" for k, v in cfg.items()) + "]") if cfg else ""


def property_failures(sample, h, pts, r=None, deep=True, cfg=None, raw=None, unit=Fraction(1)):
    """C12 itself on the implementation for a user bandwidth.  Returns list of strings.
    `cfg` says how the sample / the points are handed over (dtype, container, what the caller
    does with its array afterwards); the estimate must be the one of the VALUES `sample`."""
    bad = []
    cfg = cfg or {}
    try:
        kde, info = build_cfg(sample, h, cfg=cfg, raw=raw)
        x = points_array(pts, cfg)
        with warnings.catch_warnings():
            warnings.simplefilter("ignore")
            pdf = np.atleast_1d(kde(x)).astype(float)
            cdf = np.atleast_1d(kde.cdf(x)).astype(float)
    except Exception as e:
        return [f"GaussianKDE raised on a valid input{cfg_text(cfg)}: {e!r}"[:300]]
    if info["ctor_changed_caller"]:
        bad.append("the constructor changed the array it was given")
    vb = value_failures(kde, sample, h, pts, x, pdf, cdf, unit)
    if vb and cfg:
        vb = [v + cfg_text(cfg) for v in vb]
    bad += vb
    order = np.argsort(x.astype(float), kind="stable")
    cs = cdf[order]
    if np.any(np.diff(cs) < -1e-12):
        k = int(np.argmin(np.diff(cs)))
        bad.append(f"cdf decreases from {cs[k]!r} at {x[order][k]} to {cs[k + 1]!r} at {x[order][k + 1]}")
    if not deep:
        return bad
    # scalar vs array, permutations
    with warnings.catch_warnings():
        warnings.simplefilter("ignore")
        for i in range(len(pts)):
            ps, cs_ = float(kde(x[i])), float(kde.cdf(x[i]))
            if not (close(ps, pdf[i]) and close(cs_, cdf[i])):
                bad.append(f"scalar call at {x[i]} gives ({ps!r}, {cs_!r}), array call ({pdf[i]!r}, {cdf[i]!r})")
                break
        r = r or C.rng_for(PROP, "oracle")
        perm = list(range(len(pts)))
        r.shuffle(perm)
        p2 = np.atleast_1d(kde(x[perm]))
        c2 = np.atleast_1d(kde.cdf(x[perm]))
        if not all(close(p2[j], pdf[perm[j]]) and close(c2[j], cdf[perm[j]]) for j in range(len(perm))):
            bad.append("results change when the evaluation points are reordered")
        idx = list(range(len(sample)))
        r.shuffle(idx)
        sp = [sample[i] for i in idx]
        rp = [raw[i] for i in idx] if raw is not None else None
        fresh = plain(cfg, ("sdtype", "xdtype", "hint", "sfloat", "xfloat"))
        try:
            k2 = build(sp, h, cfg=fresh, raw=rp)
            if not (np.allclose(np.atleast_1d(k2(x)), pdf, rtol=1e-12, atol=0) and
                    np.allclose(np.atleast_1d(k2.cdf(x)), cdf, rtol=1e-12, atol=1e-15)):
                bad.append("results change when the sample is reordered" +
                           (" and handed over as a fresh array" if cfg.get("container") or cfg.get("after") else ""))
        except Exception as e:
            bad.append(f"reordered sample raises {e!r}"[:200])
        # the dtype that carries the values must not matter
        if cfg.get("sdtype") or cfg.get("xdtype") or cfg.get("hint") or cfg.get("sfloat") or cfg.get("xfloat"):
            try:
                kf = build(sample, h)
                xf = np.array([float(p) for p in pts])
                if not (np.allclose(np.atleast_1d(kf(xf)), pdf, rtol=1e-9, atol=1e-300) and
                        np.allclose(np.atleast_1d(kf.cdf(xf)), cdf, rtol=1e-9, atol=1e-12)):
                    bad.append(f"the same values give a different estimate when carried as float64{cfg_text(cfg)}")
            except Exception as e:
                bad.append(f"float64 copy of the input raises {e!r}"[:200])
        # shift / scale (exact in binary: a = 2^k, b dyadic); for cases at ordinary scale also by 2^+-600
        maps = [(Fraction(1024), Fraction(0)), (Fraction(1, 1024), Fraction(0)),
                (Fraction(1), 4096 * unit), (Fraction(8), -1000 * unit)]
        if unit == 1:
            maps += [(Fraction(2) ** -600, Fraction(0)), (Fraction(2) ** 600, Fraction(0))]
        for a, b in maps:
            try:
                k3 = build([a * s + b for s in sample], a * h)
                x3 = np.array([float(a * p + b) for p in pts])
                p3 = np.atleast_1d(k3(x3)) * float(a)
                c3 = np.atleast_1d(k3.cdf(x3))
                # a density below the binary64 range of the RESCALED estimate underflows there, legitimately
                atol = 1e-300 * float(a) if a > 2 ** 100 else 1e-300
                if not (np.allclose(p3, pdf, rtol=1e-9, atol=atol) and
                        np.allclose(c3, cdf, rtol=1e-9, atol=1e-12)):
                    bad.append(f"not covariant under x -> {float(a)}*x + {float(b)} (bandwidth {float(a)}*h)")
            except Exception as e:
                bad.append(f"x -> {float(a)}*x + {float(b)} raises {e!r}"[:200])
    return bad


def close(a, b, rtol=1e-12, atol=1e-300):
    return abs(a - b) <= rtol * max(abs(a), abs(b)) + atol


# ---------------------------------------------------------------- Coq side
def qlist(xs):
    return C.clist([C.cq(x) for x in xs]) + "%Q"


def coq_struct_case(case, obs):
    nl = lambda ns: C.clist([C.cnat(k) for k in ns])
    slices = C.clist([f"({C.cnat(a)}, {C.cnat(b)})" for a, b in obs["slices"]])
    groups = C.clist([f"({C.cnat(l)}, {nl(g)})" for l, g in obs["groups"]])
    return ("Build_kde_case " + " ".join([
        qlist(case["sample"]), C.cq(case["h"]), C.cnat(obs["n"]), qlist(obs["points"]),
        qlist(obs["sorted"]), qlist(obs["edges"]), slices, qlist(obs["offsets"]),
        nl(obs["regions"]), groups]))


BITS = ["sorted sample", "tree edges (linspace)", "slices (searchsorted cut-offs at mid -/+ 4h)",
        "cdf_offsets (lwr/N)", "region look-up of the evaluation points", "index groups",
        "coverage condition range <= 2^n h (layer count)"]


def coq_dtype_case(case, obs):
    zl = lambda zs: C.clist([C.cz(z) for z in zs]) + "%Z"
    xt = f"(Some {ITYPES[case['xdtype']]})" if case.get("xdtype") else "None"
    return ("Build_dtype_case " + " ".join([
        ITYPES[case["sdtype"]], xt, zl(case["raw_sample"]), zl(obs["raw_points"] or []),
        "(" + coq_struct_case(case, obs) + ")"]))


DTYPE_BITS = ["a raw value lies outside its integer type", "binary64 values of the integer sample (to_double)",
              "binary64 values of the integer evaluation points (to_double)"]


def describe(case, pts=None):
    d = {"sample_hex": [float(x).hex() for x in case["sample"]],
         "sample": [float(x) for x in case["sample"]],
         "bandwidth_hex": float(case["h"]).hex() if case.get("h") is not None else None,
         "bandwidth": float(case["h"]) if case.get("h") is not None else None}
    if case.get("raw_sample") is not None:
        d["raw_sample"] = [int(v) for v in case["raw_sample"]]
    if cfg_of(case):
        d["cfg"] = cfg_of(case)
    if case.get("scale_exp") is not None:
        d["scale_exp"] = case["scale_exp"]
    if pts is not None:
        d["points_hex"] = [float(p).hex() for p in pts]
    return d


def case_from_replay(c):
    case = {"sample": [C.frac(float.fromhex(v)) for v in c["sample_hex"]],
            "h": C.frac(float.fromhex(c["bandwidth_hex"]))}
    if c.get("raw_sample") is not None:
        case["raw_sample"] = [int(v) for v in c["raw_sample"]]
    case.update(c.get("cfg") or {})
    if c.get("scale_exp") is not None:
        case["scale_exp"] = int(c["scale_exp"])
        case["unit"] = Fraction(2) ** int(c["scale_exp"])
    return case


def case_failures(case, pts, r=None, deep=True):
    return property_failures(case["sample"], case["h"], pts, r, deep, cfg_of(case), case.get("raw_sample"),
                             case.get("unit", Fraction(1)))


# ---------------------------------------------------------------- object histories (round 4)
VIEWS = ["all", "all", "slice", "strided", "reversed", "2d"]


def view_of(buf, view):
    n = buf.size
    if view == "all":
        return buf, list(range(n))
    if view == "slice":
        return buf[1:-1], list(range(1, n - 1))
    if view == "strided":
        return buf[::2], list(range(0, n, 2))
    if view == "reversed":
        return buf[::-1], list(range(n - 1, -1, -1))
    if view == "2d":
        rows = 2 if n % 2 == 0 else 3 if n % 3 == 0 else 1
        return buf.reshape(rows, -1), list(range(n))
    raise ValueError(view)


def distinct(vals):
    """the same values with ties moved apart (a history needs a non-degenerate sample in every view)"""
    out, seen = [], set()
    top = max(vals)
    for v in vals:
        while v in seen:
            top += 1
            v = top
        seen.add(v)
        out.append(v)
    return out


def gen_history(r, tier):
    nb = r.choice([1, 1, 2])
    cells = []
    for _ in range(nb):
        n = r.randint(6, 12)
        sp = r.choice([0, -2, 3])
        vals = distinct([C.dyadic(r, 7, sp) for _ in range(n)])
        if r.random() < 0.7:
            vals.sort()
        cells.append(vals)
    events = []
    n_est = 0
    n_ev = r.randint(4, 7)
    for step in range(n_ev):
        u = r.random()
        if step == 0 or u < 0.3:
            events.append({"ev": "construct", "src": r.randrange(nb), "view": r.choice(VIEWS),
                           "mode": r.choice(["user", "user", "simple", "cv"]),
                           "hf": [r.randint(1, 8), r.choice([4, 8, 16, 64])]})
            n_est += 1
        elif u < 0.6 or step == 1:
            events.append({"ev": "affine", "src": r.randrange(nb), "a": r.choice([0.5, 2.0, 4.0, 2.0]),
                           "b": r.randint(-40, 40) / 4})
        elif u < 0.8:
            src = r.randrange(nb)
            sp = r.choice([0, -2, 3])
            vals = distinct([C.dyadic(r, 7, sp) for _ in range(len(cells[src]))])
            if r.random() < 0.6:
                vals.sort()
            events.append({"ev": "store", "src": src, "vals_hex": [float(v).hex() for v in vals]})
        else:
            events.append({"ev": "eval", "k": r.randrange(n_est)})
    return {"cells_hex": [[float(v).hex() for v in c] for c in cells], "events": events}


def run_history(hist):
    """Runs the history on the implementation.  Returns (coq_events, observations, failures):
    observations[i] = (caller arrays, every kde.sample) after event i, as exact rationals."""
    G = KDE()
    bufs = [np.array([float.fromhex(v) for v in c]) for c in hist["cells_hex"]]
    ests, obs, bad, evs = [], [], [], []
    with warnings.catch_warnings():
        warnings.simplefilter("ignore")
        for j, ev in enumerate(hist["events"]):
            try:
                if ev["ev"] == "construct":
                    buf = bufs[ev["src"]]
                    view, sel = view_of(buf, ev["view"])
                    given = [C.frac(v) for v in np.asarray(view).ravel()]
                    evs.append(f"EConstruct {C.cnat(ev['src'])} " + C.clist([C.cnat(i) for i in sel]))
                    snap = buf.copy()
                    if ev["mode"] == "user":
                        rng_ = max(given) - min(given)
                        h = float(dyadic_near(rng_ * Fraction(ev["hf"][0], ev["hf"][1])))
                        kde = G(view, bandwidth=h)
                    else:
                        kde = G(view, cross_validation=(ev["mode"] == "cv"))
                    if not np.array_equal(buf, snap):
                        bad.append(f"event {j}: the constructor changed the array it was given")
                    h = float(kde.h)
                    lo, hi = float(min(given)), float(max(given))
                    x = np.linspace(lo - 3 * h, hi + 3 * h, 9)
                    ests.append({"kde": kde, "given": given, "x": x, "h": C.frac(h), "born": j,
                                 "pdf": np.atleast_1d(kde(x)).copy(), "cdf": np.atleast_1d(kde.cdf(x)).copy()})
                elif ev["ev"] == "affine":
                    bufs[ev["src"]] *= ev["a"]
                    bufs[ev["src"]] += ev["b"]
                    evs.append(f"EAffine {C.cnat(ev['src'])} {C.cq(ev['a'])} {C.cq(ev['b'])}")
                elif ev["ev"] == "store":
                    vals = [float.fromhex(v) for v in ev["vals_hex"]]
                    bufs[ev["src"]][:] = vals
                    evs.append(f"EStore {C.cnat(ev['src'])} {qlist([C.frac(v) for v in vals])}")
                else:
                    evs.append(f"EEval {C.cnat(ev['k'])}")
                    e = ests[ev["k"]]
                    snaps = [b.copy() for b in bufs]
                    xq = e["x"].copy()
                    p1, c1 = np.atleast_1d(e["kde"](xq)), np.atleast_1d(e["kde"].cdf(xq))
                    keep = (p1.copy(), c1.copy())
                    e["kde"](xq[::-1] + 0.25 * float(e["h"])), e["kde"].cdf(xq[::-1] + 0.25 * float(e["h"]))
                    if not (np.array_equal(p1, keep[0]) and np.array_equal(c1, keep[1])):
                        bad.append(f"event {j}: a later call changed the array an earlier call had returned")
                    p1 *= 0.0           # the caller may do what it likes with the arrays it was given back
                    c1 *= 0.0
                    if not np.array_equal(xq, e["x"]):
                        bad.append(f"event {j}: an evaluation changed the array of evaluation points")
                    if not all(np.array_equal(b, s_) for b, s_ in zip(bufs, snaps)):
                        bad.append(f"event {j}: an evaluation changed an array of the caller")
            except Exception as e:
                bad.append(f"event {j} ({ev['ev']}) raises {e!r}"[:250])
                return evs, obs, bad
            obs.append(([[C.frac(v) for v in b] for b in bufs], [[C.frac(v) for v in e["kde"].sample] for e in ests]))
            # every estimator must still be the estimate of the values it was given
            for k, e in enumerate(ests):
                try:
                    p, c = np.atleast_1d(e["kde"](e["x"])), np.atleast_1d(e["kde"].cdf(e["x"]))
                except Exception as ex:
                    bad.append(f"after event {j} ({ev['ev']}) estimator {k} raises {ex!r}"[:250])
                    continue
                if not (np.array_equal(p, e["pdf"]) and np.array_equal(c, e["cdf"])) and not e.get("told"):
                    e["told"] = True
                    vb = value_failures(e["kde"], e["given"], e["h"], [C.frac(v) for v in e["x"]], e["x"],
                                        p.astype(float), c.astype(float))
                    bad.append(f"after event {j} ({ev['ev']} by the caller on its own array) estimator {k}, built at "
                               f"event {e['born']}, no longer returns what it returned before"
                               + (": " + vb[0] if vb else ""))
    return evs, obs, bad


def coq_hist_case(hist, evs, obs):
    cl = lambda cells: C.clist([qlist(c) for c in cells])
    cells = [[C.frac(float.fromhex(v)) for v in c] for c in hist["cells_hex"]]
    o = C.clist([f"({cl(oc)}, {cl(oe)})" for oc, oe in obs], ";\n   ")
    return f"Build_hist_case {cl(cells)}\n  {C.clist(evs)}\n  {o}"


def shrink_history(hist):
    """drops events (never the first construction) while the history still fails"""
    def fails(events):
        if not events or events[0]["ev"] != "construct":
            return False
        n_est = 0
        for e in events:
            if e["ev"] == "construct":
                n_est += 1
            elif e["ev"] == "eval" and e["k"] >= n_est:
                return False
        try:
            return bool(run_history(dict(hist, events=events))[2])
        except Exception:
            return False
    if not fails(hist["events"]):
        return hist
    return dict(hist, events=C.shrink_list(hist["events"], fails, min_len=1, budget=40))


# ---------------------------------------------------------------- bandwidth modes
def gen_float_sample(r, n, kind):
    if kind == "normal":
        return [r.gauss(0, 1) for _ in range(n)]
    if kind == "bimodal":
        return [r.gauss(0, 1) + r.choice([0, 6]) for _ in range(n)]
    if kind == "skewed":
        return [r.expovariate(1.0) for _ in range(n)]
    if kind == "heavy":
        return [r.gauss(0, 1) / max(abs(r.gauss(0, 1)), 0.05) for _ in range(n)]
    if kind == "ties":
        return [float(round(r.gauss(0, 2) * 4)) / 4 for _ in range(n)]
    raise ValueError(kind)


def recorder_class():
    G = KDE()

    class Rec(G):
        widths = []

        def cross_validation_logprob(self, samples, width, c=0.99):
            Rec.widths.append(float(width))
            return super().cross_validation_logprob(samples, width, c)
    return Rec


def mode_h(sample, mode):
    """bandwidth the implementation selects; mode in simple / cv"""
    k = build(sample, None, cv=(mode == "cv"))
    return float(k.h), k


def bandwidth_equivariance_failures(sample, mode):
    """[R] h(a*s + b) = a*h(s) for the automatic modes (5% tolerance; a = 2^k)."""
    bad = []
    try:
        h0, _ = mode_h(sample, mode)
    except Exception as e:
        return [f"{mode} bandwidth raises on the unscaled sample: {e!r}"[:250]]
    for a, b in ((2.0 ** -20, 0.0), (2.0 ** 20, 0.0), (1.0, 1e6), (2.0 ** 10, -3e4), (2.0 ** -10, 7.0)):
        try:
            h1, k1 = mode_h([a * s + b for s in sample], mode)
        except Exception as e:
            bad.append(f"{mode} bandwidth: data scaled by {a} and shifted by {b} raises {e!r}"[:250])
            continue
        if not abs(h1 / (a * h0) - 1.0) <= 0.05:
            bad.append(f"{mode} bandwidth: h = {h0!r} for the sample but {h1!r} = {h1 / (a * h0):.4g} * a*h "
                       f"for the data scaled by a = {a} and shifted by {b}")
    return bad


# ---------------------------------------------------------------- the run
def run(rep: C.Report, tier: str) -> int:
    quick = tier == "quick"
    import time
    T0 = [time.time()]
    stages = {}

    def lap(name):
        stages[name] = round(time.time() - T0[0], 1)
        T0[0] = time.time()
        rep.coverage["stage_seconds"] = stages
    C.clean_gen(PROP)
    C.prove_and_audit(rep, PROP, THEOREMS)
    from concurrent.futures import ThreadPoolExecutor
    # supplementary theorem files, audited in a background thread beside the rest of the run:
    #  - the exact KDE integrates to one; Phi tail property
    #  - cumulative-function clauses (exact cdf monotone / limits / derivative; truncation bound with eps = Phi(-3.5))
    #  - round 4: object histories, integer dtypes, shift / scale for every a > 0
    _cdf = ["C12_exact_cdf_monotone", "C12_exact_cdf_strictly_increasing", "C12_exact_cdf_range", "C12_exact_cdf_limits",
            "C12_exact_cdf_derivative", "C12_exact_cdf_integral", "C12_exact_cdf_at_monotone", "C12_exact_cdf_at_integral",
            "C12_Phi_tail_sharp", "C12_Phi_tail_value", "C12_cdf_truncation_bound_lists", "C12_cdf_truncation_bound",
            "C12_cdf_monotone_across_regions", "C12_cdf_monotone_across_regions_uniform", "C12_cdf_range",
            "C12_cdf_far_left", "C12_cdf_far_right", "C12_exact_cdf_far_left", "C12_exact_cdf_far_right"]
    _gn = ['GaussNorm_kde_exact_normalised', 'GaussNorm_kde_exact_total', 'GaussNorm_kde_exact_at_normalised',
           'GaussNorm_kde_Phi_tail_property', 'GaussNorm_Phi_limits']
    apool = ThreadPoolExecutor(max_workers=3)
    supp = [("gaussnorm_audit", len(_gn), apool.submit(C.coq_audit, "C12_gaussnorm", _gn, "IT.Properties.GaussNorm")),
            ("cdf_theorems_audit", len(_cdf), apool.submit(C.coq_audit, "C12_cdf", _cdf, "IT.Properties.C12Cdf")),
            ("inputs_theorems_audit", len(THEOREMS_INPUTS),
             apool.submit(C.coq_audit, "C12_inputs", THEOREMS_INPUTS, "IT.Properties.C12Inputs"))]
    lap("audit")

    pool = ThreadPoolExecutor(max_workers=5)

    # ---------- 1. discrete structure, exactly ----------
    r = C.rng_for(PROP, "structure")
    n_struct = 110 if quick else 1500
    cases, obs_l = [], []
    for k in range(n_struct):
        case = gen_struct_case(r, tier)
        obs = observe_structure(case, r)
        cases.append(case)
        obs_l.append(obs)
        R_ = max(case["sample"]) - min(case["sample"])
        ratio = float(case["h"] / R_)
        rep.count("h/range " + ("<1e-2" if ratio < 1e-2 else "<1" if ratio < 1 else "<4" if ratio < 4 else ">=4"))
        rep.count("kind=" + case["kind"])
        rep.count(f"N<={10 * (1 + (len(case['sample']) - 1) // 10)}")
        if obs["status"] == "ok":
            rep.count(f"layers={obs['n']}")
        rep.case((case["sample"], case["h"]), nontrivial=True)
        if k < 3 and obs["status"] == "ok":
            rep.sample({"sample": [float(x) for x in case["sample"][:10]], "N": len(case["sample"]),
                        "bandwidth": float(case["h"]), "layers": obs["n"],
                        "points": [float(p) for p in obs["points"][:6]],
                        "pdf": [float(v) for v in obs["pdf"][:6]]})
    # round 4: the same comparison for samples handed over with an integer dtype, at extreme
    # scales, and in containers the caller changes in place after the construction
    rx = C.rng_for(PROP, "inputs")
    first_extra = len(cases)
    n_extra = {"int": 14, "scale": 10, "shared": 12} if quick else {"int": 48, "scale": 24, "shared": 48}
    family = {}
    for fam, gen in (("int", gen_int_case), ("scale", gen_scale_case), ("shared", gen_shared_case)):
        for j in range(n_extra[fam]):
            case = gen(rx, tier)
            obs = observe_structure(case, rx)
            family[len(cases)] = fam
            cases.append(case)
            obs_l.append(obs)
            rep.count("kind=" + case["kind"].split(":")[0] + ":*")
            if fam == "int":
                rep.count("kind=" + case["kind"])
            for key in ("sdtype", "xdtype", "container", "sfloat", "xfloat"):
                if case.get(key):
                    rep.count(f"{key}={case[key]}")
            if case.get("sdtype") and not case.get("xdtype"):
                rep.count("xdtype=float64 (integer sample)")
            if case.get("hint"):
                rep.count("bandwidth given as int")
            if case.get("after"):
                rep.count("caller afterwards: " + case["after"][0])
            if case.get("scale_exp") is not None:
                e = case["scale_exp"]
                rep.count("scale 2^e, e " + ("<= -500" if e <= -500 else "< 0" if e < 0 else "< 500" if e < 500 else ">= 500"))
            if case.get("raw_sample"):
                m = max(abs(v) for v in case["raw_sample"])
                d = max(case["raw_sample"]) - min(case["raw_sample"])
                rep.count("integer magnitude " + ("< 2^15" if m < 2 ** 15 else "< 2^53" if m < 2 ** 53 else ">= 2^53"))
                rep.count("integer spread " + ("< 2^32" if d < 2 ** 32 else ">= 2^32"))
            if obs["status"] == "ok":
                rep.count(f"layers={obs['n']}")
            rep.case((case["sample"], case["h"], sorted(cfg_of(case).items())), nontrivial=True)
            if j == 0 and obs["status"] == "ok":
                rep.sample({"family": case["kind"], "sample": [float(x) for x in case["sample"][:6]],
                            "N": len(case["sample"]), "bandwidth": float(case["h"]), "cfg": cfg_of(case),
                            "layers": obs["n"], "points": [float(p) for p in obs["points"][:4]],
                            "pdf": [float(v) for v in obs["pdf"][:4]]}, limit=8)
    lap("run implementation (structure)")
    suspicious = {}          # case index -> reason
    texts, dtexts = [], []
    for k, (case, obs) in enumerate(zip(cases, obs_l)):
        if obs["status"] != "ok":
            suspicious[k] = obs["error"]
            continue
        if obs["n"] > 12:
            continue
        if case.get("sdtype"):
            dtexts.append((k, coq_dtype_case(case, obs)))
        else:
            texts.append((k, coq_struct_case(case, obs)))
    files, index = [], []
    CH = 8
    std = [t for t in texts if t[0] < first_extra]
    ext = [t for t in texts if t[0] >= first_extra]
    chunks = [std[i:i + CH] for i in range(0, len(std), CH)]
    CHX = 3 if quick else 6      # round-4 cases (2^-900-size rationals) are slower per case: spread them
    chunks += [ext[i:i + CHX] for i in range(0, len(ext), CHX)]
    for ci, chunk in enumerate(chunks):
        body = "Definition cases : list kde_case :=\n " + C.clist([t for _, t in chunk], ";\n ") + "."
        p = C.write_case_file(PROP, f"structure_{ci}", HEADER, body, ["failing_codes cases 0"])
        files.append(p)
        index.append([k for k, _ in chunk])
    n_plain_files = len(files)
    CH = 3 if quick else 8       # round-4 cases (large integers / 2^-900-size rationals) are slower per case: spread them
    for i in range(0, len(dtexts), CH):
        chunk = dtexts[i:i + CH]
        body = "Definition cases : list dtype_case :=\n " + C.clist([t for _, t in chunk], ";\n ") + "."
        p = C.write_case_file(PROP, f"dtype_{i // CH}", HEADER_INPUTS, body, ["failing_dtype cases 0"])
        files.append(p)
        index.append([k for k, _ in chunk])
    fut_struct = pool.submit(C.run_case_files, files, 7 if quick else 14)

    # ---------- 2. pdf / cdf values by interval goals ----------
    rg = C.rng_for(PROP, "goals")
    defs, goals = [], []
    goal_case = {}
    ng = {"pdf": 0, "cdf": 0}

    def add_goals(k, budget):
        case, obs = cases[k], obs_l[k]
        if obs["status"] != "ok" or len(case["sample"]) > 30 or obs["n"] > 12:
            return
        if k < first_extra:
            sref = f"s_{k}"
            defs.append(f"Definition {sref} : list Q := {qlist(case['sample'])}.")
        else:
            # the preamble with the definitions is re-read by every goal file: the long literals of the
            # round-4 cases (2^-900-size rationals) go into their own goals instead
            sref = "(" + qlist(case["sample"]) + ")"
        pts = list(range(len(obs["points"])))
        rg.shuffle(pts)
        for i in pts[:(1 if case.get("scale_exp") is not None else 2)]:
            if budget["pdf"] <= 0:
                break
            v = C.frac(obs["pdf"][i])
            tol = abs(v) * Fraction(1, 10 ** 9) + Fraction(1, 10 ** 30) / case.get("unit", 1)
            st = (f"Rabs (pdf_code_at {obs['n']} {sref} {C.cq(case['h'])} {C.cq(obs['points'][i])} - "
                  f"{C.cR(v)}) <= {C.cR(tol)}")
            gid = f"pdf_{k}_{i}"
            goals.append((gid, st, "kde_pdf_goal"))
            goal_case[gid] = (k, i)
            budget["pdf"] -= 1
            ng["pdf"] += 1
        if len(case["sample"]) <= 10 and budget["cdf"] > 0:
            # integral enclosures get expensive for |z| >> 10: stay within 6 h of the data
            lo, hi, h = min(case["sample"]), max(case["sample"]), case["h"]
            near = [i for i in pts[2:] if lo - 6 * h <= obs["points"][i] <= hi + 6 * h]
            if near:
                i = near[0]
                v = C.frac(obs["cdf"][i])
                st = (f"Rabs (cdf_code_at {obs['n']} {sref} {C.cq(case['h'])} {C.cq(obs['points'][i])} - "
                      f"{C.cR(v)}) <= {C.cR(Fraction(1, 10 ** 8))}")
                gid = f"cdf_{k}_{i}"
                goals.append((gid, st, "kde_cdf_goal"))
                goal_case[gid] = (k, i)
                budget["cdf"] -= 1
                ng["cdf"] += 1

    budget = {"pdf": 100 if quick else 900, "cdf": 14 if quick else 200}
    for k in range(first_extra):
        add_goals(k, budget)
    budget_x = {"pdf": 72 if quick else 150, "cdf": 8 if quick else 16}       # round-4 cases: their own budget
    for k in range(first_extra, len(cases)):
        add_goals(k, budget_x)
    n_pdf, n_cdf = ng["pdf"], ng["cdf"]
    pre = GOAL_PREAMBLE + "\n".join(defs) + "\n"
    # cdf goals are the slow ones: spread them over the chunks
    goals.sort(key=lambda g: g[0].startswith("cdf"))
    nchunks = max(1, (len(goals) + 9) // 10)
    goals = [g for c in range(nchunks) for g in goals[c::nchunks]]
    fut_vals = pool.submit(I.check_goals, PROP, "values", goals, pre, "", max(1, (len(goals) + nchunks - 1) // nchunks),
                           8 if quick else 14, 600)

    # ---------- 3. bandwidth modes: goals ----------
    rb = C.rng_for(PROP, "bandwidth")
    bw_goals, bw_case = [], {}
    Rec = recorder_class()
    n_bw = 10 if quick else 60
    bw_samples = []
    for k in range(n_bw):
        kind = rb.choice(["normal", "bimodal", "skewed", "heavy", "ties"])
        n = rb.randint(5, 10) if k % 2 == 0 else rb.randint(40, 300 if quick else 1500)
        s = gen_float_sample(rb, n, kind)
        sc = rb.choice([1.0, 1e-3, 250.0, 1e5]) if k % 3 else 1.0
        s = [v * sc + rb.choice([0.0, 0.0, 1e3 * sc]) for v in s]
        bw_samples.append((kind, s))
        rep.count("bandwidth-sample=" + kind)
        try:
            Rec.widths = []
            kd = build(s, None, cv=True, cls=Rec)
            h0 = float(kd.simple_bandwidth_estimator())
            widths = list(Rec.widths[:5])
        except Exception as e:
            rep.obligation(False)
            bad = bandwidth_equivariance_failures(s, "cv") or [f"cross_validation=True raises {e!r}"[:250]]
            if not any(v["replay"].get("mode") == "cv" for v in rep.violations):
                rep.violation("C12/property", bad[0],
                              {"check": "bandwidth", "mode": "cv", "sample_hex": [float(v).hex() for v in s]}, True)
            continue
        if n <= 10:
            lit = C.clist([C.cR(v) for v in s])
            st = f"Rabs (rule_of_thumb {lit} - {C.cR(h0)}) <= {C.cR(C.frac(h0) / 10 ** 9)}"
            gid = f"rot_{k}"
            bw_goals.append((gid, st, "kde_rot_goal"))
            bw_case[gid] = (s, "simple")
        for m in range(5):
            if m < len(widths):
                st = (f"Rabs (nth {m} (cv_widths {C.cR(h0)}) 0 - {C.cR(widths[m])}) <= "
                      f"{C.cR(C.frac(widths[m]) / 10 ** 9)}")
                gid = f"cv_{k}_{m}"
                bw_goals.append((gid, st, "kde_cv_goal"))
                bw_case[gid] = (s, "cv")
    fut_bw = pool.submit(I.check_goals, PROP, "bandwidth", bw_goals, GOAL_PREAMBLE, "", 28, 2 if quick else 6, 600)
    lap("generate goals")

    # ---------- 3b. object histories: buffers, estimators, the caller's in-place updates ----------
    rh = C.rng_for(PROP, "history")
    hists, hist_runs = [], []
    for k in range(16 if quick else 80):
        hist = gen_history(rh, tier)
        evs, obs, bad = run_history(hist)
        hists.append(hist)
        hist_runs.append((evs, obs, bad))
        for ev in hist["events"]:
            rep.count("history event=" + ev["ev"] + (":" + ev["view"] if ev["ev"] == "construct" else ""))
        rep.count(f"history estimators={sum(1 for e in hist['events'] if e['ev'] == 'construct')}")
        rep.case(("history", hist["cells_hex"], repr(hist["events"])), nontrivial=True)
        if k == 0:
            rep.sample({"history": hist["events"], "buffers": [[float.fromhex(v) for v in c] for c in hist["cells_hex"]]},
                       limit=9)
    hfiles, hindex = [], []
    HCH = 8
    complete = [k for k, (evs, obs, bad) in enumerate(hist_runs) if len(obs) == len(hists[k]["events"])]
    for i in range(0, len(complete), HCH):
        chunk = complete[i:i + HCH]
        body = ("Definition cases : list hist_case :=\n " +
                C.clist([coq_hist_case(hists[k], hist_runs[k][0], hist_runs[k][1]) for k in chunk], ";\n ") + ".")
        hfiles.append(C.write_case_file(PROP, f"history_{i // HCH}", HEADER_INPUTS, body, ["failing_hist cases 0"]))
        hindex.append(chunk)
    fut_hist = pool.submit(C.run_case_files, hfiles, 3 if quick else 8)
    lap("histories")

    # ---------- 4. [R] runs on the implementation while Coq works ----------
    rs = C.rng_for(PROP, "search")
    step = 6 if quick else 3
    n_oracle = 0
    for k in range(0, first_extra, step):
        if obs_l[k]["status"] != "ok":
            continue
        bad = case_failures(cases[k], obs_l[k]["points"], rs)
        n_oracle += 1
        if bad:
            small = shrink_struct(cases[k], obs_l[k]["points"])
            rep.violation("C12/property", "; ".join(bad[:2]),
                          {"check": "values", "case": describe(small[0], small[1])}, True)
            break
    told = set()
    for k in range(first_extra, len(cases)):          # every round-4 case; one report per family
        if obs_l[k]["status"] != "ok" or family[k] in told:
            continue
        bad = case_failures(cases[k], obs_l[k]["points"], rs, deep=(quick or k % 3 == 0))
        n_oracle += 1
        if bad:
            told.add(family[k])
            small = shrink_struct(cases[k], obs_l[k]["points"])
            rep.violation("C12/property", "; ".join(bad[:2]),
                          {"check": "values", "family": family[k], "case": describe(small[0], small[1])}, True)
    rep.coverage["oracle_runs_R"] = n_oracle
    n_hist_bad = 0
    for k, (evs, obs, bad) in enumerate(hist_runs):
        if bad:
            n_hist_bad += 1
            if n_hist_bad == 1:
                small = shrink_history(hists[k])
                b2 = run_history(small)[2] or bad
                rep.violation("C12/property", "; ".join(b2[:2]), {"check": "history", "history": small}, True)
    rep.coverage["history_runs_R"] = {"histories": len(hists), "failing": n_hist_bad}
    n_eq = 0
    for kind, s in bw_samples[: (6 if quick else 40)]:
        for mode in ("simple", "cv"):
            bad = bandwidth_equivariance_failures(s, mode)
            n_eq += 1
            if bad and not any(v["replay"].get("mode") == mode for v in rep.violations):
                rep.violation("C12/property", bad[0],
                              {"check": "bandwidth", "mode": mode, "sample_hex": [float(v).hex() for v in s]}, True)
    rep.coverage["bandwidth_equivariance_runs_R"] = n_eq
    rc = C.rng_for(PROP, "cdf")
    n_cdf_runs = 0
    for k in range(8 if quick else 60):
        kind = rc.choice(["normal", "bimodal", "skewed", "heavy", "ties"])
        s = gen_float_sample(rc, rc.randint(20, 400), kind)
        mode = rc.choice(["user", "simple", "cv"])
        bad = cdf_failures(s, mode, rc)
        n_cdf_runs += 1
        if bad:
            rep.violation("C12/property", bad[0], {"check": "cdf", "mode": mode,
                                                  "sample_hex": [float(v).hex() for v in s]}, True)
            break
    rep.coverage["cdf_runs_R"] = n_cdf_runs
    lap("[R] runs")

    # ---------- 5. collect the Coq results ----------
    for key, n_th, f in supp:
        try:
            rep.coverage[key] = f.result()
            rep.obligation(True, n_th)
        except C.ProofFailure as _e:
            rep.obligation(False, n_th)
            rep.violation("C12/proof", f"proof obligation no longer checks: {_e.what}",
                          {"theorem_or_correspondence": _e.what, "log": _e.log[-1000:]}, False)
    apool.shutdown()
    lap("wait: supplementary audits")
    outs = fut_struct.result()
    n_checked = 0
    for fno, (p, idx, (ok, res, log)) in enumerate(zip(files, index, outs)):
        if not ok or 0 not in res:
            rep.obligation(False)
            rep.violation("C12/correspondence-run", f"case file {p.name} did not evaluate",
                          {"theorem_or_correspondence": f"correspondence file {p.name}", "log": log[-800:]}, False)
            continue
        rep.obligation(True)
        n_checked += len(idx)
        codes = res[0]
        cm = {codes[j]: codes[j + 1] for j in range(0, len(codes) - 1, 2)}
        for j in sorted(cm):
            code = cm[j]
            what = []
            if fno >= n_plain_files:       # dtype cases: three conversion bits, then the structure bits
                what = [DTYPE_BITS[b] for b in range(3) if code >> b & 1]
                code >>= 3
            what += [BITS[b] for b in range(7) if code >> b & 1]
            suspicious[idx[j]] = "model and implementation disagree on: " + ", ".join(what)
            for w in what:
                rep.count("disagree:" + w.split(" (")[0])
    rep.coverage["structures_validated_against_impl"] = n_checked
    lap("wait: structure in Coq")

    n_hist_ok = 0
    for p, idx, (ok, res, log) in zip(hfiles, hindex, fut_hist.result()):
        if not ok or 0 not in res:
            rep.obligation(False)
            rep.violation("C12/correspondence-run", f"case file {p.name} did not evaluate",
                          {"theorem_or_correspondence": f"correspondence file {p.name}", "log": log[-800:]}, False)
            continue
        rep.obligation(True)
        codes = res[0]
        cm = {codes[j]: codes[j + 1] for j in range(0, len(codes) - 1, 2)}
        n_hist_ok += len(idx) - len(cm)
        for j in sorted(cm):
            k = idx[j]
            rep.count("disagree:object history")
            if hist_runs[k][2] or any(v["replay"].get("check") == "history" for v in rep.violations):
                continue            # already reported with its failing input
            small = shrink_history(hists[k])
            b2 = run_history(small)[2]
            ev = hists[k]["events"][cm[j] - 1]["ev"] if 0 < cm[j] <= len(hists[k]["events"]) else "?"
            why = (f"object-history model and implementation disagree after event {cm[j] - 1} ({ev}): an array the "
                   f"caller holds or an estimator's stored sample is not what Model.KdeInputs.run gives")
            if b2:
                rep.violation("C12/property", "; ".join(b2[:2]), {"check": "history", "history": small, "why": why}, True)
            else:
                rep.violation("C12/correspondence", why + " -- the property was not seen to fail on this history",
                              {"theorem_or_correspondence": "Model.KdeInputs.check_history", "history": hists[k]}, False)
    rep.coverage["histories_validated_against_impl"] = n_hist_ok
    lap("wait: histories in Coq")

    failed, broken = fut_vals.result()
    rep.obligation(True, len(goals) - len(failed))
    rep.obligation(False, len(failed))
    rep.coverage["interval_goals"] = {"pdf": n_pdf, "cdf": n_cdf, "failed": len(failed)}
    for b in broken:
        rep.violation("C12/goal-run", "a goal file could not be processed",
                      {"theorem_or_correspondence": "generated interval goals", "log": b[-800:]}, False)
    for gid, log in failed:
        k, i = goal_case[gid]
        suspicious.setdefault(k, f"interval goal {gid} fails: the model's value at point {float(obs_l[k]['points'][i])} "
                                 f"is not the implementation's")
    lap("wait: value goals")

    failed, broken = fut_bw.result()
    rep.obligation(True, len(bw_goals) - len(failed))
    rep.obligation(False, len(failed))
    rep.coverage["bandwidth_goals"] = {"total": len(bw_goals), "failed": len(failed)}
    for b in broken:
        rep.violation("C12/goal-run", "a bandwidth goal file could not be processed",
                      {"theorem_or_correspondence": "generated interval goals (bandwidth)", "log": b[-800:]}, False)
    seen = set()
    for gid, log in failed:
        s, mode = bw_case[gid]
        if (id(s), mode) in seen:
            continue
        seen.add((id(s), mode))
        bad = bandwidth_equivariance_failures(s, mode)
        if bad:
            if not any(v["replay"].get("mode") == mode for v in rep.violations):
                rep.violation("C12/property", bad[0],
                              {"check": "bandwidth", "mode": mode, "sample_hex": [float(v).hex() for v in s]}, True)
        else:
            rep.violation("C12/correspondence", f"bandwidth goal {gid} fails but shift/scale equivariance holds on this sample",
                          {"theorem_or_correspondence": "RealModel.Kde.rule_of_thumb / cv_widths",
                           "mode": mode, "sample_hex": [float(v).hex() for v in s]}, False)
    lap("wait: bandwidth goals")

    # ---------- 6. failing-input search on every disagreement ----------
    reported = 0
    for k in sorted(suspicious):
        if reported >= 3:
            break
        if family.get(k) in told:
            continue                # this family of inputs was already reported with a failing input
        case, obs = cases[k], obs_l[k]
        pts = obs.get("points") or fit_points(case, [min(case["sample"]), max(case["sample"])])
        bad = case_failures(case, pts, rs)
        if not bad:
            # targeted search: points within 3.4 bandwidths of a sample (where a kernel left out of the
            # slice would exceed the truncation bound)
            uniq = sorted(set(case["sample"]))[:40]
            extra = fit_points(case, [x + Fraction(c, 5) * case["h"] for x in uniq for c in range(-17, 18)])
            b2 = case_failures(case, extra, rs, deep=False)
            if b2:
                bad, pts = b2, extra
        if not bad:
            # neighbouring inputs: the same sample with a narrower user bandwidth (more regions), evaluated
            # on and next to the samples
            for div in (8, 64, 512):
                h2 = case["h"] / div
                c2 = {kk: v for kk, v in dict(case, h=h2).items() if kk != "hint"}
                uniq = sorted(set(case["sample"]))[:40]
                extra = fit_points(case, [x + Fraction(c, 2) * h2 for x in uniq for c in (-2, -1, 0, 1, 2)])
                try:
                    b2 = case_failures(c2, extra, rs, deep=False)
                except MemoryError:
                    break
                if b2:
                    bad, pts, case = b2, extra, c2
                    break
        reported += 1
        if bad:
            if family.get(k):
                told.add(family[k])
            small = shrink_struct(case, pts)
            rep.violation("C12/property", "; ".join(bad[:2]),
                          {"check": "values", "case": describe(small[0], small[1]), "why": suspicious[k]}, True)
        else:
            rep.violation("C12/correspondence", suspicious[k] + " -- the property was not seen to fail on this input",
                          {"theorem_or_correspondence": "Model.KdeRegions.check_structure / Model.KdeInputs.check_dtype / "
                                                        "RealModel.Kde goals",
                           "case": describe(case, pts)}, False)
    rep.coverage["correspondence_disagreements"] = len(suspicious)
    lap("search")
    pool.shutdown()

    rep.assumptions = [
        "layer count n = int(log(range/h)/log 2)+1 is a float computation: it is read back from the code and the "
        "model checks range <= 2^n h (the only fact the coverage theorem needs) exactly, per case",
        "np.sort / np.linspace / np.searchsorted(side=left) / np.unique semantics as modelled; order inside an index "
        "group is unspecified (argsort is not stable) and compared as a set",
        "scipy.special.erf is the error function: Phi z = (1 + erf(z/sqrt 2))/2 = 1/2 + int_0^z phi",
        "proved since (Properties/GaussNorm.v, Properties/C12Cdf.v): the exact KDE integrates to one, its cdf is monotone "
        "with limits 0 / 1 and derivative = pdf, Phi(-3.5) in (2.32e-4, 2.33e-4), the truncated cdf is within "
        "(excluded/N) Phi(-3.5) of the exact one, monotone across regions up to that slack and within it of 0 / 1 far "
        "outside the data. NOT PROVED: optimality of the "
        "cross-validated bandwidth; bandwidth search beyond its first five grid points is tied only by [R] "
        "equivariance runs",
        "round 4 (Properties/C12Inputs.v): an estimator keeps the sorted values it was handed whatever the caller "
        "does to its arrays before / afterwards (object-history model, compared after every event); the repaired "
        "constructor converts an integer sample to binary64 (to_double, checked against Python's int -> float on "
        "every integer case: exact up to 2^53, at most half an ulp beyond); pinned x - sample in the integer "
        "type refuted (D52); exact pdf / cdf covariant under x -> a x + b for every rational a > 0 (all scales). "
        "Integer cases use values whose binary64 images have short significands, so that numpy.linspace is exact "
        "(the model computes the region edges exactly, as for every other case)",
    ]
    return rep.finish(
        level="proof",
        checker_cmd="make -C /verif/coq (coqc 8.16.1) + coqc on coq/gen/C12/*.v (vm_compute; coq-interval interval / integral_intro)",
        trusted_base=C.KERNEL_TB + [
            "coq-interval (reflexive interval / integral enclosures; primitive Uint63 / PrimFloat operations)",
            "axioms: Coq Reals (ClassicalDedekindReals.sig_forall_dec, sig_not_dec, functional_extensionality_dep), "
            "Classical_Prop.classic (Coquelicot); the discrete-structure theorems are closed under the global context"],
        rule="samples: ints with ties / dyadic / two clusters / outlier / heavy-tailed (N 3..60), bandwidth dyadic, "
             "log-uniform in [range/3500, 100 range] (up to 12 layers / 4096 regions); 16 evaluation points per case: inside, exactly on region edges, "
             "on samples, just outside, far outside; a case counts as distinct by (sample, bandwidth); bandwidth-mode "
             "and cdf runs use seeded float samples (normal / bimodal / skewed / heavy / ties); "
             "round 4, each with its own structure / value comparison: integer-typed samples and points (int8..uint64: "
             "narrow types using most of their range, counts, (A+m)2^j time-stamps with differences up to 2^52, values "
             "beyond 2^53 that the conversion rounds; points of the same, another integer, or float dtype; bandwidth "
             "as int), whole cases scaled by 2^e with |e| in 60..400 / 500..900, samples handed over as list / ordered "
             "array / ordered slice / strided view / 2-D array that the caller rescales, refills, reverses or zeroes in "
             "place before the tables are read back; object histories of 4-7 events over 1-2 buffers (construct from "
             "whole / slice / strided / reversed / 2-D views in the three bandwidth modes, affine update, refill, "
             "evaluate) compared after every event; every round-4 case also goes through the property oracle "
             "(incl. float64 copy of the same values, shift / scale by 2^+-10 and 2^+-600)")


def cdf_failures(s, mode, r):
    bad = []
    try:
        if mode == "user":
            sd = float(np.std(s))
            k = build(s, Fraction(sd * 10 ** r.uniform(-2, 0.5)).limit_denominator(10 ** 9))
        else:
            k = build(s, None, cv=(mode == "cv"))
        lo, hi, h = float(k.sample[0]), float(k.sample[-1]), float(k.h)
        x = np.linspace(lo - 9 * h, hi + 9 * h, 4001)
        with warnings.catch_warnings():
            warnings.simplefilter("ignore")
            c = np.atleast_1d(k.cdf(x))
            p = np.atleast_1d(k(x))
    except Exception as e:
        return [f"{mode}: raises {e!r}"[:250]]
    if np.any(np.diff(c) < -1e-12):
        j = int(np.argmin(np.diff(c)))
        bad.append(f"{mode}: cdf decreases between {x[j]!r} and {x[j + 1]!r}: {c[j]!r} -> {c[j + 1]!r}")
    if abs(c[0]) > 1e-9 or abs(c[-1] - 1) > 1e-9:
        bad.append(f"{mode}: cdf limits are {c[0]!r} and {c[-1]!r}, not 0 and 1")
    if np.any(p < 0):
        bad.append(f"{mode}: negative density")
    # cdf = integral of pdf (trapezium on a fine grid; tolerance covers quadrature + truncation)
    integ = np.concatenate([[0.0], np.cumsum(0.5 * (p[1:] + p[:-1]) * np.diff(x))])
    dxh = (x[1] - x[0]) / h
    tol = 2e-3 + 0.2 * dxh * dxh
    if np.max(np.abs(integ - (c - c[0]))) > tol:
        j = int(np.argmax(np.abs(integ - (c - c[0]))))
        bad.append(f"{mode}: cdf({x[j]!r}) = {c[j]!r} but the integral of the pdf up to there is {integ[j]!r}")
    if abs(integ[-1] - 1.0) > tol:
        bad.append(f"{mode}: the density integrates to {integ[-1]!r}")
    return bad


def shrink_struct(case, pts):
    raw = case.get("raw_sample")

    def sub(idx):
        c2 = dict(case, sample=[case["sample"][i] for i in idx])
        if raw is not None:
            c2["raw_sample"] = [raw[i] for i in idx]
        return c2

    def fails(idx):
        xs = [case["sample"][i] for i in idx]
        if len(set(xs)) < 2 or len(xs) < 3:
            return False
        return bool(case_failures(sub(idx), pts, deep=False))
    if not case_failures(case, pts, deep=False):
        return case, pts
    idx = C.shrink_list(list(range(len(case["sample"]))), fails, min_len=3, budget=60)
    c2 = sub(idx)
    p2 = C.shrink_list(pts, lambda ps: len(ps) >= 1 and bool(case_failures(c2, ps, deep=False)),
                       min_len=1, budget=40)
    return c2, p2


def replay(path):
    d = json.load(open(path))
    rp = d["replay"]
    chk = rp.get("check")
    if chk == "values":
        c = rp["case"]
        pts = [C.frac(float.fromhex(v)) for v in c["points_hex"]]
        bad = case_failures(case_from_replay(c), pts)
    elif chk == "history":
        bad = run_history(rp["history"])[2]
    elif chk == "bandwidth":
        s = [float.fromhex(v) for v in rp["sample_hex"]]
        bad = bandwidth_equivariance_failures(s, rp["mode"])
    elif chk == "cdf":
        s = [float.fromhex(v) for v in rp["sample_hex"]]
        bad = cdf_failures(s, rp["mode"], C.rng_for(PROP, "cdf-replay"))
    else:
        print("replay names a broken theorem / correspondence:", rp.get("theorem_or_correspondence"))
        return 1
    print("property failures:", bad)
    return 1 if bad else 0
