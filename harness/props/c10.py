"""C10 -- covariance and mean functions are valid and their gradients are exact.

Theorems: coq/theories/Properties/C10.v about RealModel/Kernels.v, RealModel/Means.v
(real-valued formula models, Coquelicot `is_derive`) and Model/Slices.v (exact).

Tie to the code (DESIGN 2.2): the real classes of inference/gp/covariance.py and mean.py
are run on generated kernels (base kernels, sums of up to 4, change-points with 2..4
kernels, one level of nesting, d = 1..3, n <= 6) with rational points / hyper-parameters;
every sampled entry of __call__, build_covariance, covariance_and_gradients (value and
each gradient matrix), build_mean, mean_and_gradients becomes a coq-interval goal
    Rabs (model inputs - value_impl) <= tol
in coq/gen/C10; slices / labels / bounds / n_params are compared exactly (vm_compute).
Runtime-only [R] second opinions on the implementation: exact symmetry of the returned
matrices, minimum eigenvalue, builder vs pairwise __call__, composite = its components
on the slices, and central differences of the implementation's own values (this last
one is the oracle used to look for a concrete failing input when a goal fails).

Offset data (added after seeded change C10_2; Properties/C10Offset.v): two fifths of the
cases are repeated with an integer vector (+-[2^e, 2^(e+1)), e = 10..31, exact in double)
added to every data / query point and to the change-point locations -- time stamps, map
coordinates.  Theorems: every entry of __call__, build_covariance, every gradient matrix
and the diagonal terms of the moved problem equal those of the original (ktranslated: base
kernels, sums, change-points, any nesting), the Gram matrix K(x+c, x+c) has the quadratic
form of K(x, x), and the squared-exponential kernel IS positive semi-definite (proved:
C10_se_psd).  Run: the same goals on the offset coordinates (plus entries of the generic
evaluation K(x, x) itself), and as oracle on the implementation: eigenvalues of K(x, x)
(every case), builder vs pairwise, and every returned matrix against the one returned for
the original data.
"""
from __future__ import annotations

import json
import warnings
from fractions import Fraction

import numpy as np

from lib import common as C
from lib import interval as I

PROP = "C10"
THEOREMS = [
    "C10_symmetry_base", "C10_symmetry_sum", "C10_symmetry_changepoint",
    "C10_se_gradient", "C10_rq_gradient", "C10_noise_gradients",
    "C10_sum_gradient", "C10_changepoint_gradient",
    "C10_mean_gradients", "C10_mean_build_eq_call",
    "C10_builder_eq_pairwise_base", "C10_builder_eq_pairwise_sum", "C10_builder_eq_pairwise_changepoint",
    "C10_psd_closed", "C10_psd_builder_base", "C10_psd_builder_sum", "C10_psd_builder_changepoint",
    "C10_slices_partition", "C10_composite_concatenates", "C10_changepoint_concatenates",
    "C10_sum_value_gradients_in_order",
    "C10_changepoint_grad_pinned_two_kernels", "C10_changepoint3_grad_refuted",
]

OFFSET_THEOREMS = [
    "C10_offset_base_kernels", "C10_offset_sum", "C10_offset_sum_stationary",
    "C10_offset_changepoint", "C10_offset_changepoint_stationary",
    "C10_offset_entries", "C10_offset_cross_entries", "C10_offset_builder_eq_pairwise",
    "C10_offset_gram_quadratic_form", "C10_gram_psd_anywhere",
    "C10_se_psd", "C10_se_builder_psd", "C10_se_composites_psd",
]

PREAMBLE = """From Coq Require Import Reals List.
From Interval Require Import Tactic.
From IT Require Import Model.Slices RealModel.Kernels RealModel.Means.
From ITGen Require Import C10.Cases.
Import ListNotations.
Open Scope R_scope.
Ltac kcbv := cbv -[Rplus Rminus Rmult Ropp Rdiv Rinv exp ln pow IZR Rabs Rle].
"""
CASES_HEADER = """From Coq Require Import Reals List.
From IT Require Import Model.Slices RealModel.Kernels RealModel.Means.
Import ListNotations.
Open Scope R_scope.
"""
SLICES_HEADER = """From Coq Require Import List String QArith.
From IT Require Import Model.Slices.
Import ListNotations.
Open Scope string_scope.
"""
H_STEP = Fraction(1, 2 ** 20)      # central-difference step (exact in double)
EPS = 2.0 ** -52
# exponents e of the offsets +-[2^e, 2^(e+1)) given to at least one coordinate of the m-th offset case
OFFSET_EXPONENTS = [31, 24, 28, 20, 26, 17, 30, 22, 14, 27, 19, 11, 29, 23, 16, 25, 21, 13]


def mods():
    import inference.gp.covariance as cov
    import inference.gp.mean as mean
    return cov, mean


# ------------------------------------------------------------------ kernel specs
def n_params(spec, d, n):
    t = spec["t"]
    if t == "se":
        return d + 1
    if t == "rq":
        return d + 2
    if t == "wn":
        return 1
    if t == "hn":
        return n
    if t == "sum":
        return sum(n_params(s, d, n) for s in spec["ks"])
    if t == "cp":
        return sum(n_params(s, d, n) for s in spec["ks"]) + 2 * (len(spec["ks"]) - 1)
    raise ValueError(t)


def has_noise(spec):
    if spec["t"] in ("wn", "hn"):
        return True
    return any(has_noise(s) for s in spec.get("ks", []))


def base_kinds(spec):
    if spec["t"] in ("se", "rq", "wn", "hn"):
        return [spec["t"]]
    return [b for s in spec["ks"] for b in base_kinds(s)]


def describe_spec(spec):
    t = spec["t"]
    if t in ("se", "rq", "wn", "hn"):
        return t
    if t == "sum":
        return "sum[" + ",".join(describe_spec(s) for s in spec["ks"]) + "]"
    return f"cp{len(spec['ks'])}@{spec['axis']}[" + ",".join(describe_spec(s) for s in spec["ks"]) + "]"


def shape_key(spec):
    t = spec["t"]
    if t == "sum":
        return f"sum{len(spec['ks'])}" + ("+nested-cp" if any(s["t"] == "cp" for s in spec["ks"]) else "")
    if t == "cp":
        return f"cp{len(spec['ks'])}" + ("+nested-sum" if any(s["t"] == "sum" for s in spec["ks"]) else "")
    return t


def build_kernel(spec, cov):
    t = spec["t"]
    b = spec.get("bounds")
    b = [tuple(float(Fraction(v)) for v in p) for p in b] if b else None
    if t == "se":
        return cov.SquaredExponential(hyperpar_bounds=b)
    if t == "rq":
        return cov.RationalQuadratic(hyperpar_bounds=b)
    if t == "wn":
        return cov.WhiteNoise(hyperpar_bounds=b)
    if t == "hn":
        return cov.HeteroscedasticNoise(hyperpar_bounds=b)
    subs = [build_kernel(s, cov) for s in spec["ks"]]
    if t == "sum":
        if spec.get("via_add", True):
            k = subs[0]
            for s in subs[1:]:
                k = k + s
            return k
        return cov.CompositeCovariance(subs)
    if t == "cp":
        return cov.ChangePoint(subs, axis=spec["axis"])
    raise ValueError(t)


def coq_kernel(spec, d, n):
    t = spec["t"]
    if t == "se":
        return f"se {d}"
    if t == "rq":
        return f"rq {d}"
    if t == "wn":
        return "wn"
    if t == "hn":
        return f"hn {n}"
    inner = "; ".join(coq_kernel(s, d, n) for s in spec["ks"])
    if t == "sum":
        return f"ksum [{inner}]"
    return f"kcp {spec['axis']} [{inner}]"


def q16(r, lo, hi, den=16):
    return Fraction(r.randint(int(lo * den), int(hi * den)), den)


def gen_theta(r, spec, d, n, xs):
    t = spec["t"]
    if t == "se":
        return [q16(r, -1, 1)] + [q16(r, -1, 1) for _ in range(d)]
    if t == "rq":
        return [q16(r, -1, 1), q16(r, -1, 2)] + [q16(r, -1, 1) for _ in range(d)]
    if t == "wn":
        return [q16(r, -3, 0)]
    if t == "hn":
        return [q16(r, -3, 0) for _ in range(n)]
    th = []
    for s in spec["ks"]:
        th += gen_theta(r, s, d, n, xs)
    if t == "cp":
        col = [p[spec["axis"]] for p in xs]
        lo, hi = min(col), max(col)
        for _ in range(len(spec["ks"]) - 1):
            loc = lo + (hi - lo) * Fraction(r.randint(0, 16), 16) if hi > lo else lo
            wid = Fraction(r.randint(3, 20), 16)
            if r.random() < 0.1:
                wid = -wid           # the formulas hold for any non-zero width
            th += [loc, wid]
    return th


def gen_base(r, allow_noise=True, user_bounds=False, d=1, n=1):
    kinds = ["se", "se", "rq", "rq"] + (["wn", "hn"] if allow_noise else [])
    t = r.choice(kinds)
    spec = {"t": t}
    if user_bounds and r.random() < 0.4:
        m = n_params(spec, d, n)
        spec["bounds"] = [[str(Fraction(r.randint(-64, -1), 8)), str(Fraction(r.randint(1, 64), 8))] for _ in range(m)]
    return spec


def gen_spec(r, d, n, family):
    if family == "base":
        return gen_base(r, d=d, n=n)
    if family == "sum":
        m = r.randint(2, 4)
        return {"t": "sum", "ks": [gen_base(r, user_bounds=True, d=d, n=n) for _ in range(m)],
                "via_add": r.random() < 0.5}
    if family == "cp":
        m = r.randint(2, 4)
        return {"t": "cp", "axis": r.randrange(d),
                "ks": [gen_base(r, allow_noise=(r.random() < 0.3), d=d, n=n) for _ in range(m)]}
    if family == "sum_of_cp":
        m = r.randint(2, 3)
        ks = [gen_base(r, user_bounds=True, d=d, n=n) for _ in range(m)]
        ks[r.randrange(m)] = gen_spec(r, d, n, "cp")
        return {"t": "sum", "ks": ks, "via_add": r.random() < 0.5}
    if family == "cp_of_sum":
        m = r.randint(2, 4)
        ks = [gen_base(r, allow_noise=False, d=d, n=n) for _ in range(m)]
        inner = {"t": "sum", "ks": [gen_base(r, d=d, n=n) for _ in range(r.randint(2, 3))], "via_add": True}
        ks[r.randrange(m)] = inner
        return {"t": "cp", "axis": r.randrange(d), "ks": ks}
    raise ValueError(family)


FAMILIES = ["base", "sum", "cp", "cp", "sum_of_cp", "cp_of_sum"]


def gen_points(r, m, d):
    pts = []
    while len(pts) < m:
        p = [Fraction(r.randint(-24, 24), 8) for _ in range(d)]
        if p not in pts:
            pts.append(p)
    return pts


def gen_case(r, k, tier):
    d = r.randint(1, 3)
    n = r.randint(2, 6)
    fam = FAMILIES[k % len(FAMILIES)] if k < 2 * len(FAMILIES) else r.choice(FAMILIES)
    spec = gen_spec(r, d, n, fam)
    if k % 6 == 2 and k < 36:          # make sure 3- and 4-kernel change-points are always present
        spec = gen_spec(r, d, n, "cp")
        while len(spec["ks"]) != 3 + (k // 6) % 2:
            spec = gen_spec(r, d, n, "cp")
    xs = gen_points(r, n, d)
    theta = gen_theta(r, spec, d, n, xs)
    u = gen_points(r, r.randint(1, 3), d)
    v = gen_points(r, r.randint(1, 3), d)
    if r.random() < 0.3:
        v[0] = u[0]
    y = [Fraction(r.randint(-40, 40), 8) for _ in range(n)]
    if max(y) == min(y):
        y[0] += 1
    return {"id": k, "d": d, "n": n, "spec": spec, "xs": xs, "theta": theta, "u": u, "v": v, "y": y}


def arr(rows):
    return np.array([[float(x) for x in row] for row in rows], dtype=float)


def vec(xs):
    return np.array([float(x) for x in xs], dtype=float)


# ------------------------------------------------------------------ offset data (translations)
def layout(spec, d, n, off=0):
    """Walks the flat hyper-parameter vector in the order of gen_theta (= the model's ksum / kcp).
    Returns (n_params, scales, cps): scales = [(index of ln l_k, k)] for every SE / RQ
    length-scale, cps = [(index of the location, index of the width, axis)] for every change-point."""
    t = spec["t"]
    if t == "se":
        return d + 1, [(off + 1 + j, j) for j in range(d)], []
    if t == "rq":
        return d + 2, [(off + 2 + j, j) for j in range(d)], []
    if t == "wn":
        return 1, [], []
    if t == "hn":
        return n, [], []
    tot, scales, cps = 0, [], []
    for s in spec["ks"]:
        m, sc, cp = layout(s, d, n, off + tot)
        tot += m
        scales += sc
        cps += cp
    if t == "cp":
        for _ in range(len(spec["ks"]) - 1):
            cps.append((off + tot, off + tot + 1, spec["axis"]))
            tot += 2
    return tot, scales, cps


def exact_double(q):
    return C.frac(float(q)) == q


def moved(case, c, sign):
    """The same problem with sign*c added to every point of xs, u, v and sign*c[axis] to every
    change-point location (exact rationals); asserts that all of them are doubles."""
    mv = lambda ps: [[x + sign * ck for x, ck in zip(p, c)] for p in ps]
    th = list(case["theta"])
    for loc, _, ax in layout(case["spec"], case["d"], case["n"])[2]:
        th[loc] = th[loc] + sign * c[ax]
    out = dict(case, xs=mv(case["xs"]), u=mv(case["u"]), v=mv(case["v"]), theta=th)
    for q in [x for p in out["xs"] + out["u"] + out["v"] for x in p] + th:
        assert exact_double(q), "translated problem is not representable in double"
    return out


def translate(case, c, new_id):
    out = moved(case, [int(v) for v in c], +1)
    out["shift"] = [int(v) for v in c]
    out["id"] = new_id
    return out


def origin_case(case):
    """The problem of which `case` is the translate by case['shift'] (exact)."""
    if not case.get("shift"):
        return case
    out = moved(case, case["shift"], -1)
    out["shift"] = None
    return out


def gen_shift(ro, case, m, new_id):
    """Integer offsets +-[2^e, 2^(e+1)) per coordinate, e in 10..31; one coordinate gets the
    exponent OFFSET_EXPONENTS[m] so that every run covers the whole range."""
    d = case["d"]
    forced = ro.randrange(d)
    while True:
        c = []
        for j in range(d):
            e = OFFSET_EXPONENTS[m % len(OFFSET_EXPONENTS)] if j == forced else ro.randint(10, 31)
            c.append(ro.choice([1, 1, -1]) * ro.randint(1 << e, (2 << e) - 1))
        try:
            return translate(case, c, new_id)
        except AssertionError:      # more than 53 bits needed: draw again
            continue


def allowance_fn(case):
    """Relative error of one kernel value k(p, q) that round-off of the order of one ulp of the
    COORDINATES may cause (any evaluation that forms p/l, q/l or (x - location)/width in double
    has it); 16x margin.  Zero for cases near the origin (their obligations are unchanged).
    A kernel evaluated through |p|^2 + |q|^2 - 2 p.q is wrong by eps*(|p|/l)^2, i.e.
    |p| / (16 |p - q|) times more (and by eps*(|p|/l)^2 on the diagonal, where this is zero
    for kernels without change-points)."""
    if not case.get("shift"):
        return lambda p, q: 0.0
    import math
    d, n = case["d"], case["n"]
    th = [float(t) for t in case["theta"]]
    _, scales, cps = layout(case["spec"], d, n)
    lmin = [min([math.exp(th[idx]) for idx, k in scales if k == j], default=math.inf) for j in range(d)]

    def allow(p, q):
        p = [float(x) for x in p]
        q = [float(x) for x in q]
        a = sum((abs(p[j]) + abs(q[j])) * abs(p[j] - q[j]) / lmin[j] ** 2 for j in range(d))
        for _, w, ax in cps:
            a += (abs(p[ax]) + abs(q[ax])) / abs(th[w])
        return 16 * EPS * a
    return allow


def allowance_matrix(case, ps, qs):
    al = allowance_fn(case)
    return np.array([[al(p, q) for q in qs] for p in ps], dtype=float)


# ------------------------------------------------------------------ running the code
def run_impl(case):
    """Everything the implementation returns for the case (floats), or an error."""
    cov, _ = mods()
    out = {"status": "ok"}
    with warnings.catch_warnings():
        warnings.simplefilter("ignore")
        try:
            K = build_kernel(case["spec"], cov)
            x = arr(case["xs"])
            th = vec(case["theta"])
            K.pass_spatial_data(x)
            out["kernel"] = K
            out["n_params"] = K.n_params
            if K.n_params != len(th):
                return {"status": "exception", "where": "n_params",
                        "error": f"n_params = {K.n_params}, expected {len(th)}"}
            # history dimension: the hyper-parameter array is first used with other values (every
            # entry point once), then overwritten IN PLACE with the intended ones -- the results
            # must follow the values in the array, not the identity of the object
            th_final = th.copy()
            th[:] = th_final + 0.25
            try:
                K.build_covariance(th)
                K.covariance_and_gradients(th)
                K(arr(case["u"]), arr(case["v"]), th)
            except Exception:
                pass            # the warm-up values are only a history, not a compared input
            th[:] = th_final
            out["build"] = np.asarray(K.build_covariance(th), dtype=float)
            cg = K.covariance_and_gradients(th)
            out["cag_K"] = np.asarray(cg[0], dtype=float)
            out["grads"] = [np.asarray(g, dtype=float) for g in cg[1]]
        except Exception as e:
            return {"status": "exception", "where": "build/gradients", "error": repr(e)}
        try:
            u, v = arr(case["u"]), arr(case["v"])
            out["call"] = np.asarray(K(u, v, th), dtype=float)
            out["call_xx"] = np.asarray(K(x, x, th), dtype=float)
        except Exception as e:
            out["status"] = "call-exception"
            out["error"] = repr(e)
    return out


def non_finite(out):
    """Names of the returned matrices that contain inf / nan (never legitimate: the model is finite everywhere)."""
    mats = [("build_covariance", out.get("build")), ("covariance_and_gradients[0]", out.get("cag_K")),
            ("__call__(u, v)", out.get("call")), ("__call__(x, x)", out.get("call_xx"))]
    mats += [(f"gradient {p}", g) for p, g in enumerate(out.get("grads", []))]
    return [name for name, M in mats if M is not None and not bool(np.isfinite(M).all())]


def eval_build(case, theta):
    cov, _ = mods()
    with warnings.catch_warnings():
        warnings.simplefilter("ignore")
        K = build_kernel(case["spec"], cov)
        K.pass_spatial_data(arr(case["xs"]))
        return np.asarray(K.build_covariance(vec(theta)), dtype=float)


# ------------------------------------------------------------------ the property, on the implementation
def oracle(case, out, entries=None, origin_out=None):
    """Evaluate C10 itself on what the implementation returned.  Returns a list of
    (key, what, detail) -- empty when the property holds on this input.
    For an offset case (case['shift']) `origin_out` is what the implementation returned for the
    same problem moved back to the origin (computed here when not given)."""
    bad = []
    n, np_ = case["n"], len(case["theta"])
    shifted = bool(case.get("shift"))
    A_xx = allowance_matrix(case, case["xs"], case["xs"]) if shifted else np.zeros((n, n))
    where = f" [data offset by {case['shift']}]" if shifted else ""
    if out["status"] == "exception":
        return [("C10/exception", f"the implementation raised on a valid input ({out['where']}): {out['error']}", {})]
    B, Kc, G = out["build"], out["cag_K"], out["grads"]
    nf = non_finite(out)
    if nf:
        return [("C10/non-finite", f"{', '.join(nf[:3])} contain(s) inf / nan on a valid input" + where, {"matrices": nf[:6]})]
    scale = max(1e-300, float(np.abs(B).max()))
    if B.shape != (n, n) or Kc.shape != (n, n):
        bad.append(("C10/shape", f"build_covariance has shape {B.shape}, expected {(n, n)}", {}))
        return bad
    if len(G) != np_ or any(g.shape != (n, n) for g in G):
        bad.append(("C10/shape", f"{len(G)} gradient matrices of shapes {[g.shape for g in G][:3]}.., expected {np_} of {(n, n)}", {}))
        return bad
    # symmetry
    for name, M in [("build_covariance", B), ("covariance_and_gradients[0]", Kc)] + [(f"gradient {p}", g) for p, g in enumerate(G)]:
        asym = float(np.abs(M - M.T).max())
        if asym > 1e-13 * max(scale, float(np.abs(M).max())):
            bad.append(("C10/symmetry", f"{name} is not symmetric (max |M - M^T| = {asym:.3g})", {"matrix": name}))
    # value from covariance_and_gradients = build_covariance
    if float(np.abs(B - Kc).max()) > 1e-9 * scale:
        bad.append(("C10/cag-value", "covariance_and_gradients(theta)[0] differs from build_covariance(theta)", {}))
    # positive semi-definite
    ev = float(np.linalg.eigvalsh((B + B.T) / 2).min())
    if ev < -1e-10 * scale:
        bad.append(("C10/psd", f"build_covariance has eigenvalue {ev:.3g}", {}))
    # builder = pairwise + diagonal terms
    if out["status"] == "call-exception":
        key = "C10/D11-hn-call-shape" if "broadcast" in out["error"] or "shape" in out["error"] else "C10/call-exception"
        bad.append((key, f"__call__ raised on valid points: {out['error']}", {}))
    else:
        nu, nv = len(case["u"]), len(case["v"])
        if out["call"].shape != (nu, nv):
            bad.append(("C10/D11-hn-call-shape", f"__call__ returned shape {out['call'].shape} for {nu} x {nv} points", {}))
        P = out["call_xx"]
        if P.shape != (n, n):
            bad.append(("C10/D11-hn-call-shape", f"__call__(x, x) returned shape {P.shape} for {n} points", {}))
        else:
            D = B - P
            off = D - np.diag(np.diag(D))
            if bool(np.any(np.abs(off) > (1e-12 + A_xx) * scale)):
                i, j = np.unravel_index(int((np.abs(off) - A_xx * scale).argmax()), off.shape)
                bad.append(("C10/builder-offdiag",
                            f"build_covariance differs from __call__(x, x) off the diagonal: entry ({i},{j}) "
                            f"{B[i, j]:.12g} vs {P[i, j]:.12g}" + where, {"i": int(i), "j": int(j)}))
            for i in range(n):
                dd = Fraction(float(B[i, i])) - Fraction(float(P[i, i]))
                jit = Fraction(float(P[i, i])) / 10 ** 12
                slack = Fraction(float(A_xx[i, i])) * abs(Fraction(float(B[i, i])))     # 0 near the origin
                if has_noise(case["spec"]):
                    okd = dd >= jit * Fraction(98, 100) - slack
                else:
                    okd = abs(dd - jit) <= jit * Fraction(2, 100) + slack
                if not okd:
                    bad.append(("C10/builder-diagonal",
                                f"diagonal entry {i}: build - pairwise = {float(dd):.6g}, jitter a^2*1e-12 = {float(jit):.6g}" + where,
                                {"i": i}))
                    break
            # the generic pairwise evaluation K(x, x) is itself symmetric positive semi-definite
            ps = max(1e-300, float(np.abs(P).max()))
            asym = float(np.abs(P - P.T).max())
            if asym > 1e-13 * ps:
                bad.append(("C10/symmetry", f"__call__(x, x) is not symmetric (max |K - K^T| = {asym:.3g})" + where,
                            {"matrix": "__call__(x, x)"}))
            evs = np.linalg.eigvalsh((P + P.T) / 2)
            if float(evs.min()) < -(1e-10 + n * float(A_xx.max())) * ps:
                bad.append(("C10/psd-call", f"__call__(x, x) has eigenvalue {float(evs.min()):.3g} "
                                            f"(largest {float(evs.max()):.3g})" + where, {}))
    # offset data: every returned matrix equals the one returned for the data moved back to the origin
    if shifted:
        bad += oracle_translation(case, out, origin_out, A_xx)
    # gradients = central differences of the implementation's own build_covariance
    h = H_STEP
    worst = None
    for p in range(np_):
        tp = list(case["theta"]); tp[p] = tp[p] + h
        tm = list(case["theta"]); tm[p] = tm[p] - h
        try:
            fd = (eval_build(case, tp) - eval_build(case, tm)) / float(2 * h)
        except Exception as e:
            bad.append(("C10/exception", f"build_covariance raised at theta +- h: {e!r}", {}))
            break
        err = np.abs(fd - G[p])
        gs = max(scale, float(np.abs(G[p]).max()), float(np.abs(fd).max()))
        i, j = np.unravel_index(int(err.argmax()), err.shape)
        if float(err[i, j]) > 2e-6 * gs:
            if worst is None or float(err[i, j]) > worst[0]:
                worst = (float(err[i, j]), p, int(i), int(j), float(G[p][i, j]), float(fd[i, j]))
    if worst is not None:
        e, p, i, j, g, f = worst
        lab = out["kernel"].hyperpar_labels[p] if p < len(out["kernel"].hyperpar_labels) else "?"
        key = "C10/D13-changepoint-gradient" if "ChngPnt" in lab and ("location" in lab or "width" in lab) else "C10/gradient"
        bad.append((key, f"gradient w.r.t. hyper-parameter {p} ('{lab}') entry ({i},{j}) is {g:.9g} but the central "
                         f"difference of build_covariance (h = 2^-20) is {f:.9g}", {"p": p, "i": i, "j": j}))
    bad += oracle_components(case, out)
    return bad


def oracle_translation(case, out, origin_out, A_xx):
    """Theorem C10_offset_entries on the implementation: the matrices returned on the offset data
    against those returned for the same problem at the origin."""
    bad = []
    oc = origin_case(case)
    o0 = origin_out if origin_out is not None else run_impl(oc)
    if o0["status"] == "exception":
        return [("C10/translation", f"the problem moved back to the origin by {case['shift']} raises: {o0['error']}", {})]
    n = case["n"]
    sc = max(1e-300, float(np.abs(o0["build"]).max()))
    pairs = [("build_covariance", out["build"], o0["build"], A_xx, 1.0)]
    pairs += [(f"gradient {p}", g, g0, A_xx, 4.0) for p, (g, g0) in enumerate(zip(out["grads"], o0["grads"]))]
    if out["status"] == "ok" and o0["status"] == "ok":
        pairs.append(("__call__(x, x)", out["call_xx"], o0["call_xx"], A_xx, 1.0))
        pairs.append(("__call__(u, v)", out["call"], o0["call"], allowance_matrix(case, case["u"], case["v"]), 1.0))
    worst = None
    for name, M, M0, A, f in pairs:
        if M.shape != M0.shape:
            bad.append(("C10/translation", f"{name} has shape {M.shape} on the offset data, {M0.shape} at the origin", {}))
            return bad
        ms = max(sc, float(np.abs(M0).max()))
        exc = np.abs(M - M0) - (1e-12 + f * A) * ms
        i, j = np.unravel_index(int(exc.argmax()), exc.shape)
        if float(exc[i, j]) > 0 and (worst is None or float(exc[i, j]) / ms > worst[0]):
            worst = (float(exc[i, j]) / ms, name, int(i), int(j), float(M[i, j]), float(M0[i, j]))
    if worst is not None:
        _, name, i, j, a, b = worst
        bad.append(("C10/translation",
                    f"{name} entry ({i},{j}) is {a:.12g} on the data offset by {case['shift']} but {b:.12g} "
                    f"for the same points, change-point locations moved along, at the origin",
                    {"matrix": name, "i": i, "j": j}))
    return bad


def oracle_components(case, out):
    """A sum's value / gradients are those of its components on the slices, in order."""
    bad = []
    spec = case["spec"]
    if spec["t"] != "sum":
        return bad
    cov, _ = mods()
    x, th = arr(case["xs"]), vec(case["theta"])
    off = 0
    tot = np.zeros((case["n"], case["n"]))
    grads = []
    with warnings.catch_warnings():
        warnings.simplefilter("ignore")
        for s in spec["ks"]:
            m = n_params(s, case["d"], case["n"])
            k = build_kernel(s, cov)
            k.pass_spatial_data(x)
            Kk, gk = k.covariance_and_gradients(th[off:off + m])
            tot = tot + Kk
            grads += list(gk)
            off += m
    scale = float(np.abs(tot).max())
    if float(np.abs(tot - out["cag_K"]).max()) > 1e-12 * scale:
        bad.append(("C10/composite-value", "composite covariance is not the sum of its components on their slices", {}))
    for p, (a, b) in enumerate(zip(grads, out["grads"])):
        if float(np.abs(np.asarray(a) - b).max()) > 1e-12 * max(scale, float(np.abs(b).max())):
            bad.append(("C10/composite-gradients", f"composite gradient {p} is not the corresponding component gradient", {"p": p}))
            break
    return bad


# ------------------------------------------------------------------ goals
def tol_for(obs, scale):
    return I.tolerance(obs, rel=1e-9, absolute=0) + Fraction(1, 10 ** 11) * C.frac(max(scale, 1e-300))


def pick_entries(r, n, k_max, symmetric=True):
    ents = [(i, j) for i in range(n) for j in range(i if symmetric else 0, n)]
    if len(ents) <= k_max:
        return ents
    diag = [(i, i) for i in range(n)]
    offd = [e for e in ents if e[0] != e[1]]
    chosen = [r.choice(diag)] + r.sample(offd, min(k_max - 1, len(offd)))
    return chosen


def case_defs(case):
    k = case["id"]
    pts = lambda ps: "[" + "; ".join("[" + "; ".join(C.cR(c) for c in p) + "]" for p in ps) + "]"
    return "\n".join([
        f"Definition K_{k} : kernel := {coq_kernel(case['spec'], case['d'], case['n'])}.",
        f"Definition xs_{k} : list pt := {pts(case['xs'])}.",
        f"Definition us_{k} : list pt := {pts(case['u'])}.",
        f"Definition vs_{k} : list pt := {pts(case['v'])}.",
        f"Definition th_{k} : list R := [" + "; ".join(C.cR(t) for t in case["theta"]) + "].",
    ])


def goals_for(case, out, r, budget):
    """List of (id, statement, meta)."""
    k, n = case["id"], case["n"]
    goals = []
    B, Kc, G = out["build"], out["cag_K"], out["grads"]
    scale = float(np.abs(B).max())
    # offset cases: what one ulp of the coordinates may do (zero near the origin), see allowance_fn
    shifted = bool(case.get("shift"))
    al = allowance_fn(case)
    xs, us, vs = case["xs"], case["u"], case["v"]
    extra = lambda a, s, f=1: Fraction(f * a) * C.frac(max(s, 1e-300)) if a else 0
    sfx = "@off" if shifted else ""

    def add(kind, term, obs, meta, tol):
        gid = f"c{k}_{kind}_{len(goals)}"
        goals.append((gid, I.goal_abs_close(term, obs, tol), dict(meta, kind=kind + sfx, case=k, obs=float(obs))))

    def entries(m):
        if shifted and m == 1:      # one entry per matrix: an off-diagonal one (n >= 2)
            return [r.choice([(i, j) for i in range(n) for j in range(i + 1, n)])]
        return pick_entries(r, n, m)

    # build_covariance: upper triangle
    for (i, j) in entries(budget["build"]):
        add("build", f"kbuild K_{k} xs_{k} th_{k} {i} {j}", B[i, j], {"i": i, "j": j},
            tol_for(B[i, j], scale) + extra(al(xs[i], xs[j]), scale))
    # covariance_and_gradients value
    for (i, j) in entries(budget["cag"]):
        add("cagK", f"kbuild K_{k} xs_{k} th_{k} {i} {j}", Kc[i, j], {"i": i, "j": j},
            tol_for(Kc[i, j], scale) + extra(al(xs[i], xs[j]), scale))
    # every gradient matrix
    for p, g in enumerate(G):
        gs = max(scale, float(np.abs(g).max()))
        if shifted and r.random() >= budget.get("grad_fraction", 1.0):
            continue            # offset twins: a random subset of the gradient matrices (all of them are in the oracle)
        for (i, j) in entries(budget["grad"]):
            add("grad", f"kgrad K_{k} xs_{k} th_{k} {p} {i} {j}", g[i, j], {"p": p, "i": i, "j": j},
                tol=I.tolerance(g[i, j], rel=1e-9, absolute=0) + Fraction(1, 10 ** 11) * C.frac(gs)
                    + extra(al(xs[i], xs[j]), gs, 4))
    # __call__
    if out["status"] == "ok" and out["call"].shape == (len(case["u"]), len(case["v"])):
        cs = max(scale, float(np.abs(out["call"]).max()))
        ents = [(a, b) for a in range(len(case["u"])) for b in range(len(case["v"]))]
        for (a, b) in (ents if len(ents) <= budget["call"] else r.sample(ents, budget["call"])):
            add("call", f"kval K_{k} th_{k} (point us_{k} {a}) (point vs_{k} {b})", out["call"][a, b], {"a": a, "b": b},
                tol=I.tolerance(out["call"][a, b], rel=1e-9, absolute=0) + Fraction(1, 10 ** 11) * C.frac(cs)
                    + extra(al(us[a], vs[b]), cs))
        P = out["call_xx"]
        if P.shape == (n, n):
            # the generic evaluation on the data points themselves, K(x, x): a diagonal entry and off-diagonal ones
            ps = max(scale, float(np.abs(P).max()))
            for (i, j) in pick_entries(r, n, budget.get("callxx", 0)) if budget.get("callxx") else []:
                add("callxx", f"kval K_{k} th_{k} (point xs_{k} {i}) (point xs_{k} {j})", P[i, j], {"i": i, "j": j},
                    tol=I.tolerance(P[i, j], rel=1e-9, absolute=0) + Fraction(1, 10 ** 11) * C.frac(ps)
                        + extra(al(xs[i], xs[j]), ps))
            # documented diagonal terms: (build - pairwise)[i, i], to 2% of the jitter
            for i in r.sample(range(n), min(n, budget["diag"])):
                dd = C.frac(B[i, i]) - C.frac(P[i, i])
                t = Fraction(2, 10 ** 14) * abs(C.frac(B[i, i])) + extra(al(xs[i], xs[i]), abs(float(B[i, i])))
                add("diag", f"(kbuild K_{k} xs_{k} th_{k} {i} {i} - kval K_{k} th_{k} (point xs_{k} {i}) (point xs_{k} {i}))",
                    dd, {"i": i}, tol=t)
    return goals


# ------------------------------------------------------------------ means
MEANS = ["const", "lin", "quad"]


def run_mean(case):
    _, mean = mods()
    cls = {"const": mean.ConstantMean, "lin": mean.LinearMean, "quad": mean.QuadraticMean}[case["mean"]]
    with warnings.catch_warnings():
        warnings.simplefilter("ignore")
        try:
            m = cls()
            m.pass_spatial_data(arr(case["xs"]))
            th = vec(case["mtheta"])
            if m.n_params != len(th):
                return {"status": "exception", "error": f"n_params {m.n_params} != {len(th)}"}
            th_final = th.copy()
            th[:] = th_final + 0.25
            try:
                m.build_mean(th)
                m.mean_and_gradients(th)
            except Exception:
                pass
            th[:] = th_final
            b = np.asarray(m.build_mean(th), dtype=float)
            mg = m.mean_and_gradients(th)
            q = arr(case["u"])
            c = np.asarray(m(q, th), dtype=float)
            c = np.broadcast_to(c, (len(case["u"]),)) if c.ndim == 0 else c
            m.estimate_hyperpar_bounds(vec(case["y"]))
            return {"status": "ok", "obj": m, "build": b, "mag_v": np.asarray(mg[0], dtype=float),
                    "grads": [np.asarray(g, dtype=float) for g in mg[1]], "call": c,
                    "labels": list(m.hyperpar_labels), "n_params": m.n_params, "n_bounds": len(m.bounds)}
        except Exception as e:
            return {"status": "exception", "error": repr(e)}


def coq_mean(case):
    return {"const": "const_mean", "lin": f"lin_mean {case['d']}", "quad": f"quad_mean {case['d']}"}[case["mean"]]


def mean_defs(case):
    k = case["id"]
    return "\n".join([f"Definition M_{k} : meanfn := {coq_mean(case)}.",
                      f"Definition mth_{k} : list R := [" + "; ".join(C.cR(t) for t in case["mtheta"]) + "]."])


def mean_goals(case, mo):
    k, n = case["id"], case["n"]
    goals = []
    scale = max(1.0, float(np.abs(mo["build"]).max()))

    def add(kind, term, obs, meta):
        gid = f"c{k}_{kind}_{len(goals)}"
        goals.append((gid, I.goal_abs_close(term, obs, tol_for(obs, scale)), dict(meta, kind=kind, case=k, obs=float(obs))))
    for i in range(n):
        add("mbuild", f"mbuild M_{k} xs_{k} mth_{k} {i}", mo["build"][i], {"i": i})
    add("magv", f"mbuild M_{k} xs_{k} mth_{k} 0", mo["mag_v"][0], {"i": 0})
    for a in range(len(case["u"])):
        add("mcall", f"mcall M_{k} xs_{k} mth_{k} (point us_{k} {a})", mo["call"][a], {"a": a})
    for p, g in enumerate(mo["grads"]):
        for i in ([0, n - 1] if n > 1 else [0]):
            add("mgrad", f"mgrad M_{k} xs_{k} mth_{k} {p} {i}", g[i], {"p": p, "i": i})
    return goals


def mean_oracle(case, mo):
    """mean gradients = central differences of build_mean; build_mean = __call__ at the data."""
    bad = []
    if mo["status"] != "ok":
        return [("C10/mean-exception", f"mean function raised: {mo['error']}", {})]
    m = mo["obj"]
    n = case["n"]
    th = vec(case["mtheta"])
    if mo["build"].shape != (n,) or len(mo["grads"]) != len(th) or any(g.shape != (n,) for g in mo["grads"]):
        return [("C10/mean-shape", "build_mean / mean_and_gradients have the wrong shapes", {})]
    if mo["n_bounds"] != len(th) or len(mo["labels"]) != len(th):
        bad.append(("C10/mean-bookkeeping", "mean labels / bounds do not have n_params entries", {}))
    atx = np.asarray(m(arr(case["xs"]), th), dtype=float)
    atx = np.broadcast_to(atx, (n,)) if atx.ndim == 0 else atx
    sc = max(1.0, float(np.abs(mo["build"]).max()))
    if float(np.abs(atx - mo["build"]).max()) > 1e-12 * sc or float(np.abs(mo["mag_v"] - mo["build"]).max()) > 1e-12 * sc:
        bad.append(("C10/mean-build", "build_mean differs from __call__ at the data points", {}))
    h = float(H_STEP)
    for p in range(len(th)):
        e = np.zeros(len(th)); e[p] = h
        fd = (np.asarray(m.build_mean(th + e)) - np.asarray(m.build_mean(th - e))) / (2 * h)
        if float(np.abs(fd - mo["grads"][p]).max()) > 2e-6 * max(sc, float(np.abs(fd).max())):
            bad.append(("C10/mean-gradient", f"mean gradient {p} is not the derivative of build_mean", {"p": p}))
            break
    return bad


# ------------------------------------------------------------------ slices / labels / bounds (exact)
def cstr(s):
    return '"' + s.replace('"', '""') + '"'


def cqx(x):
    """exact rational literal; non-finite bounds (log(0) for a constant coordinate) become sentinels,
    identically for a component and for the composite that concatenates it"""
    x = float(x)
    if x != x:
        return f"({7 * 10 ** 401} # 1)"
    if x in (float("inf"), float("-inf")):
        return f"({'-' if x < 0 else ''}{10 ** 400} # 1)"
    return C.cq(x)


def cbounds(bs):
    return "[" + "; ".join(f"({cqx(lo)}, {cqx(hi)})" for lo, hi in bs) + "]"


def ccomp(obj):
    return (f"(mkComp {obj.n_params} [" + "; ".join(cstr(s) for s in obj.hyperpar_labels) + "] "
            + cbounds(obj.bounds if obj.bounds is not None else []) + ")")


def cslices(sl):
    return "[" + "; ".join(f"({s.start}, {s.stop})" for s in sl) + "]"


BASE_TAG = {"SquaredExponential": "BSE", "RationalQuadratic": "BRQ", "WhiteNoise": "BWN",
            "HeteroscedasticNoise": "BHN", "ConstantMean": "BConst", "LinearMean": "BLin", "QuadraticMean": "BQuad"}


def structure_cases(obj, d, n, acc):
    """Walk the implementation's own object tree after pass_spatial_data + estimate_hyperpar_bounds."""
    name = type(obj).__name__
    if name in BASE_TAG:
        acc["base"].append(f"({BASE_TAG[name]}, {d}, {n}, {obj.n_params}, [" + "; ".join(cstr(s) for s in obj.hyperpar_labels) + "])")
        return
    if name == "CompositeCovariance":
        for c in obj.components:
            structure_cases(c, d, n, acc)
        acc["composite"].append("([" + "; ".join(ccomp(c) for c in obj.components) + "], "
                                + cslices(obj.slices) + ", " + ccomp(obj) + ")")
        return
    if name == "ChangePoint":
        for c in obj.cov:
            structure_cases(c, d, n, acc)
        acc["changepoint"].append("([" + "; ".join(ccomp(c) for c in obj.cov) + "], "
                                  + cbounds(obj.location_bounds) + ", " + cbounds(obj.width_bounds) + ", "
                                  + cslices(obj.cov_slc) + ", " + cslices(obj.cp_slc) + ", " + ccomp(obj) + ")")
        return
    raise ValueError(name)


# ------------------------------------------------------------------ the run
def describe(case):
    return {"spec": case["spec"], "d": case["d"], "n": case["n"],
            "xs": [[str(c) for c in p] for p in case["xs"]],
            "theta": [str(t) for t in case["theta"]],
            "u": [[str(c) for c in p] for p in case["u"]], "v": [[str(c) for c in p] for p in case["v"]],
            "y": [str(t) for t in case["y"]],
            "kernel": describe_spec(case["spec"]),
            **({"shift": case["shift"]} if case.get("shift") else {})}


def undescribe(c):
    F = Fraction
    return {"id": 0, "spec": c["spec"], "d": c["d"], "n": c["n"],
            "xs": [[F(x) for x in p] for p in c["xs"]], "theta": [F(t) for t in c["theta"]],
            "u": [[F(x) for x in p] for p in c["u"]], "v": [[F(x) for x in p] for p in c["v"]],
            "y": [F(t) for t in c["y"]], **({"shift": c["shift"]} if c.get("shift") else {})}


def shrink(case, key):
    """Fewer data points while the same kind of failure persists (only when no hn kernel fixes n)."""
    def has_hn(s):
        return s["t"] == "hn" or any(has_hn(x) for x in s.get("ks", []))
    if has_hn(case["spec"]):
        return case
    cur = case
    changed = True
    while changed and cur["n"] > 2:
        changed = False
        for drop in range(cur["n"]):
            xs = cur["xs"][:drop] + cur["xs"][drop + 1:]
            cand = dict(cur, xs=xs, n=len(xs), y=cur["y"][:drop] + cur["y"][drop + 1:])
            try:
                o = run_impl(cand)
                if any(b[0] == key for b in oracle(cand, o)):
                    cur, changed = cand, True
                    break
            except Exception:
                pass
    return cur


def check_goals_robust(rep, goals, chunk, jobs, timeout):
    """interval.check_goals chunk by chunk; a chunk whose coqc process could not be run to the end (killed by
    the kernel's out-of-memory handler on a crowded machine, timed out) is run again, up to twice, with fewer
    processes at a time.  A goal only counts as proved when coqc accepted the file it is in, and a goal that
    coqc rejected stays rejected, so the retry cannot hide a disagreement; a file that is broken for a reason
    of its own (e.g. the model no longer compiles) is broken again and reported."""
    from concurrent.futures import ThreadPoolExecutor
    chunks = [goals[i:i + chunk] for i in range(0, len(goals), chunk)]

    def one(i, tag):
        return I.check_goals(PROP, f"goals{tag}_{i}", chunks[i], preamble=PREAMBLE, unfold="kcbv;",
                             chunk=len(chunks[i]), jobs=1, timeout=timeout)
    with ThreadPoolExecutor(max_workers=jobs) as ex:
        res = list(ex.map(lambda i: one(i, ""), range(len(chunks))))
    redo = [i for i, (_, b) in enumerate(res) if b]
    for attempt in (1, 2):
        if not redo:
            break
        rep.count("goal files run again (process killed / timed out)", len(redo))
        with ThreadPoolExecutor(max_workers=max(1, jobs // 4)) as ex:
            again = list(ex.map(lambda i: one(i, f"_retry{attempt}"), redo))
        for i, r2 in zip(redo, again):
            res[i] = r2
        redo = [i for i in redo if res[i][1]]
    failed = [f for fl, _ in res for f in fl]
    broken = [b for _, bl in res for b in bl]
    return failed, broken


def run(rep: C.Report, tier: str) -> int:
    r = C.rng_for(PROP, "cases")
    n_cases = 36 if tier == "quick" else 300
    budget = ({"build": 4, "cag": 2, "grad": 2, "call": 3, "diag": 2} if tier == "quick"
              else {"build": 8, "cag": 3, "grad": 3, "call": 4, "diag": 3})
    # offset twins: fewer entries per matrix (one off-diagonal entry of every gradient matrix), plus
    # entries of the generic evaluation on the data points themselves
    obudget = ({"build": 2, "cag": 1, "grad": 1, "grad_fraction": 0.6, "call": 3, "callxx": 3, "diag": 2} if tier == "quick"
               else {"build": 3, "cag": 1, "grad": 1, "grad_fraction": 0.6, "call": 3, "callxx": 4, "diag": 2})
    ro = C.rng_for(PROP, "offsets")
    C.clean_gen(PROP)
    C.prove_and_audit(rep, PROP, THEOREMS)
    # the audit of the offset / PSD theorems runs while the implementation is exercised
    from concurrent.futures import ThreadPoolExecutor
    audit_pool = ThreadPoolExecutor(max_workers=1)
    offset_audit = audit_pool.submit(C.coq_audit, PROP + "_offset", OFFSET_THEOREMS, "IT.Properties.C10Offset")

    def collect_offset_audit():
        try:
            info = offset_audit.result()
            rep.obligation(True, len(OFFSET_THEOREMS))
            rep.coverage["offset_audit"] = info
        except C.ProofFailure as e:
            rep.obligation(False, len(OFFSET_THEOREMS))
            rep.violation("C10/proof", f"proof obligation no longer checks: {e.what}",
                          {"theorem_or_correspondence": e.what, "log": e.log[-1500:]}, False)
        finally:
            audit_pool.shutdown(wait=False)

    twins, twin_outs, origin_of = [], [], {}
    cases, outs, goals, meta = [], [], [], {}
    defs = [CASES_HEADER]
    acc = {"base": [], "composite": [], "changepoint": []}
    suspicious = {}          # case id -> list of reasons
    mean_cases = []
    for k in range(n_cases):
        case = gen_case(r, k, tier)
        out = run_impl(case)
        cases.append(case)
        outs.append(out)
        rep.count("d=" + str(case["d"]))
        rep.count("n=" + str(case["n"]))
        rep.count("kernel=" + shape_key(case["spec"]))
        rep.count("n_params<=" + str(10 * (len(case["theta"]) // 10 + 1)))
        rep.case(describe(case), nontrivial=True)
        if k < 3:
            rep.sample({"kernel": describe_spec(case["spec"]), "d": case["d"], "n": case["n"],
                        "theta": [float(t) for t in case["theta"]],
                        "build_covariance[0]": out["build"][0].tolist() if "build" in out else out.get("error")})
        defs.append(case_defs(case))
        if out["status"] == "exception":
            suspicious.setdefault(k, []).append("exception: " + out["error"])
            continue
        if out["status"] == "call-exception":
            suspicious.setdefault(k, []).append("__call__ raised: " + out["error"])
        elif out["call"].shape != (len(case["u"]), len(case["v"])) or out["call_xx"].shape != (case["n"], case["n"]):
            suspicious.setdefault(k, []).append(f"__call__ shape {out['call'].shape}")
        # exact symmetry is measured; a real asymmetry is a disagreement (the model is symmetric by theorem)
        mats = [out["build"], out["cag_K"]] + out["grads"]
        nb = sum(1 for M in mats if M.shape == (case["n"], case["n"]) and not np.array_equal(M, M.T))
        rep.count("matrices_checked_for_symmetry", len(mats))
        rep.count("matrices_not_bitwise_symmetric", nb)
        if any(M.shape != (case["n"], case["n"]) for M in mats) or len(out["grads"]) != len(case["theta"]):
            suspicious.setdefault(k, []).append("shapes of returned matrices")
            continue
        if non_finite(out):
            suspicious.setdefault(k, []).append("inf / nan in " + ", ".join(non_finite(out)[:3]))
            continue
        for g in goals_for(case, out, r, budget):
            goals.append((g[0], g[1], None))
            meta[g[0]] = g[2]
        # bookkeeping (labels, slices, bounds) of the implementation's object tree
        try:
            with warnings.catch_warnings():
                warnings.simplefilter("ignore")
                out["kernel"].estimate_hyperpar_bounds(vec(case["y"]))
            structure_cases(out["kernel"], case["d"], case["n"], acc)
        except Exception as e:
            suspicious.setdefault(k, []).append(f"bookkeeping raised: {e!r}")
        # the same problem on offset data (5 and 6 are coprime: every kernel family gets its turn)
        if k % 5 in (1, 3):
            tk = n_cases + len(twins)
            tc = gen_shift(ro, case, len(twins), tk)
            to = run_impl(tc)
            twins.append(tc)
            twin_outs.append(to)
            origin_of[tk] = k
            cm = max(abs(v) for v in tc["shift"])
            e5 = 5 * ((cm.bit_length() - 1) // 5)
            rep.count("offset data: largest coordinate offset 2^%d..2^%d" % (e5, e5 + 5))
            rep.count("offset data: kernel=" + shape_key(tc["spec"]))
            rep.count("offset data: d=" + str(tc["d"]))
            for b in sorted(set(base_kinds(tc["spec"]))):
                rep.count("offset data: contains " + b)
            rep.case(describe(tc), nontrivial=True)
            if len(twins) <= 2:
                rep.sample({"kernel": describe_spec(tc["spec"]), "shift": tc["shift"],
                            "xs": [[float(x) for x in p] for p in tc["xs"]],
                            "__call__(x,x)[0]": to["call_xx"][0].tolist() if "call_xx" in to else to.get("error")})
            defs.append(case_defs(tc))
            if to["status"] == "exception":
                suspicious.setdefault(tk, []).append("exception on offset data: " + to["error"])
            else:
                if to["status"] == "call-exception":
                    suspicious.setdefault(tk, []).append("__call__ raised on offset data: " + to["error"])
                tm = [to["build"], to["cag_K"]] + to["grads"]
                # measured: how many of the matrices returned on the offset data are bitwise those at the origin
                pairs = list(zip(tm, [out["build"], out["cag_K"]] + out["grads"]))
                if to["status"] == "ok" and out["status"] == "ok":
                    pairs += [(to["call"], out["call"]), (to["call_xx"], out["call_xx"])]
                rep.count("offset data: matrices compared with the origin", len(pairs))
                rep.count("offset data: matrices not bitwise equal to the origin",
                          sum(1 for a, b in pairs if a.shape != b.shape or not np.array_equal(a, b)))
                if any(M.shape != (tc["n"], tc["n"]) for M in tm) or len(to["grads"]) != len(tc["theta"]):
                    suspicious.setdefault(tk, []).append("shapes of returned matrices (offset data)")
                elif non_finite(to):
                    suspicious.setdefault(tk, []).append("inf / nan on offset data in " + ", ".join(non_finite(to)[:3]))
                else:
                    for g in goals_for(tc, to, ro, obudget):
                        goals.append((g[0], g[1], None))
                        meta[g[0]] = g[2]
        # a mean function rides along with every third case
        if k % 3 == 0:
            mc = dict(case, mean=MEANS[(k // 3) % 3])
            m = {"const": 1, "lin": 1 + case["d"], "quad": 1 + 2 * case["d"]}[mc["mean"]]
            mc["mtheta"] = [q16(r, -2, 2) for _ in range(m)]
            mo = run_mean(mc)
            mean_cases.append((mc, mo))
            rep.count("mean=" + mc["mean"])
            defs.append(mean_defs(mc))
            if mo["status"] != "ok":
                suspicious.setdefault(k, []).append("mean: " + mo["error"])
                continue
            for g in mean_goals(mc, mo):
                goals.append((g[0], g[1], None))
                meta[g[0]] = g[2]
            tag = BASE_TAG[type(mo["obj"]).__name__]
            acc["base"].append(f"({tag}, {case['d']}, {case['n']}, {mo['n_params']}, [" + "; ".join(cstr(s) for s in mo["labels"]) + "])")

    # offset twins take the ids n_cases, n_cases + 1, ... (= their index in `cases`)
    cases += twins
    outs += twin_outs
    rep.coverage["offset_cases"] = len(twins)

    # ---- Coq: case definitions, interval goals, exact bookkeeping
    d = C.GEN / PROP
    d.mkdir(parents=True, exist_ok=True)
    (d / "Cases.v").write_text("\n".join(defs) + "\n")
    rc, log, _ = C.sh(["timeout", "600", "coqc"] + C.COQFLAGS + [str(d / "Cases.v")], timeout=660)
    if rc != 0:
        rep.obligation(False)
        rep.violation("C10/correspondence-run", "generated case definitions do not compile",
                      {"theorem_or_correspondence": "coq/gen/C10/Cases.v", "log": log[-1500:]}, False)
        collect_offset_audit()
        return finish(rep)
    collect_offset_audit()
    for g in goals:
        rep.count("goal=" + meta[g[0]]["kind"])
    failed, broken = check_goals_robust(rep, goals, chunk=min(160, max(20, len(goals) // 14 + 1)), jobs=14, timeout=900)
    rep.obligation(True, len(goals) - len(failed))
    rep.obligation(False, len(failed))
    for b in broken:
        rep.obligation(False)
        rep.violation("C10/correspondence-run", "a goal file could not be processed",
                      {"theorem_or_correspondence": "coq/gen/C10/goals_*.v", "log": b[-1500:]}, False)
    msuspicious = {}
    for gid, log in failed:
        m = meta[gid]
        tgt = msuspicious if m["kind"] in ("mbuild", "magv", "mcall", "mgrad") else suspicious
        tgt.setdefault(m["case"], []).append(f"goal {gid} ({m}) not proved")
    # exact bookkeeping
    files = []
    for kind, typ, chk in (("base", "list (base * nat * nat * nat * list string)", "check_base"),
                           ("composite", "list (list comp * list slice * comp)", "check_composite"),
                           ("changepoint", "list (list comp * list (Q * Q) * list (Q * Q) * list slice * list slice * comp)", "check_changepoint")):
        lst = acc[kind]
        rep.count("bookkeeping=" + kind, len(lst))
        for i in range(0, len(lst), 200):
            body = f"Definition cases : {typ} :=\n " + C.clist(lst[i:i + 200], ";\n ") + "."
            files.append((kind, C.write_case_file(PROP, f"slices_{kind}_{i // 200}", SLICES_HEADER, body,
                                                  [f"failing {chk} cases 0"])))
    for (kind, p), (ok, res, log) in zip(files, C.run_case_files([p for _, p in files], jobs=6)):
        if not ok or 0 not in res:
            rep.obligation(False)
            rep.violation("C10/correspondence-run", f"case file {p.name} did not evaluate",
                          {"theorem_or_correspondence": f"correspondence file {p.name}", "log": log}, False)
            continue
        rep.obligation(not res[0])
        if res[0]:
            rep.violation("C10/bookkeeping", f"{kind}: slices / labels / bounds / n_params differ from the model "
                                             f"(concatenation in component order) in cases {res[0][:5]} of {p.name}",
                          {"theorem_or_correspondence": f"Model.Slices.check_{kind}", "case_file": str(p),
                           "failing_indices": res[0][:10]}, True)
    rep.coverage["goals"] = len(goals)
    rep.coverage["goals_failed"] = len(failed)
    rep.coverage["correspondence_disagreements"] = len(suspicious) + len(msuspicious)

    # ---- the property on the implementation: on every disagreement (search) and on every case ([R])
    reported = set()
    for k, (case, out) in enumerate(zip(cases, outs)):
        bad = oracle(case, out, origin_out=outs[origin_of[k]] if k in origin_of else None)
        for key, what, det in bad:
            if key in reported:
                continue
            reported.add(key)
            small = shrink(case, key)
            so = run_impl(small)
            sb = [b for b in oracle(small, so) if b[0] == key]
            use, ub = (small, sb[0]) if sb else (case, (key, what, det))
            rep.violation(key, f"{describe_spec(use['spec'])}: {ub[1]}", {"case": describe(use), "detail": ub[2]}, True)
        if k in suspicious and not bad:
            rep.violation("C10/correspondence",
                          "implementation and model disagree, but the property was not seen to fail on this input: "
                          + "; ".join(suspicious[k][:2]),
                          {"theorem_or_correspondence": "coq-interval goal(s) of coq/gen/C10", "case": describe(case),
                           "reasons": suspicious[k][:6]}, False)
    for mc, mo in mean_cases:
        mbad = mean_oracle(mc, mo)
        mdesc = dict(describe(mc), mean=mc["mean"], mtheta=[str(t) for t in mc["mtheta"]])
        for key, what, det in mbad:
            if key not in reported:
                reported.add(key)
                rep.violation(key, f"{mc['mean']} mean: {what}", {"case": mdesc, "detail": det}, True)
        if mc["id"] in msuspicious and not mbad:
            rep.violation("C10/mean-correspondence",
                          "mean function and model disagree, but the property was not seen to fail on this input: "
                          + "; ".join(msuspicious[mc["id"]][:2]),
                          {"theorem_or_correspondence": "coq-interval goal(s) of coq/gen/C10 (means)", "case": mdesc,
                           "reasons": msuspicious[mc["id"]][:6]}, False)
    return finish(rep)


def finish(rep):
    rep.assumptions = [
        "PSD of the squared-exponential kernel is proved (C10_se_psd, any dimension); PSD of the rational-quadratic "
        "base kernel is a classical fact that is NOT proved (hypothesis of the PSD theorems); the minimum eigenvalues of "
        "build_covariance and of the generic evaluation K(x, x) are tested on every case [R]",
        "offset cases: the tolerances are widened by what one ulp of the COORDINATES can do to a kernel value "
        "(16*eps*sum_k (|u_k|+|v_k|)|u_k-v_k|/l_k^2, plus 16*eps*(|u|+|v|)/|width| per change-point; zero for the cases near "
        "the origin); the offsets, offset points and moved change-point locations are exact doubles",
        "model values are compared with the implementation's doubles to 1e-9 relative + 1e-11*max|matrix| "
        "(diagonal terms build - pairwise: to 2e-14 relative, i.e. 2% of the 1e-12 jitter)",
        "x.mean / dot / sum(axis) / ** are modelled as exact real operations",
        "ChangePoint.estimate_hyperpar_bounds re-estimates the bounds of its kernels even when the user supplied them; "
        "the check only requires the result to be the concatenation of the components' bounds",
    ]
    return rep.finish(
        level="proof",
        checker_cmd="make -C /verif/coq (coqc 8.16.1, full .vo; Properties/C10.v, Properties/C10Offset.v) + coqc on "
                    "coq/gen/C10/*.v (coq-interval `interval`, vm_compute)",
        trusted_base=C.KERNEL_TB + [
            "coq-interval 4.x reflexive interval evaluator (Uint63 / Bignums primitives)",
            "axioms (Coq Reals + Coquelicot): ClassicalDedekindReals.sig_forall_dec, sig_not_dec, "
            "FunctionalExtensionality.functional_extensionality_dep, Classical_Prop.classic"],
        rule="kernels: base (SE, RQ, white, heteroscedastic), sums of 2-4, change-points of 2-4 kernels, sum containing "
             "a change-point, change-point containing a sum; d 1..3, n 2..6, rational points (k/8) and hyper-parameters "
             "(k/16); per case: sampled upper-triangle entries of build_covariance, of covariance_and_gradients' value "
             "and of EVERY gradient matrix, entries of __call__ on separate point sets, diagonal terms; every third case "
             "also a mean function; two fifths of the cases (k mod 5 in {1,3}) repeated on OFFSET data: integer vector "
             "+-[2^e, 2^(e+1)), e = 10..31 per coordinate (one coordinate cycles through the whole range), added to data "
             "points, query points and change-point locations -- goals on the offset coordinates for build_covariance, "
             "covariance_and_gradients, 60% of the gradient matrices, __call__(u, v), __call__(x, x) and the diagonal "
             "terms, and the implementation's matrices on the offset data against those at the origin; "
             "distinct = distinct (kernel tree, points, theta)")


def replay(path):
    d = json.load(open(path))
    rp = d["replay"]
    if "case" not in rp:
        print("replay names a broken theorem / correspondence:", rp.get("theorem_or_correspondence"))
        return 1
    c = rp["case"]
    if "mean" in c:
        mc = dict(undescribe(c), mean=c["mean"], mtheta=[Fraction(t) for t in c["mtheta"]])
        mo = run_mean(mc)
        bad = mean_oracle(mc, mo)
    else:
        case = undescribe(c)
        out = run_impl(case)
        print("kernel:", describe_spec(case["spec"]), " status:", out["status"], out.get("error", ""))
        bad = oracle(case, out)
    for b in bad:
        print("property failure:", b[0], "--", b[1])
    if not bad:
        print("the property holds on this input")
    return 1 if bad else 0
