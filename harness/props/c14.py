"""C14 -- burn, thin and interval read-outs select exactly the documented samples.

Theorems: coq/theories/Properties/C14.v about Model/Readouts.v (every chain
length, every burn >= 0, thin >= 1, every cut-off, every requested count, both
storage layouts).  Tie to the code: histories with distinct integer values are
injected into real GibbsChain / PcaChain / HamiltonianChain / EnsembleSampler
objects, the real get_parameter / get_probabilities / get_sample / get_marginal /
get_interval are called (numpy.random.permutation inside base.py is replaced by
a scripted permutation; the density estimators by a recorder of their input),
and every returned array (shape and contents) is compared *inside Coq* with the
model's answer (`vm_compute` on coq/gen/C14/*.v).  On a disagreement the
property itself is evaluated on the implementation by direct indexing.
"""
from __future__ import annotations

import json
import math
import warnings
from fractions import Fraction

import numpy as np

from lib import common as C

PROP = "C14"
THEOREMS = ["C14_slice_nth", "C14_slice_length", "C14_slice_positions",
            "C14_readouts_aligned", "C14_marginal_input",
            "C14_interval_rows_own", "C14_interval_top_fraction", "C14_interval_partition",
            "C14_interval_all", "C14_interval_count", "C14_interval_two_dimensional",
            "C14_interval_fraction",
            "C14_hmc_squeeze_refuted", "C14_hmc_empty_sample_refuted",
            "C14_get_interval_count_refuted"]

HEADER = """From Coq Require Import List ZArith.
From IT Require Import Model.Readouts.
Import ListNotations.
Open Scope Z_scope.
"""

SAMPLERS = ["Gibbs", "Pca", "Hmc", "Ens"]
COLMAJOR = {"Gibbs", "Pca"}
DEFAULT_BURN = {"Gibbs": 1, "Pca": 1, "Hmc": 1, "Ens": 0}


# ---------------------------------------------------------------- real objects
def _post(theta):
    return -0.5 * float(np.sum(np.asarray(theta, dtype=float) ** 2))


def _grad(theta):
    return -np.asarray(theta, dtype=float)


def build(kind, npar, rows, probs):
    """A real sampler object whose stored history is `rows` (list of npar-lists of
    ints) with log-probabilities `probs`."""
    from inference.mcmc import GibbsChain, PcaChain, HamiltonianChain, EnsembleSampler
    n = len(rows)
    start = np.arange(1, npar + 1, dtype=float)
    if kind in ("Gibbs", "Pca"):
        cls = GibbsChain if kind == "Gibbs" else PcaChain
        ch = cls(posterior=_post, start=start, widths=[1.0] * npar, display_progress=False)
        for i, p in enumerate(ch.params):
            p.samples = [float(rw[i]) for rw in rows]
        ch.probs = [float(p) for p in probs]
        ch.chain_length = n
    elif kind == "Hmc":
        ch = HamiltonianChain(posterior=_post, start=start, grad=_grad, display_progress=False)
        ch.theta = [np.array([float(v) for v in rw]) for rw in rows]
        ch.probs = [float(p) for p in probs]
        ch.leapfrog_steps = [0] * n
        ch.chain_length = n
    elif kind == "Ens":
        nw = 8
        pos = np.array([[float(((w + 1) * (w + 2 * j + 1) * (j + 3)) % 17 - 8) for j in range(npar)]
                        for w in range(nw)])
        ch = EnsembleSampler(posterior=_post, starting_positions=pos, display_progress=False)
        ch.sample = np.array([[float(v) for v in rw] for rw in rows], dtype=float).reshape(n, npar)
        ch.sample_probs = np.array([float(p) for p in probs], dtype=float)
        ch.chain_length = n
    else:
        raise ValueError(kind)
    return ch


class _Recorder:
    """Stands in for GaussianKDE / UnimodalPdf: keeps what it is given."""
    def __init__(self, sample, *a, **k):
        self.sample = np.array(sample)


class Patched:
    """base.permutation -> scripted; base.GaussianKDE / UnimodalPdf -> recorder."""
    def __init__(self, r):
        self.r = r
        self.perm_log = []

    def permutation(self, x):
        n = int(x)
        perm = list(range(n))
        self.r.shuffle(perm)
        self.perm_log.append(perm)
        return np.array(perm)

    def __enter__(self):
        import inference.mcmc.base as base
        self.base = base
        self.saved = (base.permutation, base.GaussianKDE, base.UnimodalPdf)
        base.permutation = self.permutation
        base.GaussianKDE = _Recorder
        base.UnimodalPdf = _Recorder
        return self

    def __exit__(self, *a):
        self.base.permutation, self.base.GaussianKDE, self.base.UnimodalPdf = self.saved


def to_obs(a):
    """ndarray -> (shape tuple, flat list of ints) or raises ValueError."""
    a = np.asarray(a)
    flat = []
    for v in a.reshape(-1).tolist():
        f = C.frac(v)
        if f.denominator != 1:
            raise ValueError(f"non-integer value {v!r} in a read-out of an integer history")
        flat.append(int(f))
    return (tuple(int(s) for s in a.shape), flat)


def run_query(ch, q, patch):
    """Run one query on the real object.  Returns ("ok", [obs...], extra) or
    ("exception", repr, extra)."""
    kind = q["q"]
    extra = {}
    try:
        with warnings.catch_warnings():
            warnings.simplefilter("ignore")
            if kind == "param":
                out = [ch.get_parameter(q["i"], burn=q["burn"], thin=q["thin"])]
            elif kind == "probs":
                out = [ch.get_probabilities(burn=q["burn"], thin=q["thin"])]
            elif kind == "sample":
                out = [ch.get_sample(burn=q["burn"], thin=q["thin"])]
            elif kind == "marginal":
                m = ch.get_marginal(q["i"], burn=q["burn"], thin=q["thin"], unimodal=q["unimodal"])
                out = [m.sample]
            elif kind == "defaults":
                out = [ch.get_parameter(q["i"]), ch.get_probabilities(), ch.get_sample()]
            elif kind == "interval":
                mark = len(patch.perm_log)
                kw = {}
                if q["samples"] is not None:
                    kw["samples"] = q["samples"]
                s, p = ch.get_interval(interval=q["interval"], burn=q["burn"], thin=q["thin"], **kw)
                out = [s, p]
                calls = patch.perm_log[mark:]
                extra["perm"] = calls[-1] if calls else []
                extra["perm_calls"] = len(calls)
            else:
                raise ValueError(kind)
        return "ok", [to_obs(a) for a in out], extra
    except Exception as e:  # every generated query is one the documented interface accepts
        return "exception", repr(e), extra


# ---------------------------------------------------------------- the property, by direct indexing
def interval_size(n, burn, thin, samples):
    n0 = len(range(burn, n))
    t = thin if samples is None else max(n0 // samples, 1)
    return len(range(0, n0, t)), t


def code_cutoff(size, interval):
    """cutoff exactly as base.py:148 computes it (a float product)."""
    return int(size * (1 - interval))


def oracle(kind, npar, rows, probs, q, status, obs, extra):
    """Evaluate C14 itself on what the implementation returned; list of failures."""
    n = len(rows)
    if status != "ok":
        return [f"raised {obs}"]
    bad = []
    if q["q"] in ("param", "probs", "sample", "marginal", "defaults"):
        if q["q"] == "defaults":
            b, t = DEFAULT_BURN[kind], 1
            expect = [("get_parameter", (len(range(b, n, t)),), [rows[j][q["i"]] for j in range(b, n, t)]),
                      ("get_probabilities", (len(range(b, n, t)),), [probs[j] for j in range(b, n, t)]),
                      ("get_sample", (len(range(b, n, t)), npar),
                       [v for j in range(b, n, t) for v in rows[j]])]
        else:
            b, t = q["burn"], q["thin"]
            idx = list(range(b, n, t))
            if q["q"] in ("param", "marginal"):
                expect = [(q["q"], (len(idx),), [rows[j][q["i"]] for j in idx])]
            elif q["q"] == "probs":
                expect = [("get_probabilities", (len(idx),), [probs[j] for j in idx])]
            else:
                expect = [("get_sample", (len(idx), npar), [v for j in idx for v in rows[j]])]
        for (name, shp, flat), (oshp, oflat) in zip(expect, obs):
            if tuple(oshp) != tuple(shp):
                bad.append(f"{name}: shape {tuple(oshp)}, but {shp[0]} samples are retained (expected shape {shp})")
            elif oflat != flat:
                bad.append(f"{name}: entries are not steps burn, burn+thin, ... of the chain")
        return bad
    # interval
    (sshape, sflat), (pshape, pflat) = obs
    size, t = interval_size(n, q["burn"], q["thin"], q["samples"])
    idx = list(range(q["burn"], n, t))
    cutoff = code_cutoff(size, q["interval"])
    if len(sshape) != 2:
        bad.append(f"get_interval: sample array has {len(sshape)} dimensions {tuple(sshape)}, not 2")
        return bad
    if len(pshape) != 1 or pshape[0] != sshape[0] or sshape[1] != npar:
        bad.append(f"get_interval: shapes {tuple(sshape)} / {tuple(pshape)} are not (m, n_parameters) / (m,)")
        return bad
    m = sshape[0]
    got = [(pflat[k], tuple(sflat[k * npar:(k + 1) * npar])) for k in range(m)]
    pool = sorted(((probs[j], tuple(rows[j])) for j in idx), key=lambda pr: pr[0])
    top = pool[cutoff:]
    for pr in got:
        if pr not in pool:
            bad.append("get_interval: a returned row does not carry its own log-probability "
                       "(or is not a row of the burned / thinned chain)")
            break
    else:
        if any(pr not in top for pr in got):
            bad.append("get_interval: a returned row is not in the requested top fraction")
        if len(set(got)) != len(got):
            bad.append("get_interval: a row is returned twice")
        if q["samples"] is None:
            if sorted(got) != sorted(top):
                bad.append(f"get_interval: {m} rows returned, the top fraction has {len(top)}")
        else:
            if m > q["samples"]:
                bad.append(f"get_interval: {m} rows returned, more than the {q['samples']} requested")
            elif m != min(q["samples"], len(top)):
                bad.append(f"get_interval: {m} rows returned, expected min(count, top fraction) = "
                           f"{min(q['samples'], len(top))}")
    return bad


# ---------------------------------------------------------------- generation
def gen_history(r, n, npar):
    vals = r.sample(range(-10 ** 6, 10 ** 6), n * npar)
    rows = [vals[k * npar:(k + 1) * npar] for k in range(n)]
    probs = r.sample(range(-10 ** 5, 10 ** 5), n)
    return rows, probs


INTERVALS = [0.95, 0.5, 0.9, 0.1, 0.999, 0.75, 0.6827, 1e-9, 1 - 2.0 ** -53]


def gen_queries(r, kind, n, npar, pairs, dense):
    qs = []
    for burn, thin in pairs:
        qs.append({"q": "param", "i": r.randrange(npar), "burn": burn, "thin": thin})
        qs.append({"q": "probs", "burn": burn, "thin": thin})
        qs.append({"q": "sample", "burn": burn, "thin": thin})
        if dense or r.random() < 0.5:
            qs.append({"q": "marginal", "i": r.randrange(npar), "burn": burn, "thin": thin,
                       "unimodal": r.random() < 0.3})
        f = r.choice(INTERVALS) if r.random() < 0.8 else r.uniform(0.01, 0.99)
        qs.append({"q": "interval", "burn": burn, "thin": thin, "interval": f, "samples": None})
        left = len(range(burn, n))
        ks = {1, max(left, 1), left + 3}
        if left > 2:
            ks.add(r.randint(2, left - 1))
            ks.add(max(left // 2, 1))
            ks.add(r.randint(left // 2 + 1, left - 1))      # thin stays 1: rows must be dropped at random
            ks.add(max(left - r.randint(1, 3), 1))
        for k in sorted(ks) if dense else r.sample(sorted(ks), min(3, len(ks))):
            u = r.random()
            f = r.choice([0.999, 1 - 2.0 ** -53, 0.95, 0.9]) if u < 0.5 else \
                r.choice(INTERVALS) if u < 0.8 else r.uniform(0.01, 0.99)
            qs.append({"q": "interval", "burn": burn, "thin": thin, "interval": f, "samples": k})
    qs.append({"q": "defaults", "i": r.randrange(npar)})
    return qs


def gen_cases(r, tier):
    """-> list of dict(kind, npar, rows, probs, queries)"""
    cases = []
    small_max = 7 if tier == "quick" else 10
    for kind in SAMPLERS:
        for n in range(0, small_max + 1):
            npar = 1 + (n + SAMPLERS.index(kind)) % 3
            rows, probs = gen_history(r, n, npar)
            pairs = [(b, t) for b in range(0, n + 3) for t in range(1, n + 3)]
            cases.append({"kind": kind, "npar": npar, "rows": rows, "probs": probs,
                          "queries": gen_queries(r, kind, n, npar, pairs, dense=(n <= 5))})
    n_big = 24 if tier == "quick" else 200
    for k in range(n_big):
        kind = SAMPLERS[k % 4]
        n = r.choice([r.randint(8, 40), r.randint(41, 120), r.randint(8, 25)])
        if tier == "thorough" and k % 20 == 0:
            n = r.randint(300, 800)
        npar = r.randint(1, 4)
        rows, probs = gen_history(r, n, npar)
        pairs = set()
        while len(pairs) < 14:
            b = r.choice([0, 1, r.randint(0, n), r.randint(0, n), n - 1, n, n + 1, n + 2, r.randint(0, max(n // 4, 1))])
            t = r.choice([1, 2, 3, r.randint(1, max(n // 3, 1)), r.randint(1, n + 2), n, n + 2])
            pairs.add((max(b, 0), max(t, 1)))
        cases.append({"kind": kind, "npar": npar, "rows": rows, "probs": probs,
                      "queries": gen_queries(r, kind, n, npar, sorted(pairs), dense=False)})
    return cases


# ---------------------------------------------------------------- Coq side
def coq_obs(o):
    shp, flat = o
    return f"({C.clist([C.cnat(s) for s in shp])}, {C.clist([C.cz(v) for v in flat])})"


def coq_query(kind, n, q, extra):
    k = q["q"]
    if k == "param":
        return f"QParam {q['i']} {q['burn']} {q['thin']}"
    if k == "probs":
        return f"QProbs {q['burn']} {q['thin']}"
    if k == "sample":
        return f"QSample {q['burn']} {q['thin']}"
    if k == "marginal":
        return f"QMarginal {q['i']} {q['burn']} {q['thin']}"
    if k == "defaults":
        return f"QDefaults {q['i']}"
    size, _ = interval_size(n, q["burn"], q["thin"], q["samples"])
    cutoff = code_cutoff(size, q["interval"])
    smp = "None" if q["samples"] is None else f"(Some {q['samples']}%nat)"
    perm = C.clist([C.cnat(v) for v in extra.get("perm", [])])
    return f"QInterval {q['burn']} {q['thin']} {cutoff} {smp} {perm}"


def coq_case(case, results):
    kind, npar, rows, probs = case["kind"], case["npar"], case["rows"], case["probs"]
    if kind in COLMAJOR:
        data = [[rw[i] for rw in rows] for i in range(npar)]
    else:
        data = rows
    d = C.clist([C.clist([C.cz(v) for v in l]) for l in data])
    p = C.clist([C.cz(v) for v in probs])
    qos = []
    for q, (status, obs, extra) in zip(case["queries"], results):
        qos.append(f"({coq_query(kind, len(rows), q, extra)}, {C.clist([coq_obs(o) for o in obs])})")
    return f"({kind}, {C.cnat(npar)}, {d}, {p},\n  {C.clist(qos, ';' + chr(10) + '   ')})"


def describe(case, q, status, obs, extra):
    return {"sampler": case["kind"], "n_parameters": case["npar"], "rows": case["rows"],
            "probs": case["probs"], "query": q, "perm": extra.get("perm"),
            "history": case.get("history", "history injected, then this query"),
            "rows_before_replace_last": case.get("rows_before"), "probs_before_replace_last": case.get("probs_before"),
            "impl_status": status, "impl_output": obs if status != "ok" else [list(o) for o in obs]}


def key_of(case, q):
    return f"C14/{case['kind']}/{q['q']}" + ("-count" if q.get("samples") is not None else "")


# ---------------------------------------------------------------- the run
def run(rep: C.Report, tier: str) -> int:
    r = C.rng_for(PROP, "cases")
    C.clean_gen(PROP)
    C.prove_and_audit(rep, PROP, THEOREMS)

    cases = gen_cases(r, tier)
    all_results = []
    n_queries = 0
    extra_cases, extra_results = [], []
    with Patched(C.rng_for(PROP, "perm")) as patch:
        for case in cases:
            ch = build(case["kind"], case["npar"], case["rows"], case["probs"])
            res = [run_query(ch, q, patch) for q in case["queries"]]
            all_results.append(res)
            n = len(case["rows"])
            rep.count(f"sampler={case['kind']}")
            rep.count("n=0" if n == 0 else "n=1" if n == 1 else "n<=10" if n <= 10 else "n<=100" if n <= 100 else "n>100")
            for q, (status, obs, extra) in zip(case["queries"], res):
                n_queries += 1
                rep.count("query=" + q["q"] + ("+count" if q.get("samples") is not None else ""))
                if "burn" in q:
                    left = len(range(q["burn"], n, q["thin"]))
                    rep.count("retained=" + ("0" if left == 0 else "1" if left == 1 else ">=2"))
                if q["q"] == "interval" and q["samples"] is not None:
                    rep.count("interval_subselected=" + ("yes" if extra.get("perm_calls") else "no"))
                rep.case((case["kind"], case["rows"], case["probs"], sorted(q.items(), key=str)),
                         nontrivial=n >= 2)
            if len(rep.samples) < 3 and n >= 4:
                q0, (s0, o0, e0) = case["queries"][-2], res[-2]
                rep.sample({"sampler": case["kind"], "rows": case["rows"][:6], "probs": case["probs"][:6],
                            "query": q0, "impl_output": o0})
            # history dimension: the SAME object, already read out, then changed through the public
            # replace_last hook (what a tempering exchange does) and read out again -- a read-out must
            # reflect the chain as it is now, not as it was when first read
            if case["kind"] != "Ens" and n >= 1 and len(case["queries"]) >= 2:
                new_last = [int(v) + 1000 + 7 * j for j, v in enumerate(case["rows"][-1])]
                new_prob = max(case["probs"]) + 500
                try:
                    ch.replace_last(np.array(new_last, dtype=float))
                    ch.probs[-1] = float(new_prob)
                    case2 = dict(case, rows=case["rows"][:-1] + [new_last], probs=case["probs"][:-1] + [new_prob],
                                 history="history injected; every read-out queried once; replace_last(new point) and "
                                         "probs[-1] = new value (as a tempering exchange does); then this query",
                                 rows_before=case["rows"], probs_before=case["probs"],
                                 queries=case["queries"][:: max(1, len(case["queries"]) // 12)])
                    res2 = [run_query(ch, q, patch) for q in case2["queries"]]
                    extra_cases.append(case2)
                    extra_results.append(res2)
                    rep.count("reread_after_replace_last", len(res2))
                    n_queries += len(res2)
                except Exception as e:
                    rep.violation("C14/exception", f"{case['kind']}: replace_last / re-read failed: {e!r}",
                                  {"case": {"sampler": case["kind"], "rows": case["rows"], "probs": case["probs"]}}, True)

    cases = cases + extra_cases
    all_results = all_results + extra_results

    # Python-side exact fact about the float cut-off that the model takes as an input
    for case in cases:
        n = len(case["rows"])
        for q in case["queries"]:
            if q["q"] != "interval":
                continue
            size, _ = interval_size(n, q["burn"], q["thin"], q["samples"])
            c = code_cutoff(size, q["interval"])
            exact = math.floor(size * (1 - Fraction(q["interval"])))
            rep.count("cutoff_exact=" + ("yes" if c == exact else "off-by-one"))
            if abs(c - exact) > 1:
                rep.violation("C14/cutoff", f"int(n*(1-interval)) = {c} but floor(n(1-f)) = {exact}",
                              {"case": {"size": size, "interval": q["interval"]}}, True)

    # correspondence inside Coq
    suspicious = []       # (case index, query index)
    files, index = [], []
    exc_cases = set()
    chunks, cur, cur_sz = [], [], 0
    for ci, (case, res) in enumerate(zip(cases, all_results)):
        ok_q, ok_r = [], []
        for qi, (q, rr) in enumerate(zip(case["queries"], res)):
            if rr[0] != "ok":
                suspicious.append((ci, qi))
            else:
                ok_q.append((qi, q))
                ok_r.append(rr)
        sub = dict(case, queries=[q for _, q in ok_q])
        txt = coq_case(sub, ok_r)
        cur.append((ci, [qi for qi, _ in ok_q], txt))
        cur_sz += len(txt)
        if cur_sz > 400_000:
            chunks.append(cur)
            cur, cur_sz = [], 0
    if cur:
        chunks.append(cur)
    for k, chunk in enumerate(chunks):
        body = "Definition cases : list case :=\n " + C.clist([t for _, _, t in chunk], ";\n ") + "."
        evals = ["failing check_case cases 0"]
        p = C.write_case_file(PROP, f"cases_{k}", HEADER, body, evals)
        files.append(p)
        index.append(chunk)
    outs = C.run_case_files(files, jobs=14)
    n_checked = 0
    detail_files = []
    for p, chunk, (ok, res, log) in zip(files, index, outs):
        if not ok or 0 not in res:
            rep.obligation(False)
            rep.violation("C14/correspondence-run", f"case file {p.name} did not evaluate",
                          {"theorem_or_correspondence": f"correspondence file {p.name}", "log": log}, False)
            continue
        rep.obligation(True)
        n_checked += sum(len(qis) for _, qis, _ in chunk)
        for j in res[0]:
            detail_files.append(chunk[j])
    # which queries of a failing case disagree: second, small Coq run
    if detail_files:
        dfiles = []
        for k, (ci, qis, txt) in enumerate(detail_files[:12]):
            body = f"Definition the_case : case :=\n {txt}."
            dfiles.append(C.write_case_file(PROP, f"detail_{k}", HEADER, body, ["failing_queries the_case"]))
        for (ci, qis, txt), (ok, res, log) in zip(detail_files[:12], C.run_case_files(dfiles, jobs=12)):
            if ok and 0 in res:
                for j in res[0]:
                    suspicious.append((ci, qis[j]))
            else:
                suspicious.append((ci, qis[0]))
    rep.coverage["traces_validated_against_impl"] = n_checked
    rep.coverage["correspondence_disagreements"] = len(suspicious)
    rep.coverage["histories"] = len(cases)

    # failing-input search on every disagreement: the property by direct indexing
    seen_keys = {}
    for ci, qi in sorted(set(suspicious)):
        case = cases[ci]
        q = case["queries"][qi]
        status, obs, extra = all_results[ci][qi]
        bad = oracle(case["kind"], case["npar"], case["rows"], case["probs"], q, status, obs, extra)
        key = key_of(case, q)
        if bad:
            key += "/" + ("ndim" if "dimensions" in bad[0] else "exception" if "raised" in bad[0] else
                          "shape" if "shape" in bad[0] else "content")
        size = len(case["rows"]) * case["npar"]
        if key in seen_keys and seen_keys[key] <= size:
            continue        # keep the smallest witness per call site
        seen_keys[key] = size
        if bad:
            rep.violation(key, f"{case['kind']} {q['q']}: " + "; ".join(bad[:2]),
                          {"case": describe(case, q, status, obs, extra)}, True)
        else:
            rep.violation(key + "/correspondence",
                          "implementation and model disagree, but the property was not seen to fail on this input",
                          {"theorem_or_correspondence": "Model.Readouts.check_case (correspondence with the read-outs)",
                           "case": describe(case, q, status, obs, extra)}, False)
    # smallest witness first, but one witness of every kind of read-out before the second of any
    rep.violations.sort(key=lambda v: len(json.dumps(C.jsonable(v["replay"]))))
    order = ["interval-count/ndim", "param/shape", "sample/shape", "interval/exception", "marginal/shape"]
    kind_of = lambda v: "/".join(v["key"].split("/")[2:]) if v["key"].count("/") >= 2 else v["key"]
    firsts, rest, seen_kinds = [], [], set()
    for v in rep.violations:
        k = kind_of(v)
        (rest if k in seen_kinds else firsts).append(v)
        seen_kinds.add(k)
    firsts.sort(key=lambda v: order.index(kind_of(v)) if kind_of(v) in order else len(order))
    rep.violations = firsts + rest

    # [R] second opinion: the oracle on a slice of agreeing queries, and the real
    # GaussianKDE really keeps the values it is given
    stride = 5 if tier == "quick" else 2
    sus = set(suspicious)
    for ci, (case, res) in enumerate(zip(cases, all_results)):
        for qi in range(ci % stride, len(case["queries"]), stride):
            if (ci, qi) in sus:
                continue
            q = case["queries"][qi]
            status, obs, extra = res[qi]
            bad = oracle(case["kind"], case["npar"], case["rows"], case["probs"], q, status, obs, extra)
            if bad:
                rep.violation(key_of(case, q), f"{case['kind']} {q['q']}: " + "; ".join(bad[:2]),
                              {"case": describe(case, q, status, obs, extra)}, True)
    kde_checked = 0
    for case in cases:
        n = len(case["rows"])
        if n >= 12 and kde_checked < 8:
            ch = build(case["kind"], case["npar"], case["rows"], case["probs"])
            b, t = 2, 3
            try:
                with warnings.catch_warnings():
                    warnings.simplefilter("ignore")
                    kde = ch.get_marginal(0, burn=b, thin=t)
                want = sorted(float(case["rows"][j][0]) for j in range(b, n, t))
                if sorted(np.asarray(kde.sample, dtype=float).tolist()) != want:
                    rep.violation("C14/marginal-real-kde", "GaussianKDE built by get_marginal does not hold the burned/thinned values",
                                  {"case": {"sampler": case["kind"], "rows": case["rows"], "burn": b, "thin": t}}, True)
                kde_checked += 1
            except Exception:
                pass
    rep.coverage["real_kde_marginals_checked"] = kde_checked

    rep.assumptions = [
        "cutoff = int(n*(1-interval)) is an input of the model; |cutoff - floor(n(1-f))| <= 1 is checked exactly per query",
        "numpy slicing / fancy indexing / argsort semantics are modelled; log-probabilities are distinct so argsort is determined",
        "histories are injected into real sampler objects (attributes samples / probs / theta / sample / sample_probs)",
        "get_marginal: the density estimators are replaced by a recorder of their argument (plus a few real GaussianKDE builds [R])",
        "EnsembleSampler read-outs before the first advance (sample is None) are outside the model",
    ]
    return rep.finish(
        level="proof",
        checker_cmd="make -C /verif/coq (coqc 8.16.1, full .vo) + coqc on coq/gen/C14/*.v (vm_compute)",
        trusted_base=C.KERNEL_TB + ["axioms: none (all C14 theorems are closed under the global context)"],
        rule="histories with distinct integer samples / log-probabilities injected into GibbsChain, PcaChain, "
             "HamiltonianChain, EnsembleSampler (1-4 parameters); lengths 0..7(10) with every burn 0..n+2 and thin "
             "1..n+2, lengths up to 120 (800) with sampled burn/thin incl. values beyond the end; per (burn, thin): "
             "get_parameter, get_probabilities, get_sample, get_marginal input, get_interval without and with a "
             "requested count (1, n, n+3, random) over 9 fixed and random fractions, scripted permutation; a case "
             "is non-trivial when the history has >= 2 steps; distinct = distinct (history, query)")


# ---------------------------------------------------------------- replay
def replay(path):
    d = json.load(open(path))
    rp = d["replay"]
    if "case" not in rp or "query" not in rp.get("case", {}):
        print("replay names a broken theorem / correspondence:", rp.get("theorem_or_correspondence"))
        return 1
    c = rp["case"]
    q = c["query"]
    perm = c.get("perm") or []

    class OnePerm(Patched):
        def permutation(self, x):
            self.perm_log.append(list(perm))
            return np.array(perm if len(perm) == int(x) else list(range(int(x))))
    with OnePerm(None) as patch:
        if c.get("rows_before_replace_last"):
            ch = build(c["sampler"], c["n_parameters"], c["rows_before_replace_last"], c["probs_before_replace_last"])
            for q0 in ({"q": "sample", "burn": 0, "thin": 1}, {"q": "probs", "burn": 0, "thin": 1},
                       {"q": "interval", "burn": 0, "thin": 1, "interval": 0.5, "samples": None}):
                try:
                    run_query(ch, q0, patch)
                except Exception:
                    pass
            ch.replace_last(np.array(c["rows"][-1], dtype=float))
            ch.probs[-1] = float(c["probs"][-1])
        else:
            ch = build(c["sampler"], c["n_parameters"], c["rows"], c["probs"])
        status, obs, extra = run_query(ch, q, patch)
    print("implementation returns:", status, obs)
    bad = oracle(c["sampler"], c["n_parameters"], c["rows"], c["probs"], q, status, obs, extra)
    print("property failures:", bad)
    return 1 if bad else 0
