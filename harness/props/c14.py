"""C14 -- burn, thin and interval read-outs select exactly the documented samples.

Theorems: coq/theories/Properties/C14.v about Model/Readouts.v (every chain
length, every burn >= 0, thin >= 1, every cut-off, every requested count, both
storage layouts).  Tie to the code: histories with distinct integer values are
injected into real GibbsChain / PcaChain / HamiltonianChain / EnsembleSampler
objects, the real get_parameter / get_probabilities / get_sample / get_marginal /
get_interval are called (numpy.random.permutation inside base.py is replaced by
a scripted permutation; the density estimators by a recorder of their input),
and every returned array (shape and contents) is compared *inside Coq* with the
model's answer (`vm_compute` on coq/gen/C14/*.v).  On a disagreement the
property itself is evaluated on the implementation by direct indexing.

Histories with interrupted calls (Model/ReadoutsSteps.v, theorems C14_history_chain,
C14_readouts_after_interruptions, ...): real GibbsChain / MetropolisChain / PcaChain /
HamiltonianChain / EnsembleSampler objects are driven with scripted randomness; at a
chosen evaluation of the posterior (or of its gradient) inside take_step / advance an
exception is raised (every evaluation of the call is tried), the chain is read out, then
advanced further and read out again.  The store shapes seen from inside every
evaluation and all read-outs are compared in Coq with `run_history` / `trace` /
`answer`; doubles are mapped to integers by an order-preserving injection.

The caller's objects, rarely used options, long chains (Model/ReadoutsWorld.v, theorems
C14_readouts_after_caller_writes, C14_marginal_input_options, C14_size_shortcut_refuted, ...):
(a) real samplers are built from start / widths / bounds / starting_positions / inverse_mass objects the
harness keeps (float64 and float32 arrays, lists); between construction, steps, an interrupted step and the
read-outs the harness -- as a caller would -- modifies those objects IN PLACE (`start += d`, `buf[j] = v`,
...); the events Call / CallerWrite and all read-outs (burn = 0 included) are compared in Coq with
`run_events` on `construct` (`check_xcase`).  (b) histories of 20000 ... 52000 (thorough: 250000) steps are
injected and read out with both estimator types of get_marginal (unimodal = False / True), keyword,
positional and default arguments, >= 20000 retained values, and with every other read-out; long arrays go
to Coq packed (three 20-bit values per 63-bit machine integer).
"""
from __future__ import annotations

import json
import math
import random
import re
import struct
import time
import warnings
from concurrent.futures import ThreadPoolExecutor
from fractions import Fraction

import numpy as np

from lib import common as C
from lib import samplers as S
from lib import sampler_cases as SC

PROP = "C14"
THEOREMS = ["C14_slice_nth", "C14_slice_length", "C14_slice_positions",
            "C14_readouts_aligned", "C14_marginal_input",
            "C14_interval_rows_own", "C14_interval_top_fraction", "C14_interval_partition",
            "C14_interval_all", "C14_interval_count", "C14_interval_two_dimensional",
            "C14_interval_fraction",
            "C14_interrupted_call_leaves_chain", "C14_call_evaluations_see_old_chain",
            "C14_history_chain", "C14_readouts_after_interruptions", "C14_nonatomic_step_refuted",
            "C14_caller_writes_leave_store", "C14_readouts_after_caller_writes", "C14_shared_start_refuted",
            "C14_marginal_input_options", "C14_size_shortcut_refuted",
            "C14_hmc_squeeze_refuted", "C14_hmc_empty_sample_refuted",
            "C14_get_interval_count_refuted"]

HEADER = """From Coq Require Import List ZArith.
From IT Require Import Model.Readouts.
Import ListNotations.
Open Scope Z_scope.
"""

SAMPLERS = ["Gibbs", "Pca", "Hmc", "Ens"]
COLMAJOR = {"Gibbs", "Pca"}
DEFAULT_BURN = {"Gibbs": 1, "Pca": 1, "Hmc": 1, "Ens": 0}


# ---------------------------------------------------------------- real objects
def _post(theta):
    return -0.5 * float(np.sum(np.asarray(theta, dtype=float) ** 2))


def _grad(theta):
    return -np.asarray(theta, dtype=float)


def build(kind, npar, rows, probs):
    """A real sampler object whose stored history is `rows` (list of npar-lists of
    ints) with log-probabilities `probs`."""
    from inference.mcmc import GibbsChain, PcaChain, HamiltonianChain, EnsembleSampler
    n = len(rows)
    start = np.arange(1, npar + 1, dtype=float)
    if kind in ("Gibbs", "Pca"):
        cls = GibbsChain if kind == "Gibbs" else PcaChain
        ch = cls(posterior=_post, start=start, widths=[1.0] * npar, display_progress=False)
        for i, p in enumerate(ch.params):
            p.samples = [float(rw[i]) for rw in rows]
        ch.probs = [float(p) for p in probs]
        ch.chain_length = n
    elif kind == "Hmc":
        ch = HamiltonianChain(posterior=_post, start=start, grad=_grad, display_progress=False)
        ch.theta = [np.array([float(v) for v in rw]) for rw in rows]
        ch.probs = [float(p) for p in probs]
        ch.leapfrog_steps = [0] * n
        ch.chain_length = n
    elif kind == "Ens":
        nw = 8
        pos = np.array([[float(((w + 1) * (w + 2 * j + 1) * (j + 3)) % 17 - 8) for j in range(npar)]
                        for w in range(nw)])
        ch = EnsembleSampler(posterior=_post, starting_positions=pos, display_progress=False)
        ch.sample = np.array([[float(v) for v in rw] for rw in rows], dtype=float).reshape(n, npar)
        ch.sample_probs = np.array([float(p) for p in probs], dtype=float)
        ch.chain_length = n
    else:
        raise ValueError(kind)
    return ch


class _Recorder:
    """Stands in for GaussianKDE / UnimodalPdf: keeps what it is given."""
    def __init__(self, sample, *a, **k):
        self.sample = np.array(sample)


class Patched:
    """base.permutation -> scripted; base.GaussianKDE / UnimodalPdf -> recorder."""
    def __init__(self, r):
        self.r = r
        self.perm_log = []

    def permutation(self, x):
        n = int(x)
        perm = list(range(n))
        self.r.shuffle(perm)
        self.perm_log.append(perm)
        return np.array(perm)

    def __enter__(self):
        import inference.mcmc.base as base
        self.base = base
        self.saved = (base.permutation, base.GaussianKDE, base.UnimodalPdf)
        base.permutation = self.permutation
        base.GaussianKDE = _Recorder
        base.UnimodalPdf = _Recorder
        return self

    def __exit__(self, *a):
        self.base.permutation, self.base.GaussianKDE, self.base.UnimodalPdf = self.saved


def to_obs(a):
    """ndarray -> (shape tuple, flat list of ints) or raises ValueError."""
    a = np.asarray(a)
    if a.size > 64 and a.dtype.kind in "fiu":
        # long arrays: the same conversion, vectorised (anything unusual goes through the slow path below)
        f = a.reshape(-1)
        shape = tuple(int(s) for s in a.shape)
        if a.dtype.kind != "f":
            return (shape, [int(v) for v in f.tolist()])
        if np.isfinite(f).all() and (f == np.round(f)).all() and (np.abs(f) < 2.0 ** 53).all():
            return (shape, [int(v) for v in f.astype(np.int64).tolist()])
    flat = []
    for v in a.reshape(-1).tolist():
        f = C.frac(v)
        if f.denominator != 1:
            raise ValueError(f"non-integer value {v!r} in a read-out of an integer history")
        flat.append(int(f))
    return (tuple(int(s) for s in a.shape), flat)


def run_query(ch, q, patch, conv=None):
    """Run one query on the real object.  Returns ("ok", [obs...], extra) or
    ("exception", repr, extra).  `conv` turns a returned array into (shape, integers)."""
    conv = conv or to_obs
    kind = q["q"]
    extra = {}
    try:
        with warnings.catch_warnings():
            warnings.simplefilter("ignore")
            if kind == "param":
                out = [ch.get_parameter(q["i"], burn=q["burn"], thin=q["thin"])]
            elif kind == "probs":
                out = [ch.get_probabilities(burn=q["burn"], thin=q["thin"])]
            elif kind == "sample":
                out = [ch.get_sample(burn=q["burn"], thin=q["thin"])]
            elif kind == "marginal":
                call = q.get("call", "kw")
                if call == "positional":
                    m = ch.get_marginal(q["i"], q["burn"], q["thin"], q["unimodal"])
                elif call == "defaults":          # documented defaults: burn = 1, thin = 1 (all samplers)
                    assert (q["burn"], q["thin"]) == (1, 1)
                    m = ch.get_marginal(q["i"], unimodal=True) if q["unimodal"] else ch.get_marginal(q["i"])
                else:
                    m = ch.get_marginal(q["i"], burn=q["burn"], thin=q["thin"], unimodal=q["unimodal"])
                out = [m.sample]
            elif kind == "defaults":
                out = [ch.get_parameter(q["i"]), ch.get_probabilities(), ch.get_sample()]
            elif kind == "interval":
                mark = len(patch.perm_log)
                kw = {}
                if q["samples"] is not None:
                    kw["samples"] = q["samples"]
                call = q.get("call", "kw")
                if call == "positional":
                    s, p = ch.get_interval(q["interval"], q["burn"], q["thin"], q["samples"])
                elif call == "defaults":          # documented defaults: interval = 0.95, burn = 1, thin = 1, no count
                    assert (q["interval"], q["burn"], q["thin"], q["samples"]) == (0.95, 1, 1, None)
                    s, p = ch.get_interval()
                else:
                    s, p = ch.get_interval(interval=q["interval"], burn=q["burn"], thin=q["thin"], **kw)
                out = [s, p]
                calls = patch.perm_log[mark:]
                extra["perm"] = calls[-1] if calls else []
                extra["perm_calls"] = len(calls)
            else:
                raise ValueError(kind)
        return "ok", [conv(a) for a in out], extra
    except Exception as e:  # every generated query is one the documented interface accepts
        return "exception", repr(e), extra


# ---------------------------------------------------------------- the property, by direct indexing
def interval_size(n, burn, thin, samples):
    n0 = len(range(burn, n))
    t = thin if samples is None else max(n0 // samples, 1)
    return len(range(0, n0, t)), t


def code_cutoff(size, interval):
    """cutoff exactly as base.py:148 computes it (a float product)."""
    return int(size * (1 - interval))


def oracle(kind, npar, rows, probs, q, status, obs, extra):
    """Evaluate C14 itself on what the implementation returned; list of failures."""
    n = len(rows)
    if status != "ok":
        return [f"raised {obs}"]
    bad = []
    if q["q"] in ("param", "probs", "sample", "marginal", "defaults"):
        if q["q"] == "defaults":
            b, t = DEFAULT_BURN[kind], 1
            expect = [("get_parameter", (len(range(b, n, t)),), [rows[j][q["i"]] for j in range(b, n, t)]),
                      ("get_probabilities", (len(range(b, n, t)),), [probs[j] for j in range(b, n, t)]),
                      ("get_sample", (len(range(b, n, t)), npar),
                       [v for j in range(b, n, t) for v in rows[j]])]
        else:
            b, t = q["burn"], q["thin"]
            idx = list(range(b, n, t))
            if q["q"] in ("param", "marginal"):
                expect = [(q["q"], (len(idx),), [rows[j][q["i"]] for j in idx])]
            elif q["q"] == "probs":
                expect = [("get_probabilities", (len(idx),), [probs[j] for j in idx])]
            else:
                expect = [("get_sample", (len(idx), npar), [v for j in idx for v in rows[j]])]
        for (name, shp, flat), (oshp, oflat) in zip(expect, obs):
            if tuple(oshp) != tuple(shp):
                bad.append(f"{name}: shape {tuple(oshp)}, but {shp[0]} samples are retained (expected shape {shp})")
            elif oflat != flat:
                bad.append(f"{name}: entries are not steps burn, burn+thin, ... of the chain")
        return bad
    # interval
    (sshape, sflat), (pshape, pflat) = obs
    size, t = interval_size(n, q["burn"], q["thin"], q["samples"])
    idx = list(range(q["burn"], n, t))
    cutoff = code_cutoff(size, q["interval"])
    if len(sshape) != 2:
        bad.append(f"get_interval: sample array has {len(sshape)} dimensions {tuple(sshape)}, not 2")
        return bad
    if len(pshape) != 1 or pshape[0] != sshape[0] or sshape[1] != npar:
        bad.append(f"get_interval: shapes {tuple(sshape)} / {tuple(pshape)} are not (m, n_parameters) / (m,)")
        return bad
    m = sshape[0]
    got = [(pflat[k], tuple(sflat[k * npar:(k + 1) * npar])) for k in range(m)]
    pool = sorted(((probs[j], tuple(rows[j])) for j in idx), key=lambda pr: pr[0])
    top = pool[cutoff:]
    pool_set, top_set = set(pool), set(top)
    for pr in got:
        if pr not in pool_set:
            bad.append("get_interval: a returned row does not carry its own log-probability "
                       "(or is not a row of the burned / thinned chain)")
            break
    else:
        if any(pr not in top_set for pr in got):
            bad.append("get_interval: a returned row is not in the requested top fraction")
        if len(set(got)) != len(got):
            bad.append("get_interval: a row is returned twice")
        if q["samples"] is None:
            if sorted(got) != sorted(top):
                bad.append(f"get_interval: {m} rows returned, the top fraction has {len(top)}")
        else:
            if m > q["samples"]:
                bad.append(f"get_interval: {m} rows returned, more than the {q['samples']} requested")
            elif m != min(q["samples"], len(top)):
                bad.append(f"get_interval: {m} rows returned, expected min(count, top fraction) = "
                           f"{min(q['samples'], len(top))}")
    return bad


# ---------------------------------------------------------------- generation
def gen_history(r, n, npar):
    vals = r.sample(range(-10 ** 6, 10 ** 6), n * npar)
    rows = [vals[k * npar:(k + 1) * npar] for k in range(n)]
    probs = r.sample(range(-10 ** 5, 10 ** 5), n)
    return rows, probs


INTERVALS = [0.95, 0.5, 0.9, 0.1, 0.999, 0.75, 0.6827, 1e-9, 1 - 2.0 ** -53]


def gen_queries(r, kind, n, npar, pairs, dense):
    qs = []
    for burn, thin in pairs:
        qs.append({"q": "param", "i": r.randrange(npar), "burn": burn, "thin": thin})
        qs.append({"q": "probs", "burn": burn, "thin": thin})
        qs.append({"q": "sample", "burn": burn, "thin": thin})
        if dense or r.random() < 0.5:
            qs.append({"q": "marginal", "i": r.randrange(npar), "burn": burn, "thin": thin,
                       "unimodal": r.random() < 0.3})
        f = r.choice(INTERVALS) if r.random() < 0.8 else r.uniform(0.01, 0.99)
        qs.append({"q": "interval", "burn": burn, "thin": thin, "interval": f, "samples": None})
        left = len(range(burn, n))
        ks = {1, max(left, 1), left + 3}
        if left > 2:
            ks.add(r.randint(2, left - 1))
            ks.add(max(left // 2, 1))
            ks.add(r.randint(left // 2 + 1, left - 1))      # thin stays 1: rows must be dropped at random
            ks.add(max(left - r.randint(1, 3), 1))
        for k in sorted(ks) if dense else r.sample(sorted(ks), min(3, len(ks))):
            u = r.random()
            f = r.choice([0.999, 1 - 2.0 ** -53, 0.95, 0.9]) if u < 0.5 else \
                r.choice(INTERVALS) if u < 0.8 else r.uniform(0.01, 0.99)
            qs.append({"q": "interval", "burn": burn, "thin": thin, "interval": f, "samples": k})
    qs.append({"q": "defaults", "i": r.randrange(npar)})
    return qs


def gen_cases(r, tier):
    """-> list of dict(kind, npar, rows, probs, queries)"""
    cases = []
    small_max = 7 if tier == "quick" else 10
    for kind in SAMPLERS:
        for n in range(0, small_max + 1):
            npar = 1 + (n + SAMPLERS.index(kind)) % 3
            rows, probs = gen_history(r, n, npar)
            pairs = [(b, t) for b in range(0, n + 3) for t in range(1, n + 3)]
            cases.append({"kind": kind, "npar": npar, "rows": rows, "probs": probs,
                          "queries": gen_queries(r, kind, n, npar, pairs, dense=(n <= 5))})
    n_big = 24 if tier == "quick" else 200
    for k in range(n_big):
        kind = SAMPLERS[k % 4]
        n = r.choice([r.randint(8, 40), r.randint(41, 120), r.randint(8, 25)])
        if tier == "thorough" and k % 20 == 0:
            n = r.randint(300, 800)
        npar = r.randint(1, 4)
        rows, probs = gen_history(r, n, npar)
        pairs = set()
        while len(pairs) < 14:
            b = r.choice([0, 1, r.randint(0, n), r.randint(0, n), n - 1, n, n + 1, n + 2, r.randint(0, max(n // 4, 1))])
            t = r.choice([1, 2, 3, r.randint(1, max(n // 3, 1)), r.randint(1, n + 2), n, n + 2])
            pairs.add((max(b, 0), max(t, 1)))
        cases.append({"kind": kind, "npar": npar, "rows": rows, "probs": probs,
                      "queries": gen_queries(r, kind, n, npar, sorted(pairs), dense=False)})
    return cases


# ---------------------------------------------------------------- Coq side
def coq_obs(o):
    shp, flat = o
    return f"({C.clist([C.cnat(s) for s in shp])}, {C.clist([C.cz(v) for v in flat])})"


def coq_query(kind, n, q, extra):
    k = q["q"]
    if k == "param":
        return f"QParam {q['i']} {q['burn']} {q['thin']}"
    if k == "probs":
        return f"QProbs {q['burn']} {q['thin']}"
    if k == "sample":
        return f"QSample {q['burn']} {q['thin']}"
    if k == "marginal":
        return f"QMarginal {q['i']} {q['burn']} {q['thin']}"
    if k == "defaults":
        return f"QDefaults {q['i']}"
    size, _ = interval_size(n, q["burn"], q["thin"], q["samples"])
    cutoff = code_cutoff(size, q["interval"])
    smp = "None" if q["samples"] is None else f"(Some {q['samples']}%nat)"
    perm = C.clist([C.cnat(v) for v in extra.get("perm", [])])
    return f"QInterval {q['burn']} {q['thin']} {cutoff} {smp} {perm}"


def coq_case(case, results):
    kind, npar, rows, probs = case["kind"], case["npar"], case["rows"], case["probs"]
    if kind in COLMAJOR:
        data = [[rw[i] for rw in rows] for i in range(npar)]
    else:
        data = rows
    d = C.clist([C.clist([C.cz(v) for v in l]) for l in data])
    p = C.clist([C.cz(v) for v in probs])
    qos = []
    for q, (status, obs, extra) in zip(case["queries"], results):
        qos.append(f"({coq_query(kind, len(rows), q, extra)}, {C.clist([coq_obs(o) for o in obs])})")
    return f"({kind}, {C.cnat(npar)}, {d}, {p},\n  {C.clist(qos, ';' + chr(10) + '   ')})"


def describe(case, q, status, obs, extra):
    return {"sampler": case["kind"], "n_parameters": case["npar"], "rows": case["rows"],
            "probs": case["probs"], "query": q, "perm": extra.get("perm"),
            "history": case.get("history", "history injected, then this query"),
            "rows_before_replace_last": case.get("rows_before"), "probs_before_replace_last": case.get("probs_before"),
            "impl_status": status, "impl_output": obs if status != "ok" else [list(o) for o in obs]}


def key_of(case, q):
    return f"C14/{case['kind']}/{q['q']}" + ("-count" if q.get("samples") is not None else "")


# ---------------------------------------------------------------- histories with interrupted calls
H_HEADER = """From Coq Require Import List ZArith.
From IT Require Import Model.Readouts Model.ReadoutsSteps.
Import ListNotations.
Open Scope Z_scope.
"""
H_KINDS = ["gibbs", "metro", "pca", "hmc", "ensemble"]
H_TAG = {"gibbs": "Gibbs", "metro": "Gibbs", "pca": "Pca", "hmc": "Hmc", "ensemble": "Ens"}   # read-out model
H_NAME = {"gibbs": "GibbsChain", "metro": "MetropolisChain", "pca": "PcaChain", "hmc": "HamiltonianChain",
          "ensemble": "EnsembleSampler"}
H_EXCS = {"KeyboardInterrupt": KeyboardInterrupt, "FloatingPointError": FloatingPointError}


def zkey(x):
    """Order-preserving injection of the doubles into the integers (-0.0 and 0.0 coincide)."""
    x = float(x)
    if x != x:
        raise ValueError("NaN in a read-out")
    m = struct.unpack("<q", struct.pack("<d", abs(x)))[0]
    return m if x >= 0 else -m


def unkey(k):
    v = struct.unpack("<d", struct.pack("<q", abs(int(k))))[0]
    return v if k >= 0 else -v


def to_obs_key(a):
    a = np.asarray(a)
    return (tuple(int(s) for s in a.shape), [zkey(v) for v in a.reshape(-1).tolist()])


class RunawayCall(Exception):
    pass


class CallHook:
    """Runs inside every evaluation of the posterior / its gradient of the real sampler: notes the
    shape of the stored history at that moment and, when armed, raises at the k-th evaluation."""
    LIMIT = 5000      # evaluations in one call; a tree whose chain state is inconsistent can loop for ever

    def __init__(self, ch, kind):
        self.ch, self.kind = ch, kind
        self.begin()

    def begin(self):
        self.count, self.shapes, self.crash_at, self.exc, self.fired = 0, [], 0, None, False

    def arm(self, k, exc):
        self.crash_at, self.exc = k, exc

    def __call__(self, *_):
        self.count += 1
        if self.count > self.LIMIT:
            raise RunawayCall(f"more than {self.LIMIT} evaluations of the posterior in one call")
        self.shapes.append(h_shape(self.ch, self.kind))
        if self.crash_at and self.count == self.crash_at:
            self.crash_at, self.fired = 0, True
            raise self.exc("simulated interruption inside the posterior")


def h_shape(ch, kind):
    if kind in ("gibbs", "metro", "pca"):
        return ([len(p.samples) for p in ch.params], len(ch.probs))
    if kind == "hmc":
        return ([len(ch.theta)], len(ch.probs))
    return ([0 if ch.sample is None else int(np.shape(ch.sample)[0])],
            0 if ch.sample_probs is None else int(np.size(ch.sample_probs)))


def h_chain(ch, kind):
    """The stored chain of a freshly built sampler as (rows, probs) of integer keys."""
    if kind in ("gibbs", "metro", "pca"):
        n = len(ch.probs)
        return [[zkey(p.samples[k]) for p in ch.params] for k in range(n)], [zkey(v) for v in ch.probs]
    if kind == "hmc":
        return [[zkey(v) for v in t] for t in ch.theta], [zkey(v) for v in ch.probs]
    if ch.sample is None:
        return [], []
    return [[zkey(v) for v in t] for t in ch.sample], [zkey(v) for v in ch.sample_probs]


def h_state(ch, kind):
    """What a call that has just returned leaves as the new end of the chain: the current state."""
    if kind in ("gibbs", "metro", "pca"):
        return [[zkey(v) for v in ch.get_last()]], [zkey(ch.probs[-1])]
    if kind == "hmc":
        return [[zkey(v) for v in ch.theta[-1]]], [zkey(ch.probs[-1])]
    return [[zkey(v) for v in w] for w in ch.walker_positions], [zkey(v) for v in ch.walker_probs]


def h_open(cfg, inputs=None):
    ch, post, rng, fn = SC.build(cfg, inputs=inputs) if inputs is not None else SC.build(cfg)
    hook = CallHook(ch, cfg["kind"])
    post.delay = hook                      # called from inside RecordingPosterior.__call__
    if post.gfn is not None:
        g0 = post.gfn

        def gfn(th, _g0=g0, _hook=hook):   # ... and from inside RecordingPosterior.gradient
            _hook()
            return _g0(th)
        post.gfn = gfn
    return ch, hook


def h_call(ch, entry, nadv):
    with S.quiet():
        if entry == "take_step":
            ch.take_step()
        else:
            ch.advance(nadv)


def h_reference(cfg, nsteps):
    """Uninterrupted run, one take_step at a time: evaluations and new rows of every step."""
    ch, hook = h_open(cfg)
    out = []
    for _ in range(nsteps):
        hook.begin()
        h_call(ch, "take_step", 1)
        rows, probs = h_state(ch, cfg["kind"])
        out.append({"ne": hook.count, "rows": rows, "probs": probs})
    return out


def h_queries(rq, tag, n, npar, probs):
    pairs = {(0, 1), (1, 1), (0, 2), (rq.randint(0, n), rq.randint(1, n + 1)), (max(n - 1, 0), 1),
             (n, rq.choice([1, 2]))}
    pairs = [(0, 1)] + rq.sample(sorted(pairs - {(0, 1)}), min(2, len(pairs) - 1))
    qs = [{"q": "param", "i": i, "burn": 0, "thin": 1} for i in range(npar)]
    qs += gen_queries(rq, tag, n, npar, pairs, dense=False)
    if len(set(probs)) != len(probs):
        # equal log-probabilities: argsort order (and the duplicate test of the oracle) is not determined
        qs = [q for q in qs if q["q"] != "interval"]
    return qs


def h_scenario(cfg, sc, ref, patch, queries_for):
    """Drive the real sampler through: `pre` completed steps, one call (`entry`) whose `crash`-th
    evaluation raises, read-outs, `post` completed steps, read-outs.
    queries_for(segment index, n, probs) -> queries.  Returns the case dict."""
    kind, npar = cfg["kind"], cfg["n"]
    ch, hook = h_open(cfg)
    rows, probs = h_chain(ch, kind)
    case = {"hist": True, "cfg": cfg, "sc": sc, "kind": H_TAG[kind], "name": H_NAME[kind], "npar": npar,
            "init": (list(rows), list(probs)), "segments": [], "anomaly": None}
    rows, probs = list(rows), list(probs)

    def completed_steps(m):
        out = []
        for _ in range(m):
            hook.begin()
            h_call(ch, "take_step", 1)
            r_, p_ = h_state(ch, kind)
            out.append(({"ne": hook.count, "rows": r_, "probs": p_, "crash": 0}, list(hook.shapes)))
            rows.extend(r_)
            probs.extend(p_)
        return out

    def close_segment(steps):
        qs = queries_for(len(case["segments"]), len(probs), list(probs))
        res = [run_query(ch, q, patch, conv=to_obs_key) for q in qs]
        case["segments"].append({"steps": steps, "queries": qs, "results": res,
                                 "rows": list(rows), "probs": list(probs)})

    try:
        steps = completed_steps(sc["pre"])
        # the interrupted call
        k = sc["crash"]
        hook.begin()
        hook.arm(k, H_EXCS[sc["exc"]])
        try:
            h_call(ch, sc["entry"], sc["nadv"])
        except BaseException as e:
            if not hook.fired:
                raise
        if not hook.fired:
            case["anomaly"] = (f"the call made fewer than {k} evaluations although the same call of an identically "
                               f"built sampler made more")
            return case
        shapes = list(hook.shapes)
        part = ref[sc["pre"]: sc["pre"] + (sc["nadv"] if sc["entry"] == "advance" else 1)]
        if kind == "ensemble" and sc["entry"] == "advance":
            # EnsembleSampler.advance: all iterations, then one concatenate
            steps.append(({"ne": sum(s["ne"] for s in part), "rows": [r for s in part for r in s["rows"]],
                           "probs": [p for s in part for p in s["probs"]], "crash": k}, shapes))
        else:
            cum = 0
            for s in part:
                if k > cum + s["ne"]:
                    steps.append((dict(s, crash=0), shapes[cum:cum + s["ne"]]))
                    rows.extend(s["rows"])
                    probs.extend(s["probs"])
                    cum += s["ne"]
                else:
                    steps.append((dict(s, crash=k - cum), shapes[cum:]))
                    break
        close_segment(steps)
        close_segment(completed_steps(sc["post"]))
    except Exception as e:
        case["anomaly"] = f"a call that is not interrupted raised {e!r}"
    return case


def h_plan(r, tier):
    """-> list of (cfg, scenario, reference)"""
    plans = []
    ncfg = 3 if tier == "quick" else 10
    kmax = 10 if tier == "quick" else 40
    for kind in H_KINDS:
        got = 0
        for _attempt in range(ncfg * 4):
            if got >= ncfg:
                break
            cfg = SC.make_config(r, kind)
            if kind in ("gibbs", "metro", "pca") and got == 0 and cfg["n"] < 2:
                continue                      # at least one chain with several parameters per sampler
            pre = r.randint(1, 3) if kind == "ensemble" else r.randint(0, 3)
            nadv = r.randint(2, 3)
            try:
                ref = h_reference(cfg, pre + nadv)
            except Exception as e:
                plans.append((cfg, None, repr(e)))
                got += 1
                continue
            got += 1
            K1 = ref[pre]["ne"]
            ks = list(range(1, K1 + 1))
            if len(ks) > kmax:
                ks = sorted(set([1, 2, K1 - 1, K1] + r.sample(ks, kmax - 4)))
            for k in ks:
                plans.append((cfg, {"pre": pre, "entry": "take_step", "nadv": 1, "crash": k,
                                    "exc": r.choice(sorted(H_EXCS)), "post": r.randint(1, 3)}, ref))
            Kall = sum(s["ne"] for s in ref[pre:pre + nadv])
            later = list(range(K1 + 1, Kall + 1))
            for k in sorted(set(r.sample(later, min(len(later), 3 if tier == "quick" else 8)) + [Kall])):
                plans.append((cfg, {"pre": pre, "entry": "advance", "nadv": nadv, "crash": k,
                                    "exc": r.choice(sorted(H_EXCS)), "post": r.randint(1, 3)}, ref))
    return plans


def coq_shape(sh):
    return f"({C.clist([C.cnat(v) for v in sh[0]])}, {C.cnat(sh[1])})"


def coq_step(s):
    rows = C.clist([C.clist([C.cz(v) for v in rw]) for rw in s["rows"]])
    return f"(mkStep {C.cnat(s['ne'])} {rows} {C.clist([C.cz(v) for v in s['probs']])} {C.cnat(s['crash'])})"


def coq_hcase(case):
    """-> (term, per segment the indices of the queries that are in the term)"""
    rows, probs = case["init"]
    tag, npar = case["kind"], case["npar"]
    data = [[rw[i] for rw in rows] for i in range(npar)] if tag in COLMAJOR else rows
    st = f"({C.clist([C.clist([C.cz(v) for v in l]) for l in data])}, {C.clist([C.cz(v) for v in probs])})"
    segs, kept = [], []
    for seg in case["segments"]:
        n = len(seg["probs"])
        sos = C.clist([f"({coq_step(s)}, {C.clist([coq_shape(x) for x in shp])})" for s, shp in seg["steps"]],
                      ";\n     ")
        qos, ks = [], []
        for qi, (q, (status, obs, extra)) in enumerate(zip(seg["queries"], seg["results"])):
            if status == "ok":
                qos.append(f"({coq_query(tag, n, q, extra)}, {C.clist([coq_obs(o) for o in obs])})")
                ks.append(qi)
        segs.append(f"({sos},\n    {C.clist(qos, ';' + chr(10) + '     ')})")
        kept.append(ks)
    return f"({tag}, {C.cnat(npar)}, {st},\n  {C.clist(segs, ';' + chr(10) + '   ')})", kept


def h_describe(case, si, q, status, obs, extra):
    seg = case["segments"][si]
    sc = case["sc"]
    return {"sampler": case["name"], "n_parameters": case["npar"],
            "scenario": {"config": SC.describe(case["cfg"]), "sc": sc, "segment": si},
            "history": f"{case['name']} built from `config` with scripted randomness; {sc['pre']} x take_step(); "
                       f"{sc['entry']}({'' if sc['entry'] == 'take_step' else sc['nadv']}) during which evaluation "
                       f"number {sc['crash']} of the posterior / gradient raises {sc['exc']}"
                       + ("; then this query" if si == 0 else f"; {sc['post']} x take_step(); then this query"),
            "chain_rows": [[unkey(v) for v in rw] for rw in seg["rows"]],
            "chain_probs": [unkey(v) for v in seg["probs"]],
            "query": q, "perm": extra.get("perm"), "impl_status": status,
            "impl_output": obs if status != "ok" else [[list(o[0]), [unkey(v) for v in o[1]]] for o in obs]}


def h_key(case, q, bad):
    key = f"C14/{case['name']}/interrupted/{q['q']}" + ("-count" if q.get("samples") is not None else "")
    if bad:
        key += "/" + ("ndim" if "dimensions" in bad[0] else "exception" if "raised" in bad[0] else
                      "shape" if "shape" in bad[0] else "content")
    return key


def run_histories(rep, tier, patch):
    """The history dimension: interrupted calls.  Returns the number of validated queries."""
    r = C.rng_for(PROP, "histories")
    rq = C.rng_for(PROP, "history-queries")
    cases = []
    for cfg, sc, ref in h_plan(r, tier):
        if sc is None:
            rep.violation(f"C14/{H_NAME[cfg['kind']]}/history-exception",
                          f"{H_NAME[cfg['kind']]}: an uninterrupted run raised {ref}",
                          {"theorem_or_correspondence": "Model.ReadoutsSteps (histories of calls)",
                           "case": {"config": SC.describe(cfg)}}, False)
            continue
        tag = H_TAG[cfg["kind"]]
        case = h_scenario(cfg, sc, ref, patch,
                          lambda si, n, probs: h_queries(rq, tag, n, cfg["n"], probs))
        cases.append(case)
        K = ref[sc["pre"]]["ne"]
        rep.count(f"interrupted:sampler={case['name']}")
        rep.count(f"interrupted:entry={sc['entry']}")
        rep.count(f"interrupted:exception={sc['exc']}")
        rep.count("interrupted:crash_point=" + ("first evaluation" if sc["crash"] == 1 else
                                                 "last evaluation of the step" if sc["crash"] == K else
                                                 "in a later step of advance()" if sc["crash"] > K else "inside"))
        for seg in case["segments"]:
            for q in seg["queries"]:
                rep.count("interrupted:query=" + q["q"] + ("+count" if q.get("samples") is not None else ""))
                rep.case((case["name"], sorted(sc.items()), cfg["rng_seed"], len(seg["probs"]),
                          sorted(q.items(), key=str)), nontrivial=True)
    if len(rep.samples) < 4:
        for case in cases:
            if case["segments"] and case["cfg"]["n"] >= 2:
                seg = case["segments"][0]
                rep.sample({"sampler": case["name"], "scenario": case["sc"],
                            "chain_after_interruption": [[unkey(v) for v in rw] for rw in seg["rows"]][:4],
                            "store_shapes_seen_by_the_interrupted_call": seg["steps"][-1][1][:6],
                            "query": seg["queries"][0], "impl_output": seg["results"][0][1]})
                break

    # anomalies: the sampler could not be driven through the scenario
    for case in cases:
        if case["anomaly"]:
            rep.violation(f"C14/{case['name']}/history-exception", f"{case['name']}: {case['anomaly']}",
                          {"theorem_or_correspondence": "Model.ReadoutsSteps (histories of calls)",
                           "case": {"config": SC.describe(case["cfg"]), "sc": case["sc"]}}, False)
    cases = [c for c in cases if not c["anomaly"]]

    # correspondence inside Coq
    suspicious = set()      # (case, segment, query index) ; query index None = store shapes
    terms = [coq_hcase(c) for c in cases]
    for ci, case in enumerate(cases):
        for si, seg in enumerate(case["segments"]):
            for qi, rr in enumerate(seg["results"]):
                if rr[0] != "ok":
                    suspicious.add((ci, si, qi))
    files, spans = [], []
    cur, cur_sz, start = [], 0, 0
    for ci, (txt, _) in enumerate(terms):
        cur.append(txt)
        cur_sz += len(txt)
        if cur_sz > 250_000 or ci == len(terms) - 1:
            body = "Definition hcases : list hcase :=\n " + C.clist(cur, ";\n ") + "."
            files.append(C.write_case_file(PROP, f"hist_{len(files)}", H_HEADER, body,
                                           ["failing check_hcase hcases 0"]))
            spans.append((start, len(cur)))
            cur, cur_sz, start = [], 0, ci + 1
    n_checked = 0
    failing_cases = []
    for p, (st0, cnt), (ok, res, log) in zip(files, spans, C.run_case_files(files, jobs=14)):
        if not ok or 0 not in res:
            rep.obligation(False)
            rep.violation("C14/correspondence-run", f"case file {p.name} did not evaluate",
                          {"theorem_or_correspondence": f"correspondence file {p.name}", "log": log}, False)
            continue
        rep.obligation(True)
        n_checked += sum(len(ks) for ci in range(st0, st0 + cnt) for ks in terms[ci][1])
        failing_cases += [st0 + j for j in res[0]]
    # which segment / query of a failing case: second, small Coq run (smallest cases first)
    failing_cases.sort(key=lambda ci: len(terms[ci][0]))
    dfiles = [C.write_case_file(PROP, f"hist_detail_{k}", H_HEADER,
                                f"Definition the_case : hcase :=\n {terms[ci][0]}.", ["hcase_failures the_case"])
              for k, ci in enumerate(failing_cases[:28])]
    for ci, (ok, res, log) in zip(failing_cases[:28], C.run_case_files(dfiles, jobs=14)):
        if ok and 0 in res:
            for code in res[0]:
                si, j = divmod(code, 1000)
                suspicious.add((ci, si, None if j == 999 else terms[ci][1][si][j]))
        else:
            suspicious.add((ci, 0, None))
    for ci in failing_cases[28:]:
        suspicious.add((ci, 0, None))
    rep.coverage["interrupted_call_histories"] = len(cases)
    rep.coverage["interrupted_call_disagreements"] = len(suspicious)

    # failing-input search: the property itself on what the implementation returned
    best = {}
    shape_only = {}
    for ci, si, qi in sorted(suspicious, key=lambda t: (len(terms[t[0]][0]), t[1], -1 if t[2] is None else t[2])):
        case = cases[ci]
        if qi is None:
            shape_only.setdefault(case["name"], (case, si))
            continue
        seg = case["segments"][si]
        q = seg["queries"][qi]
        status, obs, extra = seg["results"][qi]
        bad = oracle(case["kind"], case["npar"], seg["rows"], seg["probs"], q, status, obs, extra)
        key = h_key(case, q, bad)
        if key in best:
            continue
        best[key] = True
        if bad:
            sc = case["sc"]
            rep.violation(key, f"{case['name']} after {sc['entry']} was interrupted at evaluation {sc['crash']}"
                               + ("" if si == 0 else f" and {sc['post']} more steps") + f", {q['q']}: "
                               + "; ".join(bad[:2]),
                          {"case": h_describe(case, si, q, status, obs, extra)}, True)
        else:
            rep.violation(key + "/correspondence",
                          "implementation and model disagree on a read-out after an interrupted call, but the "
                          "property was not seen to fail on this input",
                          {"theorem_or_correspondence": "Model.ReadoutsSteps.check_hcase (run_history + answer)",
                           "case": h_describe(case, si, q, status, obs, extra)}, False)
    for name, (case, si) in shape_only.items():
        seg = case["segments"][si]
        rep.violation(f"C14/{name}/interrupted/store-shapes/correspondence",
                      f"{name}: the stored history seen from inside the posterior during a call is not the history "
                      f"before the call (the model stores nothing before the last evaluation has returned)",
                      {"theorem_or_correspondence": "Model.ReadoutsSteps.trace (C14_call_evaluations_see_old_chain)",
                       "case": {"sampler": name, "config": SC.describe(case["cfg"]), "sc": case["sc"], "segment": si,
                                "observed_store_shapes_per_call": [shp for _, shp in seg["steps"]]}}, False)

    # [R] second opinion: the oracle on a slice of the agreeing queries
    stride = 4 if tier == "quick" else 2
    for ci, case in enumerate(cases):
        for si, seg in enumerate(case["segments"]):
            for qi in range((ci + si) % stride, len(seg["queries"]), stride):
                if (ci, si, qi) in suspicious:
                    continue
                q = seg["queries"][qi]
                status, obs, extra = seg["results"][qi]
                bad = oracle(case["kind"], case["npar"], seg["rows"], seg["probs"], q, status, obs, extra)
                if bad and h_key(case, q, bad) not in best:
                    best[h_key(case, q, bad)] = True
                    rep.violation(h_key(case, q, bad), f"{case['name']} {q['q']}: " + "; ".join(bad[:2]),
                                  {"case": h_describe(case, si, q, status, obs, extra)}, True)
    return n_checked


def replay_scenario(c):
    s = c["scenario"]
    cfg = SC.undescribe(s["config"])
    sc = s["sc"]
    q = c["query"]
    perm = c.get("perm") or []

    class OnePerm(Patched):
        def permutation(self, x):
            self.perm_log.append(list(perm))
            return np.array(perm if len(perm) == int(x) else list(range(int(x))))
    ref = h_reference(cfg, sc["pre"] + sc["nadv"])
    with OnePerm(None) as patch:
        case = h_scenario(cfg, sc, ref, patch, lambda si, n, probs: [q] if si == s["segment"] else [])
    if case["anomaly"]:
        print("could not drive the sampler through the scenario:", case["anomaly"])
        return 1
    seg = case["segments"][s["segment"]]
    status, obs, extra = seg["results"][0]
    print("implementation returns:", status, obs if status != "ok" else [(o[0], [unkey(v) for v in o[1]]) for o in obs])
    bad = oracle(case["kind"], case["npar"], seg["rows"], seg["probs"], q, status, obs, extra)
    print("property failures:", bad)
    return 1 if bad else 0


# ---------------------------------------------------------------- Model/ReadoutsWorld.v: common Coq side
X_HEADER = """From Coq Require Import List ZArith Uint63.
From IT Require Import Model.Readouts Model.ReadoutsSteps Model.ReadoutsWorld.
Import ListNotations.
Open Scope Z_scope.
"""
PACK_BITS = 20
PACK_MIN = 1500         # arrays longer than this are handed to Coq packed (when their values fit)
_XRES = re.compile(r"verif_result_(\d+)\s*=\s*(.*?)\s*:\s*list\s+nat", re.S)


def pack(vals):
    """Values 0 <= v < 2^20, three per 63-bit machine integer (most significant first), in chunks
    `(count, words)`: the argument of Model.ReadoutsWorld.unpack."""
    chunks = []
    for k in range(0, len(vals), 15000):
        c = vals[k:k + 15000]
        t = c + [0, 0]
        words = [(t[j] << 40) | (t[j + 1] << 20) | t[j + 2] for j in range(0, len(c), 3)]
        chunks.append(f"({len(c)}%nat, [{'; '.join(map(str, words))}]%uint63)")
    return "[" + "; ".join(chunks) + "]"


def packable(vals):
    return all(0 <= v < (1 << PACK_BITS) for v in vals)


def coq_xobs(o):
    shp, flat = o
    if len(flat) > PACK_MIN and packable(flat):
        body = f"Packed {pack(flat)}"
    else:
        body = f"Lit {C.clist([C.cz(v) for v in flat])}"
    return f"({C.clist([C.cnat(s) for s in shp])}, {body})"


def coq_xquery(kind, n, q, extra):
    if q["q"] == "marginal":
        return f"XMarginal {C.cbool(q['unimodal'])} {q['i']} {q['burn']} {q['thin']}"
    return f"XQ ({coq_query(kind, n, q, extra)})"


def run_big_case_files(paths, jobs=14, timeout=900):
    """C.run_case_files with the stack limit of coqc raised (lists of 10^5 entries are evaluated by
    structural recursion).  Every `Eval` of these files is a list of failure codes."""
    def one(p):
        # a smaller minor heap than coqc's default 256 MB: these files are large, the machine may be shared
        cmd = ["bash", "-c", 'ulimit -s unlimited 2>/dev/null || ulimit -s "$(ulimit -H -s)" 2>/dev/null; '
                             'export OCAMLRUNPARAM="${OCAMLRUNPARAM:-s=4M}"; '
                             'exec timeout "$0" coqc "$@"', str(timeout)] + C.COQFLAGS + ["-noglob", str(p)]
        rc, out, _ = C.sh(cmd, timeout=timeout + 30)
        if rc in (137, -9):      # killed from outside (memory pressure on a shared machine): once more
            time.sleep(5)
            rc, out, _ = C.sh(cmd, timeout=timeout + 30)
        if rc != 0:
            return False, {}, out[-3000:]
        res = {}
        for m in _XRES.finditer(out):
            res[int(m.group(1))] = [int(x) for x in re.findall(r"\d+", re.sub(r"%nat", "", m.group(2)))]
        return True, res, out[-3000:]
    if not paths:
        return []
    with ThreadPoolExecutor(max_workers=jobs) as ex:
        return list(ex.map(one, paths))


def content_kind(bad):
    return ("ndim" if "dimensions" in bad[0] else "exception" if "raised" in bad[0] else
            "shape" if "shape" in bad[0] else "content")


# ---------------------------------------------------------------- long chains, rarely used options
LONG_MIN = 20000        # retained values from which the long-chain queries start


def long_history(gen_seed, n_generated, npar, n=None):
    """Distinct values below 2^20 from a seeded generator; a shorter chain is a prefix."""
    rg = random.Random(gen_seed)
    vals = rg.sample(range(1 << PACK_BITS), n_generated * npar)
    probs = rg.sample(range(1 << PACK_BITS), n_generated)
    n = n_generated if n is None else n
    return [vals[k * npar:(k + 1) * npar] for k in range(n)], probs[:n]


def long_queries(r, kind, n, npar, nbig):
    col = kind in COLMAJOR
    i = lambda: r.randrange(npar)
    P0 = (0, 1)
    P1 = (n - LONG_MIN - r.randint(0, min(500, n - LONG_MIN)), 1)  # just over 20000 retained
    P2 = (r.randint(0, 50), r.choice([2, 3]))
    P3 = (r.randint(0, n // 2), r.randint(max(n // 400, 2), max(n // 100, 3)))   # a few hundred retained

    def M(pr, u, call="kw"):
        return {"q": "marginal", "i": i(), "burn": pr[0], "thin": pr[1], "unimodal": u, "call": call}

    def G(what, pr, **kw):
        d = {"q": what, "burn": pr[0], "thin": pr[1]}
        if what == "param":
            d["i"] = i()
        d.update(kw)
        return d

    def I(pr, f, samples, call="kw"):
        return {"q": "interval", "burn": pr[0], "thin": pr[1], "interval": f, "samples": samples, "call": call}

    # the rarely used estimator type on >= 20000 retained values: every way of passing the arguments
    qs = [M(P0, True), M(P1, True, "positional"), M((1, 1), r.random() < 0.6, "defaults"), M(P2, True), M(P3, True)]
    big = [M(P0, False), M(P1, False, "positional"), G("param", P0), G("param", P1), G("probs", P0), G("probs", P1)]
    if not col:     # the column-major model transposes with nth: quadratic in the number of retained rows
        big += [G("sample", P0), G("sample", P1), I(P0, r.choice([0.95, 0.5, 0.999]), None),
                I(P1, r.uniform(0.05, 0.95), None, "positional"), I(P1, 0.9, n + 3),
                I((1, 1), 0.95, None, "defaults"), {"q": "defaults", "i": i()}]
    qs += r.sample(big, min(nbig, len(big)))
    # small read-outs of a long chain
    qs += [G("param", P3), G("probs", P3), G("sample", P3), G("param", P2), G("probs", P2),
           I(P3, r.choice(INTERVALS), None), I(P0, 0.999, 300), I(P2, 1 - 2.0 ** -53, r.randint(50, 400), "positional"),
           I(P3, 0.95, r.randint(20, 60))]
    return qs


def gen_long_cases(r, tier):
    """(the getters of GibbsChain and PcaChain are the same inherited functions: one of the two per run)"""
    cases = []
    if tier == "quick":
        kinds = [r.choice(["Gibbs", "Pca"]), "Hmc", "Ens"]
        sizes = [r.randint(LONG_MIN, LONG_MIN + 4000) for _ in kinds]
        sizes[r.randrange(len(kinds))] = r.randint(30000, 52000)
        plan = [(k, n, 1) for k, n in zip(kinds, sizes)]
    else:
        plan = [(k, r.randint(LONG_MIN, 40000), 3) for k in SAMPLERS * 2]
        plan += [(r.choice(SAMPLERS), r.randint(60000, 130000), 1), (r.choice(["Hmc", "Ens"]), r.randint(40000, 80000), 2)]
    for kind, n, nbig in plan:
        npar = r.choice([1, 2]) if n <= 30000 else 1
        gen = {"gen_seed": r.randrange(2 ** 32), "n_generated": n, "npar": npar}
        rows, probs = long_history(gen["gen_seed"], n, npar)
        cases.append({"kind": kind, "npar": npar, "rows": rows, "probs": probs, "gen": gen,
                      "queries": long_queries(r, kind, n, npar, nbig)})
    return cases


R_KINDS = ["ensemble", "metro", "gibbs", "pca", "hmc"]


def real_long_run(kind, seed, npar, target):
    """A real sampler (its own random generator seeded, adaptation of widths / directions / step size left on)
    advanced by take_step() / advance(1) until it holds >= target entries -- an EnsembleSampler with 200-260
    walkers reaches 20000 entries in about 90 iterations.  The chain it should then hold is recorded from the
    sampler's STATE after every call (get_last / theta[-1] / walker positions), never from the read-outs.
    -> (sampler, rows, probs) as floats."""
    from inference.mcmc import GibbsChain, PcaChain, HamiltonianChain, EnsembleSampler
    from inference.mcmc.gibbs import MetropolisChain
    rg = np.random.default_rng(seed)
    mu, sig = np.array([1.0, -2.0, 0.5][:npar]), np.array([1.0, 2.0, 0.5][:npar])

    def post(t):
        return float(-0.5 * (((np.asarray(t, dtype=float) - mu) / sig) ** 2).sum())

    def grad(t):
        return -(np.asarray(t, dtype=float) - mu) / sig ** 2
    rows, probs = [], []

    def note():
        if kind == "ensemble":
            rows.extend(ch.walker_positions.tolist())
            probs.extend(ch.walker_probs.tolist())
        elif kind == "hmc":
            rows.append([float(v) for v in ch.theta[-1]])
            probs.append(float(ch.probs[-1]))
        else:
            rows.append([float(v) for v in ch.get_last()])
            probs.append(float(ch.probs[-1]))
    with warnings.catch_warnings():
        warnings.simplefilter("ignore")
        if kind == "ensemble":
            nw = int(rg.integers(200, 261))
            ch = EnsembleSampler(posterior=post, starting_positions=rg.normal(size=(nw, npar)) * sig + mu,
                                 display_progress=False)
            ch.rng = rg
        elif kind == "hmc":
            ch = HamiltonianChain(posterior=post, start=mu + 0.5, grad=grad, display_progress=False)
            ch.rng, ch.steps = rg, 3
            note()
        else:
            cls = {"metro": MetropolisChain, "gibbs": GibbsChain, "pca": PcaChain}[kind]
            ch = cls(posterior=post, start=mu + 0.5, widths=sig.copy(), display_progress=False)
            S.attach_rng(ch, rg)
            note()
        k = 0
        with S.quiet():
            while len(probs) < target:
                k += 1
                if k % 7 == 0:
                    ch.advance(1)
                else:
                    ch.take_step()
                note()
    return ch, rows, probs


def rank_map(rows, probs):
    """Order-preserving injection of the doubles of this chain into 0 .. (number of distinct values) - 1."""
    vals = sorted(set(v for rw in rows for v in rw) | set(probs))
    return {v: k for k, v in enumerate(vals)}


def real_long_case(r, kind, n_queries_big):
    npar = r.choice([1, 2])
    run = {"kind": kind, "seed": r.randrange(2 ** 32), "npar": npar, "target": r.randint(LONG_MIN + 200, LONG_MIN + 3000)}
    ch, frows, fprobs = real_long_run(kind, run["seed"], npar, run["target"])
    rk = rank_map(frows, fprobs)

    def conv(a):
        a = np.asarray(a)
        try:
            return (tuple(int(s) for s in a.shape), [rk[v] for v in a.reshape(-1).tolist()])
        except KeyError as e:
            raise ValueError(f"a returned value ({e.args[0]!r}) is not an entry of the chain at all")
    rows, probs = [[rk[v] for v in rw] for rw in frows], [rk[v] for v in fprobs]
    qs = long_queries(r, H_TAG[kind], len(probs), npar, n_queries_big)
    if len(set(probs)) != len(probs):   # walkers that did not move: equal log-probabilities, argsort order open
        qs = [q for q in qs if q["q"] != "interval"]
    return {"kind": H_TAG[kind], "name": H_NAME[kind], "npar": npar, "rows": rows, "probs": probs,
            "gen": {"real_run": run}, "queries": qs, "chain": ch, "conv": conv}


def coq_long_case(case, results):
    """-> (term of type xcase, indices of the queries in it)"""
    kind, npar, rows, probs = case["kind"], case["npar"], case["rows"], case["probs"]
    n = len(rows)
    if kind in COLMAJOR:
        origin = f"InjectedPacked {C.clist([pack([rw[i] for rw in rows]) for i in range(npar)])} {pack(probs)}"
    else:
        origin = f"InjectedPackedRows {C.cnat(n)} {pack([v for rw in rows for v in rw])} {pack(probs)}"
    qos, kept = [], []
    for qi, (q, (status, obs, extra)) in enumerate(zip(case["queries"], results)):
        if status == "ok":
            qos.append(f"({coq_xquery(kind, n, q, extra)}, {C.clist([coq_xobs(o) for o in obs])})")
            kept.append(qi)
    return (f"({kind}, {C.cnat(npar)}, {origin},\n  [([], {C.clist(qos, ';' + chr(10) + '   ')})])", kept)


def long_describe(case, n, q, status, obs, extra):
    def short(o):
        return {"shape": list(o[0]), "first_entries": o[1][:6], "entries": len(o[1])}
    if "chain" in case:
        run = case["gen"]["real_run"]
        return {"sampler": case["name"], "n_parameters": case["npar"], "rows_generated": {"real_run": run},
                "history": f"{case['name']} with its random generator seeded, advanced by take_step() (every 7th call "
                           f"advance(1)) until it holds >= {run['target']} entries (props/c14.py real_long_run); "
                           f"values are given as ranks among the doubles of the chain; then this query",
                "query": q, "perm": extra.get("perm"), "impl_status": status,
                "impl_output": obs if status != "ok" else [short(o) for o in obs]}
    return {"sampler": case["kind"], "n_parameters": case["npar"],
            "rows_generated": dict(case["gen"], n=n),
            "history": f"history of {n} steps (distinct integers from random.Random(gen_seed), see "
                       f"props/c14.py long_history) written into the object's attributes, then this query",
            "query": q, "perm": extra.get("perm"), "impl_status": status,
            "impl_output": obs if status != "ok" else [short(o) for o in obs]}


def long_probe(case, n, q, patch):
    """The query on the first n steps of the case's history; -> (failures, status, obs, extra)."""
    rows, probs = case["rows"][:n], case["probs"][:n]
    ch = build(case["kind"], case["npar"], rows, probs)
    status, obs, extra = run_query(ch, q, patch)
    return oracle(case["kind"], case["npar"], rows, probs, q, status, obs, extra), status, obs, extra


def long_shrink(case, q, patch, budget=18):
    """Shortest prefix of the history (by bisection) on which the property still fails for q."""
    hi, lo = len(case["rows"]), min(q.get("burn", 0), len(case["rows"]) - 1)
    best = None
    while hi - lo > 1 and budget > 0:
        budget -= 1
        mid = (lo + hi) // 2
        try:
            bad, status, obs, extra = long_probe(case, mid, q, patch)
        except Exception:
            bad = []
        if bad:
            hi, best = mid, (bad, status, obs, extra)
        else:
            lo = mid
    return (hi,) + best if best else None


def long_start(rep, tier, patch):
    """Long injected histories; every read-out, both estimator types of get_marginal, all ways of passing
    the arguments.  Runs the implementation, writes the Coq files and starts coqc on them in the background."""
    r = C.rng_for(PROP, "long-chains")
    cases = gen_long_cases(r, tier)
    # ... and real samplers advanced that far (quick: one of them)
    for kind in ([r.choice(R_KINDS[:1] * 2 + R_KINDS[:4])] if tier == "quick" else R_KINDS):
        try:
            cases.append(real_long_case(r, kind, 1 if tier == "quick" else 3))
        except Exception as e:
            rep.violation(f"C14/{H_NAME[kind]}/long-run/exception",
                          f"{H_NAME[kind]}: advancing a real sampler to {LONG_MIN} entries raised {e!r}",
                          {"theorem_or_correspondence": "Model.ReadoutsSteps (histories of calls)",
                           "case": {"sampler": H_NAME[kind]}}, False)
    results, terms, files = [], [], []
    for ci, case in enumerate(cases):
        n = len(case["rows"])
        ch = case["chain"] if "chain" in case else build(case["kind"], case["npar"], case["rows"], case["probs"])
        res = [run_query(ch, q, patch, conv=case.get("conv")) for q in case["queries"]]
        results.append(res)
        rep.count(f"long:sampler={case.get('name', case['kind'])}" + (" (real run)" if "chain" in case else ""))
        rep.count("long:n=" + ("20000-24000" if n <= 24000 else "24001-60000" if n <= 60000 else ">60000"))
        for q in case["queries"]:
            left = len(range(q["burn"], n, q["thin"])) if "burn" in q else n - DEFAULT_BURN[case["kind"]]
            what = q["q"] + ("+count" if q.get("samples") is not None else "") + \
                (("/unimodal" if q["unimodal"] else "/kde") if q["q"] == "marginal" else "")
            rep.count("long:query=" + what)
            rep.count("long:retained" + (">=20000" if left >= LONG_MIN else "<20000"))
            rep.count("long:arguments=" + q.get("call", "kw"))
            rep.case((case["kind"], repr(case["gen"]), sorted(q.items(), key=str)), nontrivial=True)
        txt, kept = coq_long_case(case, res)
        terms.append(kept)
        files.append(C.write_case_file(PROP, f"long_{ci}", X_HEADER, f"Definition the_case : xcase :=\n {txt}.",
                                       ["xcase_failures the_case"]))
        del txt
        # long observed arrays are not kept (memory): such a query is deterministic and is run again if needed
        results[ci] = [(s_, (None if s_ == "ok" and sum(len(o[1]) for o in o_) > 5000 else o_), e_)
                       for s_, o_, e_ in res]
    ex = ThreadPoolExecutor(max_workers=1)
    return {"cases": cases, "results": results, "terms": terms, "files": files,
            "future": ex.submit(run_big_case_files, files, 2), "executor": ex}


def long_finish(rep, st, patch):
    """Collects the Coq verdicts on the long histories.  Returns the number of read-outs validated in Coq."""
    cases, results, terms, files = st["cases"], st["results"], st["terms"], st["files"]
    outs = st["future"].result()
    st["executor"].shutdown()
    suspicious = []
    n_checked = 0
    for ci, (p, (ok, res, log)) in enumerate(zip(files, outs)):
        for qi, rr in enumerate(results[ci]):
            if rr[0] != "ok":
                suspicious.append((ci, qi))
        if not ok or 0 not in res:
            rep.obligation(False)
            rep.violation("C14/correspondence-run", f"case file {p.name} did not evaluate",
                          {"theorem_or_correspondence": f"correspondence file {p.name}", "log": log}, False)
            continue
        rep.obligation(True)
        n_checked += len(terms[ci])
        suspicious += [(ci, terms[ci][code % 1000]) for code in res[0] if code % 1000 != 999]
    rep.coverage["long_chain_histories"] = len(cases)
    rep.coverage["long_chain_lengths"] = [len(c["rows"]) for c in cases]
    rep.coverage["long_chain_disagreements"] = len(suspicious)

    seen = set()

    def report(ci, qi, from_coq):
        case = cases[ci]
        q = case["queries"][qi]
        status, obs, extra = results[ci][qi]
        if obs is None:
            ch = case["chain"] if "chain" in case else build(case["kind"], case["npar"], case["rows"], case["probs"])
            status, obs, extra = run_query(ch, q, patch, conv=case.get("conv"))
        n = len(case["rows"])
        bad = oracle(case["kind"], case["npar"], case["rows"], case["probs"], q, status, obs, extra)
        key = f"C14/{case.get('name', case['kind'])}/long/{q['q']}" + ("-count" if q.get("samples") is not None else "") + \
              ("-unimodal" if q.get("unimodal") else "")
        if bad:
            key += "/" + content_kind(bad)
        elif not from_coq:
            return
        if key in seen:
            return
        seen.add(key)
        if bad:
            small = long_shrink(case, q, patch) if "chain" not in case else None
            if small:
                n, bad, status, obs, extra = small
            rep.violation(key, f"{case.get('name', case['kind'])} with a chain of {n} "
                               + ("entries produced by the sampler itself" if "chain" in case else "steps")
                               + f", {q['q']}"
                               + (f" (unimodal={q['unimodal']})" if q["q"] == "marginal" else "")
                               + f" burn={q.get('burn')} thin={q.get('thin')} arguments passed as "
                               + f"{q.get('call', 'kw')}: " + "; ".join(bad[:2]),
                          {"case": long_describe(case, n, q, status, obs, extra)}, True)
        else:
            rep.violation(key + "/correspondence",
                          "implementation and model disagree on a read-out of a long chain, but the property was "
                          "not seen to fail on this input",
                          {"theorem_or_correspondence": "Model.ReadoutsWorld.check_xcase (xanswer)",
                           "case": long_describe(case, n, q, status, obs, extra)}, False)

    for ci, qi in sorted(set(suspicious)):
        report(ci, qi, True)
    # [R] second opinion: the property by direct indexing on a slice of the agreeing queries
    sus = set(suspicious)
    for ci, case in enumerate(cases):
        for qi in range(ci % 3, len(case["queries"]), 3):
            if (ci, qi) not in sus:
                report(ci, qi, False)
    return n_checked


# ---------------------------------------------------------------- the caller goes on using its own objects
W_BUFS = {"gibbs": ["start", "widths"], "metro": ["start", "widths"], "pca": ["start", "widths", "bounds"],
          "hmc": ["start", "bounds", "inv_mass"], "ensemble": ["positions", "bounds"]}
W_FORMS = [None, None, "f32", "flist"]


def w_objects(inputs, kind):
    """[(name, object)]: the mutable objects the caller handed to the constructor (a start buffer first)."""
    out = []
    for name in W_BUFS[kind]:
        o = inputs.get(name)
        if o is None:
            continue
        if name == "bounds":
            out += [("bounds.lower", o[0]), ("bounds.upper", o[1])]
        else:
            out.append((name, o))
    return [(nm, o) for nm, o in out if isinstance(o, (np.ndarray, list))]


def w_keys(o):
    return [zkey(float(v)) for v in (o.reshape(-1).tolist() if isinstance(o, np.ndarray) else o)]


def w_op(r, name):
    if name in ("start", "positions"):
        return r.choice([{"op": "shift_all", "d": r.randint(1, 4) / 8.0},
                         {"op": "shift_one", "j": r.randrange(64), "d": r.choice([-1, 1]) * r.randint(1, 4) / 8.0},
                         {"op": "shift_all", "d": r.randint(1, 4) / 8.0}])
    if name == "widths":
        return r.choice([{"op": "scale_all", "f": 2.0}, {"op": "scale_one", "j": r.randrange(64), "f": 2.0}])
    if name == "bounds.lower":
        return {"op": "shift_all", "d": -r.randint(1, 4) / 8.0}
    if name == "bounds.upper":
        return {"op": "shift_all", "d": r.randint(1, 4) / 8.0}
    return {"op": "scale_all", "f": 4.0}          # inv_mass


def w_apply(o, op):
    """What the caller does to ITS OWN object, in place."""
    if isinstance(o, np.ndarray):
        flat = o.reshape(-1)
        assert np.shares_memory(flat, o)
        if op["op"] == "shift_all":
            o += op["d"]
        elif op["op"] == "scale_all":
            o *= op["f"]
        elif op["op"] == "shift_one":
            flat[op["j"] % flat.size] += op["d"]
        else:
            flat[op["j"] % flat.size] *= op["f"]
    else:
        js = range(len(o)) if op["op"].endswith("_all") else [op["j"] % len(o)]
        for j in js:
            o[j] = o[j] + op["d"] if op["op"].startswith("shift") else o[j] * op["f"]


def w_drivable(cfg, nsteps):
    """Can the sampler of this configuration be stepped at all (nobody touching anything)?  A few random
    configurations are too hard for a sampler (e.g. HamiltonianChain gives up after 200 rejected
    proposals): that is not a matter of the read-outs."""
    try:
        ch, _ = h_open(cfg)
        for _ in range(nsteps):
            h_call(ch, "take_step", 1)
        return True
    except Exception:
        return False


def w_plan(r, tier, skipped=None):
    """-> list of (cfg, plan); everything random is fixed here, so that a plan can be replayed."""
    out = []
    ncfg = 4 if tier == "quick" else 12
    for kind in H_KINDS:
        got = 0
        for _attempt in range(4 * ncfg):
            if got >= ncfg:
                break
            cfg = SC.make_config(r, kind)
            forms = {}
            if got > 0:     # the first configuration of every sampler: float64 arrays throughout (the default)
                for key in ("start", "widths", "bounds", "positions"):
                    f = r.choice(W_FORMS)
                    if f:
                        forms[key] = f
            cfg["input_form"] = forms
            # start / starting_positions are modified between the calls; widths, bounds and inverse_mass only
            # after the last call: the pinned Bounds / mass objects keep references to the caller's arrays, so
            # that modifying those changes how the sampler goes on sampling (not a matter of C14)
            first = ["start", "positions"]
            names = first + ["widths", "bounds.lower", "bounds.upper", "inv_mass"]
            segs = [{"steps": 1 if kind == "ensemble" else r.choice([0, 0, 1]), "interrupt": False,
                     "writes": [dict(w_op(r, nm), buf=nm) for nm in first]},
                    {"steps": r.randint(1, 3), "interrupt": r.random() < 0.5,
                     "writes": [dict(w_op(r, nm), buf=nm) for nm in first]},
                    {"steps": r.randint(1, 2), "interrupt": False,
                     "writes": [dict(w_op(r, nm), buf=nm) for nm in names]}]
            plan = {"segments": segs, "exc": r.choice(sorted(H_EXCS))}
            if not w_drivable(cfg, sum(sp["steps"] for sp in segs) + 1):
                if skipped is not None:
                    skipped.append(H_NAME[kind])
                continue
            got += 1
            out.append((cfg, plan))
    return out


def w_scenario(cfg, plan, patch, queries_for):
    kind, npar = cfg["kind"], cfg["n"]
    case = {"cfg": cfg, "plan": plan, "kind": H_TAG[kind], "name": H_NAME[kind], "npar": npar,
            "segments": [], "anomaly": None, "buffers": []}
    try:
        inputs = {}
        ch, hook = h_open(cfg, inputs)
        objs = w_objects(inputs, kind)
        case["buffers"] = [nm for nm, _ in objs]
        case["forms"] = {nm: (f"{type(o).__name__}" + (f"[{o.dtype}]" if isinstance(o, np.ndarray) else "")) for nm, o in objs}
        case["heap"] = [w_keys(o) for _, o in objs]
        case["starts"] = [0] if (kind != "ensemble" and objs and objs[0][0] == "start") else []
        rows, probs = h_chain(ch, kind)
        case["init"] = (list(rows), list(probs))
        rows, probs = list(rows), list(probs)
        written = []
        for sp in plan["segments"]:
            events = []
            for _ in range(sp["steps"]):
                hook.begin()
                h_call(ch, "take_step", 1)
                r_, p_ = h_state(ch, kind)
                events.append(("call", {"ne": hook.count, "rows": r_, "probs": p_, "crash": 0}, list(hook.shapes)))
                rows.extend(r_)
                probs.extend(p_)
            if sp["interrupt"]:
                hook.begin()
                hook.arm(1, H_EXCS[plan["exc"]])
                try:
                    h_call(ch, "take_step", 1)
                except BaseException:
                    if not hook.fired:
                        raise
                if not hook.fired:
                    case["anomaly"] = "take_step() returned without evaluating the posterior or its gradient"
                    return case
                events.append(("call", {"ne": 1, "rows": [], "probs": [], "crash": 1}, list(hook.shapes)))
            for op in sp["writes"]:
                if op["buf"] not in case["buffers"]:
                    continue
                b = case["buffers"].index(op["buf"])
                o = objs[b][1]
                before = w_keys(o)
                w_apply(o, op)
                after = w_keys(o)
                events += [("write", b, j, v) for j, (u, v) in enumerate(zip(before, after)) if u != v]
                if op["buf"] not in written:
                    written.append(op["buf"])
            qs = queries_for(len(case["segments"]), len(probs), list(probs))
            res = [run_query(ch, q, patch, conv=to_obs_key) for q in qs]
            case["segments"].append({"events": events, "queries": qs, "results": res, "rows": list(rows),
                                     "probs": list(probs), "written": list(written)})
    except Exception as e:
        case["anomaly"] = f"a constructor, a completed call or an in-place modification of a caller's object raised {e!r}"
    return case


def w_queries(rq, tag, n, npar, probs):
    pairs = [(0, 1), rq.choice([(1, 1), (0, 2), (rq.randint(0, n), rq.randint(1, n + 1)), (max(n - 1, 0), 1)])]
    qs = [{"q": "param", "i": i, "burn": 0, "thin": 1} for i in range(npar)]
    qs += gen_queries(rq, tag, n, npar, pairs, dense=False)
    i = rq.randrange(npar)
    qs += [{"q": "marginal", "i": i, "burn": 0, "thin": 1, "unimodal": True},
           {"q": "marginal", "i": rq.randrange(npar), "burn": 0, "thin": 1, "unimodal": False, "call": "positional"},
           {"q": "marginal", "i": i, "burn": 1, "thin": 1, "unimodal": rq.random() < 0.5, "call": "defaults"}]
    if len(set(probs)) == len(probs):
        qs += [{"q": "interval", "burn": 0, "thin": 1, "interval": 1 - 2.0 ** -53, "samples": None, "call": "positional"},
               {"q": "interval", "burn": 1, "thin": 1, "interval": 0.95, "samples": None, "call": "defaults"}]
    else:
        # equal log-probabilities: argsort order (and the duplicate test of the oracle) is not determined
        qs = [q for q in qs if q["q"] != "interval"]
    return qs


def coq_wcase(case):
    """-> (term of type xcase, per segment the indices of the queries that are in the term)"""
    tag, npar = case["kind"], case["npar"]
    heap = C.clist([C.clist([C.cz(v) for v in b]) for b in case["heap"]])
    origin = (f"Constructed {heap} {C.clist([C.cnat(b) for b in case['starts']])} "
              f"{C.clist([C.cz(v) for v in case['init'][1]])}")
    segs, kept = [], []
    for seg in case["segments"]:
        n = len(seg["probs"])
        evs = []
        for e in seg["events"]:
            if e[0] == "call":
                evs.append(f"(Call {coq_step(e[1])}, {C.clist([coq_shape(x) for x in e[2]])})")
            else:
                evs.append(f"(CallerWrite {e[1]} {e[2]} {C.cz(e[3])}, [])")
        qos, ks = [], []
        for qi, (q, (status, obs, extra)) in enumerate(zip(seg["queries"], seg["results"])):
            if status == "ok":
                qos.append(f"({coq_xquery(tag, n, q, extra)}, {C.clist([coq_xobs(o) for o in obs])})")
                ks.append(qi)
        segs.append(f"({C.clist(evs, ';' + chr(10) + '     ')},\n    {C.clist(qos, ';' + chr(10) + '     ')})")
        kept.append(ks)
    return f"({tag}, {C.cnat(npar)}, {origin},\n  {C.clist(segs, ';' + chr(10) + '   ')})", kept


def w_history_text(case, si):
    parts = [f"{case['name']} built from `config` (scripted randomness) with the caller's objects "
             f"{case.get('forms')}"]
    for k, sp in enumerate(case["plan"]["segments"][:si + 1]):
        if sp["steps"]:
            parts.append(f"{sp['steps']} x take_step()")
        if sp["interrupt"]:
            parts.append(f"take_step() whose first evaluation of the posterior / gradient raises {case['plan']['exc']}")
        ws = [f"{op['buf']}: {op['op']}" for op in sp["writes"] if op["buf"] in case["buffers"]]
        if ws:
            parts.append("the caller modifies IN PLACE its own " + ", ".join(ws))
    return "; ".join(parts) + "; then this query"


def w_describe(case, si, q, status, obs, extra):
    seg = case["segments"][si]
    return {"sampler": case["name"], "n_parameters": case["npar"],
            "world_scenario": {"config": SC.describe(case["cfg"]), "plan": case["plan"], "segment": si},
            "history": w_history_text(case, si),
            "chain_rows": [[unkey(v) for v in rw] for rw in seg["rows"]],
            "chain_probs": [unkey(v) for v in seg["probs"]],
            "query": q, "perm": extra.get("perm"), "impl_status": status,
            "impl_output": obs if status != "ok" else [[list(o[0]), [unkey(v) for v in o[1]]] for o in obs]}


def world_start(rep, tier, patch):
    """Histories in which the caller goes on modifying the objects it handed to the constructor: runs the
    implementation, writes the Coq files and starts coqc on them in the background."""
    r = C.rng_for(PROP, "caller-writes")
    rq = C.rng_for(PROP, "caller-writes-queries")
    cases, skipped = [], []
    plans = w_plan(r, tier, skipped)
    for name in skipped:
        rep.count(f"caller_writes:configuration_not_drivable_even_untouched={name}")
    for cfg, plan in plans:
        tag = H_TAG[cfg["kind"]]
        case = w_scenario(cfg, plan, patch, lambda si, n, probs: w_queries(rq, tag, n, cfg["n"], probs))
        cases.append(case)
        rep.count(f"caller_writes:sampler={case['name']}")
        for nm, f in (case.get("forms") or {}).items():
            rep.count(f"caller_writes:object={nm}:{f}")
        for seg in case["segments"]:
            rep.count("caller_writes:in_place_writes", sum(1 for e in seg["events"] if e[0] == "write"))
            rep.count("caller_writes:calls", sum(1 for e in seg["events"] if e[0] == "call"))
            for q in seg["queries"]:
                rep.count("caller_writes:query=" + q["q"] + ("+count" if q.get("samples") is not None else "")
                          + ("/burn=0" if q.get("burn") == 0 else ""))
                rep.case((case["name"], repr(plan), cfg["rng_seed"], len(seg["probs"]), sorted(q.items(), key=str)),
                         nontrivial=True)
    for case in cases:
        if case["anomaly"]:
            rep.violation(f"C14/{case['name']}/caller-write/exception", f"{case['name']}: {case['anomaly']}",
                          {"theorem_or_correspondence": "Model.ReadoutsWorld (histories of calls and caller writes)",
                           "case": {"config": SC.describe(case["cfg"]), "plan": case["plan"]}}, False)
    cases = [c for c in cases if not c["anomaly"]]

    suspicious = set()
    terms = [coq_wcase(c) for c in cases]
    for ci, case in enumerate(cases):
        for si, seg in enumerate(case["segments"]):
            for qi, rr in enumerate(seg["results"]):
                if rr[0] != "ok":
                    suspicious.add((ci, si, qi))
    files, spans = [], []
    per = 6
    for st0 in range(0, len(terms), per):
        chunk = terms[st0:st0 + per]
        body = "\n".join(f"Definition c{j} : xcase :=\n {txt}." for j, (txt, _) in enumerate(chunk))
        files.append(C.write_case_file(PROP, f"world_{len(files)}", X_HEADER, body,
                                       [f"xcase_failures c{j}" for j in range(len(chunk))]))
        spans.append((st0, len(chunk)))
    ex = ThreadPoolExecutor(max_workers=1)
    return {"cases": cases, "terms": terms, "files": files, "spans": spans, "suspicious": suspicious,
            "future": ex.submit(run_big_case_files, files, 4), "executor": ex}


def world_finish(rep, st):
    """Collects the Coq verdicts.  Returns the number of read-outs validated in Coq."""
    cases, terms, files, spans, suspicious = st["cases"], st["terms"], st["files"], st["spans"], st["suspicious"]
    outs = st["future"].result()
    st["executor"].shutdown()
    n_checked = 0
    for p, (st0, cnt), (ok, res, log) in zip(files, spans, outs):
        if not ok or any(j not in res for j in range(cnt)):
            rep.obligation(False)
            rep.violation("C14/correspondence-run", f"case file {p.name} did not evaluate",
                          {"theorem_or_correspondence": f"correspondence file {p.name}", "log": log}, False)
            continue
        rep.obligation(True)
        for j in range(cnt):
            ci = st0 + j
            n_checked += sum(len(ks) for ks in terms[ci][1])
            for code in res[j]:
                si, k = divmod(code, 1000)
                suspicious.add((ci, si, None if k == 999 else terms[ci][1][si][k]))
    rep.coverage["caller_write_histories"] = len(cases)
    rep.coverage["caller_write_disagreements"] = len(suspicious)

    best = set()

    def report(ci, si, qi, from_coq):
        case = cases[ci]
        seg = case["segments"][si]
        q = seg["queries"][qi]
        status, obs, extra = seg["results"][qi]
        bad = oracle(case["kind"], case["npar"], seg["rows"], seg["probs"], q, status, obs, extra)
        key = f"C14/{case['name']}/caller-write/{q['q']}" + ("-count" if q.get("samples") is not None else "")
        if bad:
            key += "/" + content_kind(bad)
        elif not from_coq:
            return
        if key in best:
            return
        best.add(key)
        if bad:
            did = (f"the caller modified in place its own {', '.join(seg['written'])} (the objects it had passed to "
                   f"the constructor)") if seg["written"] else "construction from the caller's objects"
            rep.violation(key, f"{case['name']} after {did}, {q['q']} burn={q.get('burn')} thin={q.get('thin')}: "
                               + "; ".join(bad[:2]),
                          {"case": w_describe(case, si, q, status, obs, extra)}, True)
        else:
            rep.violation(key + "/correspondence",
                          "implementation and model disagree on a read-out after the caller modified its own objects, "
                          "but the property was not seen to fail on this input",
                          {"theorem_or_correspondence": "Model.ReadoutsWorld.check_xcase (construct + run_events + xanswer)",
                           "case": w_describe(case, si, q, status, obs, extra)}, False)

    shape_only = {}
    for ci, si, qi in sorted(suspicious, key=lambda t: (len(terms[t[0]][0]), t[1], -1 if t[2] is None else t[2])):
        if qi is None:
            shape_only.setdefault(cases[ci]["name"], (cases[ci], si))
        else:
            report(ci, si, qi, True)
    for name, (case, si) in shape_only.items():
        rep.violation(f"C14/{name}/caller-write/store-shapes/correspondence",
                      f"{name}: the stored history seen from inside the posterior during a call is not the history "
                      f"before the call",
                      {"theorem_or_correspondence": "Model.ReadoutsWorld.check_events (trace)",
                       "case": {"sampler": name, "config": SC.describe(case["cfg"]), "plan": case["plan"],
                                "segment": si}}, False)
    # [R] second opinion: the property by direct indexing on a slice of the agreeing queries
    for ci, case in enumerate(cases):
        for si, seg in enumerate(case["segments"]):
            for qi in range((ci + si) % 3, len(seg["queries"]), 3):
                if (ci, si, qi) not in suspicious:
                    report(ci, si, qi, False)
    if cases and cases[0]["segments"]:
        seg = cases[0]["segments"][0]
        rep.sample({"sampler": cases[0]["name"], "caller_objects": cases[0].get("forms"),
                    "history": w_history_text(cases[0], 0), "query": seg["queries"][0],
                    "impl_output": seg["results"][0][1]}, limit=6)
    return n_checked


def replay_world(c):
    s = c["world_scenario"]
    cfg = SC.undescribe(s["config"])
    q = c["query"]
    perm = c.get("perm") or []

    class OnePerm(Patched):
        def permutation(self, x):
            self.perm_log.append(list(perm))
            return np.array(perm if len(perm) == int(x) else list(range(int(x))))
    with OnePerm(None) as patch:
        case = w_scenario(cfg, s["plan"], patch, lambda si, n, probs: [q] if si == s["segment"] else [])
    if case["anomaly"]:
        print("could not drive the sampler through the scenario:", case["anomaly"])
        return 1
    seg = case["segments"][s["segment"]]
    status, obs, extra = seg["results"][0]
    print("history:", w_history_text(case, s["segment"]))
    print("implementation returns:", status, obs if status != "ok" else [(o[0], [unkey(v) for v in o[1]]) for o in obs])
    bad = oracle(case["kind"], case["npar"], seg["rows"], seg["probs"], q, status, obs, extra)
    print("property failures:", bad)
    return 1 if bad else 0


def replay_long(c):
    g = c["rows_generated"]
    q = c["query"]
    perm = c.get("perm") or []
    real = g.get("real_run")
    if real:
        ch0, frows, fprobs = real_long_run(real["kind"], real["seed"], real["npar"], real["target"])
        rk = rank_map(frows, fprobs)
        rows, probs = [[rk[v] for v in rw] for rw in frows], [rk[v] for v in fprobs]
        tag = H_TAG[real["kind"]]

        def conv(a):
            a = np.asarray(a)
            return (tuple(int(s) for s in a.shape), [rk.get(v, -1) for v in a.reshape(-1).tolist()])
    else:
        rows, probs = long_history(g["gen_seed"], g["n_generated"], g["npar"], g["n"])
        tag, conv, ch0 = c["sampler"], None, None

    class OnePerm(Patched):
        def permutation(self, x):
            self.perm_log.append(list(perm))
            return np.array(perm if len(perm) == int(x) else list(range(int(x))))
    with OnePerm(None) as patch:
        ch = ch0 if real else build(c["sampler"], c["n_parameters"], rows, probs)
        status, obs, extra = run_query(ch, q, patch, conv=conv)
    print("implementation returns:", status, obs if status != "ok" else [(o[0], o[1][:8], "...") for o in obs])
    bad = oracle(tag, c["n_parameters"], rows, probs, q, status, obs, extra)
    print("property failures:", bad)
    return 1 if bad else 0


# ---------------------------------------------------------------- the run
def run(rep: C.Report, tier: str) -> int:
    r = C.rng_for(PROP, "cases")
    C.clean_gen(PROP)
    C.prove_and_audit(rep, PROP, THEOREMS)

    cases = gen_cases(r, tier)
    all_results = []
    n_queries = 0
    extra_cases, extra_results = [], []
    with Patched(C.rng_for(PROP, "perm")) as patch:
        # long chains / rarely used options: coqc works on them in the background from here on
        long_state = long_start(rep, tier, patch)
        for case in cases:
            ch = build(case["kind"], case["npar"], case["rows"], case["probs"])
            res = [run_query(ch, q, patch) for q in case["queries"]]
            all_results.append(res)
            n = len(case["rows"])
            rep.count(f"sampler={case['kind']}")
            rep.count("n=0" if n == 0 else "n=1" if n == 1 else "n<=10" if n <= 10 else "n<=100" if n <= 100 else "n>100")
            for q, (status, obs, extra) in zip(case["queries"], res):
                n_queries += 1
                rep.count("query=" + q["q"] + ("+count" if q.get("samples") is not None else ""))
                if "burn" in q:
                    left = len(range(q["burn"], n, q["thin"]))
                    rep.count("retained=" + ("0" if left == 0 else "1" if left == 1 else ">=2"))
                if q["q"] == "interval" and q["samples"] is not None:
                    rep.count("interval_subselected=" + ("yes" if extra.get("perm_calls") else "no"))
                rep.case((case["kind"], case["rows"], case["probs"], sorted(q.items(), key=str)),
                         nontrivial=n >= 2)
            if len(rep.samples) < 3 and n >= 4:
                q0, (s0, o0, e0) = case["queries"][-2], res[-2]
                rep.sample({"sampler": case["kind"], "rows": case["rows"][:6], "probs": case["probs"][:6],
                            "query": q0, "impl_output": o0})
            # history dimension: the SAME object, already read out, then changed through the public
            # replace_last hook (what a tempering exchange does) and read out again -- a read-out must
            # reflect the chain as it is now, not as it was when first read
            if case["kind"] != "Ens" and n >= 1 and len(case["queries"]) >= 2:
                new_last = [int(v) + 1000 + 7 * j for j, v in enumerate(case["rows"][-1])]
                new_prob = max(case["probs"]) + 500
                try:
                    ch.replace_last(np.array(new_last, dtype=float))
                    ch.probs[-1] = float(new_prob)
                    case2 = dict(case, rows=case["rows"][:-1] + [new_last], probs=case["probs"][:-1] + [new_prob],
                                 history="history injected; every read-out queried once; replace_last(new point) and "
                                         "probs[-1] = new value (as a tempering exchange does); then this query",
                                 rows_before=case["rows"], probs_before=case["probs"],
                                 queries=case["queries"][:: max(1, len(case["queries"]) // 12)])
                    res2 = [run_query(ch, q, patch) for q in case2["queries"]]
                    extra_cases.append(case2)
                    extra_results.append(res2)
                    rep.count("reread_after_replace_last", len(res2))
                    n_queries += len(res2)
                except Exception as e:
                    rep.violation("C14/exception", f"{case['kind']}: replace_last / re-read failed: {e!r}",
                                  {"case": {"sampler": case["kind"], "rows": case["rows"], "probs": case["probs"]}}, True)

        # history dimension: histories in which the caller goes on modifying, in place, the objects it gave
        # to the constructor (coqc in the background) ...
        world_state = world_start(rep, tier, patch)
        # ... and calls interrupted from inside the posterior, then read out / advanced further
        n_hist_checked = run_histories(rep, tier, patch)
        n_world_checked = world_finish(rep, world_state)
        n_long_checked = long_finish(rep, long_state, patch)

    cases = cases + extra_cases
    all_results = all_results + extra_results

    # Python-side exact fact about the float cut-off that the model takes as an input
    for case in cases:
        n = len(case["rows"])
        for q in case["queries"]:
            if q["q"] != "interval":
                continue
            size, _ = interval_size(n, q["burn"], q["thin"], q["samples"])
            c = code_cutoff(size, q["interval"])
            exact = math.floor(size * (1 - Fraction(q["interval"])))
            rep.count("cutoff_exact=" + ("yes" if c == exact else "off-by-one"))
            if abs(c - exact) > 1:
                rep.violation("C14/cutoff", f"int(n*(1-interval)) = {c} but floor(n(1-f)) = {exact}",
                              {"case": {"size": size, "interval": q["interval"]}}, True)

    # correspondence inside Coq
    suspicious = []       # (case index, query index)
    files, index = [], []
    exc_cases = set()
    chunks, cur, cur_sz = [], [], 0
    for ci, (case, res) in enumerate(zip(cases, all_results)):
        ok_q, ok_r = [], []
        for qi, (q, rr) in enumerate(zip(case["queries"], res)):
            if rr[0] != "ok":
                suspicious.append((ci, qi))
            else:
                ok_q.append((qi, q))
                ok_r.append(rr)
        sub = dict(case, queries=[q for _, q in ok_q])
        txt = coq_case(sub, ok_r)
        cur.append((ci, [qi for qi, _ in ok_q], txt))
        cur_sz += len(txt)
        if cur_sz > 400_000:
            chunks.append(cur)
            cur, cur_sz = [], 0
    if cur:
        chunks.append(cur)
    for k, chunk in enumerate(chunks):
        body = "Definition cases : list case :=\n " + C.clist([t for _, _, t in chunk], ";\n ") + "."
        evals = ["failing check_case cases 0"]
        p = C.write_case_file(PROP, f"cases_{k}", HEADER, body, evals)
        files.append(p)
        index.append(chunk)
    outs = C.run_case_files(files, jobs=14)
    n_checked = 0
    detail_files = []
    for p, chunk, (ok, res, log) in zip(files, index, outs):
        if not ok or 0 not in res:
            rep.obligation(False)
            rep.violation("C14/correspondence-run", f"case file {p.name} did not evaluate",
                          {"theorem_or_correspondence": f"correspondence file {p.name}", "log": log}, False)
            continue
        rep.obligation(True)
        n_checked += sum(len(qis) for _, qis, _ in chunk)
        for j in res[0]:
            detail_files.append(chunk[j])
    # which queries of a failing case disagree: second, small Coq run
    if detail_files:
        dfiles = []
        for k, (ci, qis, txt) in enumerate(detail_files[:12]):
            body = f"Definition the_case : case :=\n {txt}."
            dfiles.append(C.write_case_file(PROP, f"detail_{k}", HEADER, body, ["failing_queries the_case"]))
        for (ci, qis, txt), (ok, res, log) in zip(detail_files[:12], C.run_case_files(dfiles, jobs=12)):
            if ok and 0 in res:
                for j in res[0]:
                    suspicious.append((ci, qis[j]))
            else:
                suspicious.append((ci, qis[0]))
    rep.coverage["traces_validated_against_impl"] = n_checked + n_hist_checked + n_world_checked + n_long_checked
    rep.coverage["readouts_validated_after_caller_writes"] = n_world_checked
    rep.coverage["readouts_validated_on_long_chains"] = n_long_checked
    rep.coverage["readouts_validated_after_interrupted_calls"] = n_hist_checked
    rep.coverage["correspondence_disagreements"] = len(suspicious)
    rep.coverage["histories"] = len(cases)

    # failing-input search on every disagreement: the property by direct indexing
    seen_keys = {}
    for ci, qi in sorted(set(suspicious)):
        case = cases[ci]
        q = case["queries"][qi]
        status, obs, extra = all_results[ci][qi]
        bad = oracle(case["kind"], case["npar"], case["rows"], case["probs"], q, status, obs, extra)
        key = key_of(case, q)
        if bad:
            key += "/" + ("ndim" if "dimensions" in bad[0] else "exception" if "raised" in bad[0] else
                          "shape" if "shape" in bad[0] else "content")
        size = len(case["rows"]) * case["npar"]
        if key in seen_keys and seen_keys[key] <= size:
            continue        # keep the smallest witness per call site
        seen_keys[key] = size
        if bad:
            rep.violation(key, f"{case['kind']} {q['q']}: " + "; ".join(bad[:2]),
                          {"case": describe(case, q, status, obs, extra)}, True)
        else:
            rep.violation(key + "/correspondence",
                          "implementation and model disagree, but the property was not seen to fail on this input",
                          {"theorem_or_correspondence": "Model.Readouts.check_case (correspondence with the read-outs)",
                           "case": describe(case, q, status, obs, extra)}, False)
    # smallest witness first, but one witness of every kind of read-out before the second of any
    rep.violations.sort(key=lambda v: len(json.dumps(C.jsonable(v["replay"]))))
    order = ["interval-count/ndim", "param/shape", "sample/shape", "interval/exception", "marginal/shape"]
    kind_of = lambda v: "/".join(v["key"].split("/")[2:]) if v["key"].count("/") >= 2 else v["key"]
    firsts, rest, seen_kinds = [], [], set()
    for v in rep.violations:
        k = kind_of(v)
        (rest if k in seen_kinds else firsts).append(v)
        seen_kinds.add(k)
    firsts.sort(key=lambda v: order.index(kind_of(v)) if kind_of(v) in order else len(order))
    rep.violations = firsts + rest

    # [R] second opinion: the oracle on a slice of agreeing queries, and the real
    # GaussianKDE really keeps the values it is given
    stride = 5 if tier == "quick" else 2
    sus = set(suspicious)
    for ci, (case, res) in enumerate(zip(cases, all_results)):
        for qi in range(ci % stride, len(case["queries"]), stride):
            if (ci, qi) in sus:
                continue
            q = case["queries"][qi]
            status, obs, extra = res[qi]
            bad = oracle(case["kind"], case["npar"], case["rows"], case["probs"], q, status, obs, extra)
            if bad:
                rep.violation(key_of(case, q), f"{case['kind']} {q['q']}: " + "; ".join(bad[:2]),
                              {"case": describe(case, q, status, obs, extra)}, True)
    kde_checked = 0
    for case in cases:
        n = len(case["rows"])
        if n >= 12 and kde_checked < 8:
            ch = build(case["kind"], case["npar"], case["rows"], case["probs"])
            b, t = 2, 3
            try:
                with warnings.catch_warnings():
                    warnings.simplefilter("ignore")
                    kde = ch.get_marginal(0, burn=b, thin=t)
                want = sorted(float(case["rows"][j][0]) for j in range(b, n, t))
                if sorted(np.asarray(kde.sample, dtype=float).tolist()) != want:
                    rep.violation("C14/marginal-real-kde", "GaussianKDE built by get_marginal does not hold the burned/thinned values",
                                  {"case": {"sampler": case["kind"], "rows": case["rows"], "burn": b, "thin": t}}, True)
                kde_checked += 1
            except Exception:
                pass
    rep.coverage["real_kde_marginals_checked"] = kde_checked

    rep.assumptions = [
        "cutoff = int(n*(1-interval)) is an input of the model; |cutoff - floor(n(1-f))| <= 1 is checked exactly per query",
        "numpy slicing / fancy indexing / argsort semantics are modelled; log-probabilities are distinct so argsort is determined",
        "histories are injected into real sampler objects (attributes samples / probs / theta / sample / sample_probs)",
        "get_marginal: the density estimators are replaced by a recorder of their argument (plus a few real GaussianKDE builds [R])",
        "EnsembleSampler read-outs before the first advance (sample is None) are outside the model",
        "interrupted calls: the exception is raised from inside the posterior / gradient callable (the only user code "
        "a step runs); doubles of the real chain are mapped to integers by an order-preserving injection; the rows "
        "a completed call adds are read from the sampler's current state (get_last / theta[-1] / walker positions) "
        "right after the call; get_interval is not queried on chains holding equal log-probabilities",
        "caller-write histories: the caller's objects are float64 / float32 arrays and lists (integer-typed arguments "
        "are always converted by the pinned constructors); start / starting_positions are modified between the calls, "
        "widths / bounds / inverse_mass only after the last call (the pinned Bounds object keeps references to the "
        "caller's arrays: that changes how the sampler samples, not what the read-outs return); a configuration whose "
        "sampler cannot take a step even untouched is replaced; memory shared in the other direction (views returned "
        "by the read-outs, the array handed to the posterior) is outside the model",
        "long chains: values are distinct integers below 2^20 from a seeded generator; arrays longer than 1500 are "
        "handed to Coq packed (three 20-bit values per Uint63 literal, decoded by Model.ReadoutsWorld.unpack inside "
        "Coq); GibbsChain and PcaChain share their getters (one of the two per quick run); column-major get_sample / "
        "get_interval are queried with a few hundred retained rows only (the model transposes with nth)",
        "real long runs: numpy Generator seeded by the harness; the doubles of the chain are mapped to their ranks "
        "(order-preserving injection on the values present); the expected chain is read from the sampler's state "
        "after every call",
    ]
    return rep.finish(
        level="proof",
        checker_cmd="make -C /verif/coq (coqc 8.16.1, full .vo) + coqc on coq/gen/C14/*.v (vm_compute)",
        trusted_base=C.KERNEL_TB + ["axioms: none (all C14 theorems are closed under the global context)",
                                    "Coq's primitive 63-bit integers (Uint63) in the correspondence files of the long "
                                    "chains only (packed arrays); no theorem depends on them"],
        rule="histories with distinct integer samples / log-probabilities injected into GibbsChain, PcaChain, "
             "HamiltonianChain, EnsembleSampler (1-4 parameters); lengths 0..7(10) with every burn 0..n+2 and thin "
             "1..n+2, lengths up to 120 (800) with sampled burn/thin incl. values beyond the end; per (burn, thin): "
             "get_parameter, get_probabilities, get_sample, get_marginal input, get_interval without and with a "
             "requested count (1, n, n+3, random) over 9 fixed and random fractions, scripted permutation; a case "
             "is non-trivial when the history has >= 2 steps; distinct = distinct (history, query); plus real "
             "GibbsChain / MetropolisChain / PcaChain / HamiltonianChain / EnsembleSampler runs (3 (10) random "
             "configurations each, scripted randomness): 0-3 steps, then take_step() interrupted at EVERY evaluation "
             "of the posterior / gradient of that step (<= 10 (40) points) and advance(2-3) interrupted in a later "
             "step, by KeyboardInterrupt or FloatingPointError; all read-outs straight after the interruption and "
             "again after 1-3 further steps; store shapes seen from inside every evaluation; plus 4 (12) real samplers "
             "of every kind built from start / widths / bounds / starting_positions / inverse_mass objects (float64 or "
             "float32 arrays, lists) which the harness, as the caller, goes on modifying IN PLACE between construction, "
             "steps, an interrupted step and the read-outs (burn = 0 included; keyword, positional and default "
             "arguments; both estimator types of get_marginal); plus injected histories of 20000-24000 steps for one "
             "of Gibbs / Pca, Hmc and Ens, one of them 30000-52000 (thorough: 10 histories up to 130000 steps): "
             "get_marginal(unimodal=True) with burn 0, with just over 20000 retained values, with default arguments, "
             "with thin 2-3 and with a few hundred retained values, 1 (3) more full-size read-outs, every read-out "
             "with a few hundred retained values, get_interval with counts 20-400; plus one (five) real sampler "
             "(seeded generator, adaptation on; an EnsembleSampler with 200-260 walkers in half of the quick runs) "
             "advanced by take_step() / advance(1) to >= 20000 entries, expected chain recorded from its state after "
             "every call, same queries")


# ---------------------------------------------------------------- replay
def replay(path):
    d = json.load(open(path))
    rp = d["replay"]
    if "case" not in rp or "query" not in rp.get("case", {}):
        print("replay names a broken theorem / correspondence:", rp.get("theorem_or_correspondence"))
        return 1
    c = rp["case"]
    if "scenario" in c:
        return replay_scenario(c)
    if "world_scenario" in c:
        return replay_world(c)
    if "rows_generated" in c:
        return replay_long(c)
    q = c["query"]
    perm = c.get("perm") or []

    class OnePerm(Patched):
        def permutation(self, x):
            self.perm_log.append(list(perm))
            return np.array(perm if len(perm) == int(x) else list(range(int(x))))
    with OnePerm(None) as patch:
        if c.get("rows_before_replace_last"):
            ch = build(c["sampler"], c["n_parameters"], c["rows_before_replace_last"], c["probs_before_replace_last"])
            for q0 in ({"q": "sample", "burn": 0, "thin": 1}, {"q": "probs", "burn": 0, "thin": 1},
                       {"q": "interval", "burn": 0, "thin": 1, "interval": 0.5, "samples": None}):
                try:
                    run_query(ch, q0, patch)
                except Exception:
                    pass
            ch.replace_last(np.array(c["rows"][-1], dtype=float))
            ch.probs[-1] = float(c["probs"][-1])
        else:
            ch = build(c["sampler"], c["n_parameters"], c["rows"], c["probs"])
        status, obs, extra = run_query(ch, q, patch)
    print("implementation returns:", status, obs)
    bad = oracle(c["sampler"], c["n_parameters"], c["rows"], c["probs"], q, status, obs, extra)
    print("property failures:", bad)
    return 1 if bad else 0
