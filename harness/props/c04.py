"""C04 -- parameter limits are never violated.

Theorems: coq/theories/Properties/C04.v about Model/Reflect.v (Bounds.reflect,
Bounds.reflect_momenta, the fold of Parameter.boundary_proposal, abs_proposal, a
force-free bounded_leapfrog) and Model/ProposalFSM.v (the proposal selector of
gibbs.Parameter as a state machine), for all rationals / all call sequences.

Tie to the code (every run):
  [X] exact correspondence, compared inside Coq with vm_compute, no tolerance:
      * Bounds.reflect / reflect_momenta on dyadic arrays (magnitudes to 2^40,
        widths to 2^-20, overshoots of up to 2^20 widths, both signs, points on walls);
      * Parameter.boundary_proposal / abs_proposal with a scripted normal draw;
      * HamiltonianChain.bounded_leapfrog with a vanishing force (momentum flips);
      * every call order of length <= 5 of set_boundaries / remove_boundaries /
        non_negative setter / save+load on real Parameter objects (depth-first
        enumeration, the model enumerates the same tree), incl. one proposal per
        reached state; the same through the GibbsChain API with real .npz files;
      * OBJECT LIFETIMES (Properties/C04Life.v, Model/BoundsLife.v): scripted PcaChain /
        HamiltonianChain / EnsembleSampler objects built with bounds are driven through
        histories of take_step / advance and save -> load round trips (real .npz
        images, before any step, mid-run, twice in a row); every step of the object --
        also of the RELOADED one -- is replayed through Model/Samplers.v with the box
        the MODEL's hook carries after that history from the constructor's argument
        (life_code), never with anything read back from the object, and the bounds
        the object reports are compared with the model's attribute (attr_code).
  [R] run-time checks on the implementation (tests, not proofs): recording
      posteriors on GibbsChain, PcaChain(bounds), HamiltonianChain(bounds) and
      EnsembleSampler(bounds) runs with step sizes far larger than the box --
      every evaluation point and every stored sample inside the closed limits up
      to 4 ulp at the scale of the limits; Bounds.reflect on arbitrary doubles;
      the same runs interrupted by save -> load round trips (all five sampler kinds).

Property oracle used when a correspondence breaks: membership of the point in the
limits in force (from the call history), identity inside, and the fold / momentum
sign evaluated in exact rationals.
"""
from __future__ import annotations

import io
import json
import math
import warnings
from fractions import Fraction

import numpy as np

from lib import common as C
from lib import samplers as S
from lib import sampler_cases as SC
from lib.scripted import ScriptedRNG, RecordingPosterior, quadratic_logp

PROP = "C04"
THEOREMS = [
    "C04_reflect_range", "C04_reflect_id", "C04_reflect_fold_lower", "C04_reflect_fold_upper",
    "C04_reflect_period", "C04_momenta_position", "C04_momentum_parity", "C04_crossings_cell",
    "C04_crossings_unique", "C04_momentum_slope", "C04_reflect_unfold", "C04_free_leapfrog_unfold",
    "C04_reflect_vec_inside", "C04_gibbs_fold_reflect", "C04_gibbs_fold_range", "C04_abs_nonneg",
    "C04_abs_id", "C04_fsm_limits_in_force", "C04_fsm_unlimited", "C04_fsm_identity_inside",
    "C04_fsm_other_limit_untouched", "C04_fsm_set_boundaries_effect",
    "C04_fsm_set_non_negative_effect", "C04_fsm_load_fixpoint",
    "C04_fsm_limits_in_force_pinned_refuted", "C04_fsm_non_negative_pinned_refuted",
    "C04_fsm_pinned_witnesses",
]

# object lifetimes (Properties/C04Life.v)
LIFE_THEOREMS = [
    "C04_life_pca_inside", "C04_life_hmc_inside", "C04_life_ens_inside", "C04_life_limits_fixpoint",
    "C04_life_code_is_construction_box", "C04_life_unhooked_attr_kept", "C04_life_unhooked_hook_lost",
    "C04_life_unhooked_load_refuted",
]
HEADER_LIFE = S.HEADER.replace("Model.Samplers.", "Model.Samplers Model.BoundsLife.")

HEADER = """From Coq Require Import List ZArith QArith Bool.
From IT Require Import Model.Reflect Model.ProposalFSM.
Import ListNotations.
Open Scope Q_scope.
"""

K_SELECTOR = "C04/selector/limits-in-force"
K_FD = "C04/hmc/finite-diff-outside-bounds"


# ------------------------------------------------------------------ the implementation
_IMPL = {}


def impl():
    if _IMPL:
        return _IMPL
    from inference.mcmc.utilities import Bounds
    from inference.mcmc.gibbs import Parameter, GibbsChain
    from inference.mcmc.pca import PcaChain
    from inference.mcmc.hmc import HamiltonianChain
    from inference.mcmc.ensemble import EnsembleSampler
    _IMPL.update({"Bounds": Bounds, "Parameter": Parameter, "GibbsChain": GibbsChain,
                  "PcaChain": PcaChain, "HamiltonianChain": HamiltonianChain,
                  "EnsembleSampler": EnsembleSampler})
    return _IMPL


def fr(x):
    return C.frac(x)


def grid(i, g):
    """the double  i * 2^g  (exact for |i| < 2^53)."""
    return math.ldexp(float(i), g)


# ------------------------------------------------------------------ the property, exact rationals
def fold_spec(lo, hi, x):
    """The symmetric fold into [lo, hi] (identity inside, mirror at each wall),
    written from its definition: distance to the nearest point of lo + 2w*Z."""
    w = hi - lo
    m = (x - lo) % (2 * w)          # Fraction %: in [0, 2w)
    return lo + (m if m <= w else 2 * w - m)


def sign_spec(lo, hi, x):
    q = math.floor((x - lo) / (hi - lo))
    return -1 if q % 2 else 1


def oracle_point(lo, hi, x, pos, mom=None):
    """C04 for one coordinate, on the implementation's answer (all Fractions)."""
    bad = []
    if not (lo <= pos <= hi):
        bad.append(f"point {float(pos)!r} outside the limits [{float(lo)!r}, {float(hi)!r}] (raw {float(x)!r})")
    if lo <= x <= hi and pos != x:
        bad.append(f"a point inside the limits was moved: {float(x)!r} -> {float(pos)!r}")
    if pos != fold_spec(lo, hi, x):
        bad.append(f"not the symmetric fold: {float(x)!r} -> {float(pos)!r}, "
                   f"fold gives {float(fold_spec(lo, hi, x))!r}")
    if mom is not None and mom != sign_spec(lo, hi, x):
        bad.append(f"momentum factor {float(mom)!r} but the coordinate crosses "
                   f"{math.floor((x - lo) / (hi - lo))} wall(s)")
    return bad


# ------------------------------------------------------------------ A. Bounds.reflect, exact
THETA_KINDS = ["inside", "lower_wall", "upper_wall", "far_wall", "over_small", "over_k",
               "over_huge", "just_outside"]


def gen_reflect_array(r):
    n = r.randint(1, 6)
    g = r.randint(-32, 10)
    lo_i, w_i, th_i, kinds = [], [], [], []
    for _ in range(n):
        wbits = r.choice([0, 0, 1, 3, 8, 14, 20])
        w = 1 if wbits == 0 else r.randint(1, 1 << wbits)
        lbits = r.choice([0, 4, 12, 24, 40, 48])
        lo = r.choice([-1, 1]) * r.randint(0, (1 << lbits))
        kind = r.choice(THETA_KINDS)
        if kind == "inside":
            th = lo + r.randint(0, w)
        elif kind == "lower_wall":
            th = lo
        elif kind == "upper_wall":
            th = lo + w
        elif kind == "far_wall":
            th = lo + r.choice([-1, 1]) * r.randint(1, 5000) * w
        elif kind == "over_small":
            th = lo + r.choice([-3, -2, -1, 1, 2, 3]) * w + r.randint(0, w)
        elif kind == "over_k":
            th = lo + r.choice([-1, 1]) * r.randint(4, 5000) * w + r.randint(0, w)
        elif kind == "over_huge":
            th = lo + r.choice([-1, 1]) * r.randint(5000, 1 << 20) * w + r.randint(0, w)
        else:
            th = r.choice([lo - 1, lo + w + 1])
        lo_i.append(lo), w_i.append(w), th_i.append(th), kinds.append(kind)
    return {"g": g, "lo": lo_i, "w": w_i, "theta": th_i, "kinds": kinds}


def run_reflect(case):
    B = impl()["Bounds"]
    g = case["g"]
    lo = np.array([grid(a, g) for a in case["lo"]])
    hi = np.array([grid(a + w, g) for a, w in zip(case["lo"], case["w"])])
    th = np.array([grid(t, g) for t in case["theta"]])
    th0 = th.copy()
    try:
        with warnings.catch_warnings():
            warnings.simplefilter("ignore")
            b = B(lower=lo.copy(), upper=hi.copy())
            pos = np.asarray(b.reflect(th), dtype=float)
            pos_m, mom = b.reflect_momenta(th)
            pos_m, mom = np.asarray(pos_m, dtype=float), np.asarray(mom, dtype=float)
            ins = bool(b.inside(pos))
    except Exception as e:
        return {"status": "exception", "error": repr(e)}
    n = len(lo)
    if pos.shape != (n,) or pos_m.shape != (n,) or mom.shape != (n,):
        return {"status": "shape", "error": f"shapes {pos.shape} {pos_m.shape} {mom.shape}"}
    if not (np.isfinite(pos).all() and np.isfinite(pos_m).all() and np.isfinite(mom).all()):
        return {"status": "nonfinite", "error": "non-finite output"}
    return {"status": "ok", "lo": lo, "hi": hi, "theta": th0, "pos": pos, "pos_m": pos_m, "mom": mom,
            "mutated": not np.array_equal(th, th0), "inside_says": ins}


def describe_reflect(case, j=None):
    g = case["g"]
    idx = range(len(case["lo"])) if j is None else [j]
    return {"kind": "reflect",
            "lower": [grid(case["lo"][i], g).hex() for i in idx],
            "upper": [grid(case["lo"][i] + case["w"][i], g).hex() for i in idx],
            "theta": [grid(case["theta"][i], g).hex() for i in idx]}


def oracle_reflect_arrays(lo, hi, th):
    """run Bounds on float arrays, return property failures."""
    B = impl()["Bounds"]
    b = B(lower=np.array(lo), upper=np.array(hi))
    pos = b.reflect(np.array(th))
    pos_m, mom = b.reflect_momenta(np.array(th))
    bad = []
    for i in range(len(lo)):
        bad += oracle_point(fr(lo[i]), fr(hi[i]), fr(th[i]), fr(pos[i]))
        bad += oracle_point(fr(lo[i]), fr(hi[i]), fr(th[i]), fr(pos_m[i]), fr(mom[i]))
    return bad, [float(v) for v in pos], [float(v) for v in pos_m], [float(v) for v in mom]


# ------------------------------------------------------------------ B. Parameter proposals, exact
def gen_prop_case(r):
    g = r.randint(-24, 8)
    wbits = r.choice([0, 2, 6, 12, 18])
    w = r.randint(1, 1 << wbits)
    lo = r.choice([-1, 1]) * r.randint(0, 1 << r.choice([0, 6, 16, 30, 40]))
    s = lo + r.randint(0, w)                      # last sample, inside
    e = r.choice([6, 6, 8, 12, 20, 26])           # sigma = 2^(g+e): sigma*z stays on the grid
    z = Fraction(r.randint(-192, 192), 64)
    return {"g": g, "lo": lo, "w": w, "s": s, "e": e, "z": z}


def run_prop(case, which):
    P = impl()["Parameter"]
    g = case["g"]
    lo, hi = grid(case["lo"], g), grid(case["lo"] + case["w"], g)
    s, sigma = grid(case["s"], g), math.ldexp(1.0, g + case["e"])
    try:
        with warnings.catch_warnings():
            warnings.simplefilter("ignore")
            p = P(value=s, sigma=sigma)
            p.rng = ScriptedRNG(0, tape=[case["z"]])
            if which == "bnd":
                p.set_boundaries(lo, hi)
                y = float(p.boundary_proposal())
            else:
                y = float(p.abs_proposal())
    except Exception as e:
        return {"status": "exception", "error": repr(e)}
    if not math.isfinite(y):
        return {"status": "nonfinite", "error": repr(y)}
    return {"status": "ok", "lo": lo, "hi": hi, "s": s, "sigma": sigma, "y": y,
            "x": fr(s) + fr(sigma) * case["z"]}


# ------------------------------------------------------------------ C. bounded_leapfrog, exact
def gen_leap_case(r):
    n = r.randint(1, 3)
    g = r.randint(-20, 6)
    e = r.choice([0, 0, 3, 10, 18, 25])          # eps * inv_mass = 2^(g+e) per unit of momentum
    im_pow = [r.choice([0, 0, 2, -2, 4]) for _ in range(n)] if r.random() < 0.5 else None
    steps = r.randint(1, 12)
    lo, w, t0, r0 = [], [], [], []
    for _ in range(n):
        wi = r.randint(1, 1 << r.choice([0, 3, 8, 14]))
        li = r.choice([-1, 1]) * r.randint(0, 1 << r.choice([0, 8, 24, 40]))
        lo.append(li), w.append(wi), t0.append(li + r.randint(0, wi))
        r0.append(r.randint(-200, 200))
    return {"g": g, "e": e, "im_pow": im_pow, "steps": steps, "lo": lo, "w": w, "t0": t0, "r0": r0}


def run_leap(case):
    H = impl()["HamiltonianChain"]
    g, n = case["g"], len(case["lo"])
    lo = np.array([grid(a, g) for a in case["lo"]])
    hi = np.array([grid(a + w, g) for a, w in zip(case["lo"], case["w"])])
    t0 = np.array([grid(a, g) for a in case["t0"]])
    # eps * im_i * r must lie on the grid: eps = 2^(g+e) / max(im) scaled so products are exact
    if case["im_pow"] is None:
        im = None
        imv = [1.0] * n
        eps = math.ldexp(1.0, g + case["e"])
    else:
        mn = min(case["im_pow"])
        imv = [math.ldexp(1.0, q) for q in case["im_pow"]]
        im = np.array(imv)
        eps = math.ldexp(1.0, g + case["e"] - mn)
    r0 = np.array([float(k) for k in case["r0"]])
    try:
        with warnings.catch_warnings():
            warnings.simplefilter("ignore")
            ch = H(posterior=lambda t: 0.0, start=t0.copy(), grad=lambda t: np.zeros(n),
                   epsilon=eps, bounds=(lo.copy(), hi.copy()), inverse_mass=im, display_progress=False)
            t, r = ch.run_leapfrog(t0.copy(), r0.copy(), case["steps"])
            t, r = np.asarray(t, dtype=float), np.asarray(r, dtype=float)
    except Exception as e:
        return {"status": "exception", "error": repr(e)}
    if t.shape != (n,) or r.shape != (n,) or not (np.isfinite(t).all() and np.isfinite(r).all()):
        return {"status": "bad", "error": f"shape/finite {t!r} {r!r}"}
    return {"status": "ok", "lo": lo, "hi": hi, "eps": eps, "im": imv, "t0": t0, "r0": r0, "t": t, "r": r}


def oracle_leap(case, out):
    bad = []
    n = len(case["lo"])
    for i in range(n):
        lo, hi = fr(out["lo"][i]), fr(out["hi"][i])
        free = fr(out["t0"][i]) + case["steps"] * fr(out["eps"]) * fr(out["im"][i]) * fr(out["r0"][i])
        t, r = fr(out["t"][i]), fr(out["r"][i])
        if not lo <= t <= hi:
            bad.append(f"coordinate {i}: trajectory end {float(t)!r} outside [{float(lo)!r},{float(hi)!r}]")
        if t != fold_spec(lo, hi, free):
            bad.append(f"coordinate {i}: end point {float(t)!r} is not the fold "
                       f"{float(fold_spec(lo, hi, free))!r} of the free trajectory (momentum not "
                       f"reversed exactly at the walls)")
        if abs(r) != abs(fr(out["r0"][i])):
            bad.append(f"coordinate {i}: |momentum| changed without a force")
        # away from the walls the momentum factor is the slope of the fold at the free end point
        if ((free - lo) / (hi - lo)).denominator != 1 and r != fr(out["r0"][i]) * sign_spec(lo, hi, free):
            bad.append(f"coordinate {i}: momentum {float(r)!r} after {case['steps']} step(s), but the free "
                       f"trajectory crosses {math.floor((free - lo) / (hi - lo))} wall(s) from r0 = {out['r0'][i]!r}")
    return bad


# ------------------------------------------------------------------ D. the selector
def alphabet(tier):
    a = [("sb", -3, 0), ("sb", -2, 5), ("sb", 1, 4), ("sb", 3, 1), ("rm",), ("nn", True),
         ("nn", False), ("nn_bad",), ("load",)]
    if tier == "thorough":
        a.insert(1, ("sb", -3, -1))
    return a


def coq_op(op):
    if op[0] == "sb":
        return f"SetBoundaries {C.cq(op[1])} {C.cq(op[2])}"
    if op[0] == "rm":
        return "RemoveBoundaries"
    if op[0] == "nn":
        return f"SetNonNegative {C.cbool(op[1])}"
    if op[0] == "nn_bad":
        return "SetNonNegativeInvalid"
    return "Load"


KIND = {"standard_proposal": 0, "abs_proposal": 1, "boundary_proposal": 2}


def apply_param_op(p, op, wl):
    """one selector call on a real Parameter inside a recording warnings context
    `wl`; returns (parameter, warned)."""
    P = impl()["Parameter"]
    n0 = len(wl)
    if op[0] == "sb":
        p.set_boundaries(float(op[1]), float(op[2]))
    elif op[0] == "rm":
        p.remove_boundaries()
    elif op[0] == "nn":
        p.non_negative = op[1]
    elif op[0] == "nn_bad":
        p.non_negative = 1
    else:
        p = P.load(p.get_items(0), 0)
    return p, len(wl) > n0


class History:
    """Which limits the *caller* has put in force (the property's premise), from
    the calls made and whether each was refused with a warning."""

    def __init__(self):
        self.bounds = None
        self.nonneg = False

    def note(self, op, warned):
        if op[0] == "sb" and not warned:
            self.bounds = (Fraction(op[1]), Fraction(op[2]))
        elif op[0] == "rm":
            self.bounds = None
        elif op[0] == "nn" and not warned:
            self.nonneg = bool(op[1])

    def check(self, y):
        bad = []
        if self.bounds is not None and not (self.bounds[0] <= y <= self.bounds[1]):
            bad.append(f"boundaries ({float(self.bounds[0])}, {float(self.bounds[1])}) are set "
                       f"but the proposal is {float(y)!r}")
        if self.nonneg and not y >= 0:
            bad.append(f"non_negative is on but the proposal is {float(y)!r}")
        return bad


S0 = 1.5                      # last sample of the test parameter
SR = ScriptedRNG(0)


def draw_for(k):
    """deterministic (sigma, z) of node k: overshoots of hundreds to thousands of
    widths mostly, every fifth draw near the box.  The generated Coq files contain
    the same formula (XOF) -- it describes the input chosen, not an observation."""
    z = Fraction(((k * 7919 + 13) % 385) - 192, 64)
    sigma = 1.0 if k % 5 == 0 else 1024.0
    return sigma, z


XOF = """Definition xof (i : nat) : Q :=
  let k := Z.of_nat i in
  let z64 := (((k * 7919 + 13) mod 385) - 192)%Z in
  let sigma := if (k mod 5 =? 0)%Z then 1 else 1024 in
  (3 # 2) + sigma * (Qmake z64 64).
"""


def observe_param(ops, k):
    """state of a fresh Parameter after `ops` + one proposal with a known draw."""
    P = impl()["Parameter"]
    sigma, z = draw_for(k)
    p = P(value=S0, sigma=sigma)
    h = History()
    with warnings.catch_warnings(record=True) as wl:
        warnings.simplefilter("always")
        for op in ops:
            p, warned = apply_param_op(p, op, wl)
            h.note(op, warned)
        SR.preset = [z]
        SR.log.clear()
        p.rng = SR
        p.try_count = 0
        p.sigma = sigma
        y = float(p.proposal())
    x = fr(p.samples[-1]) + fr(sigma) * z
    name = getattr(p.proposal, "__name__", "?")
    obs = (bool(p.bounded), bool(p._non_negative), fr(p.lower), fr(p.upper), fr(p.width),
           KIND.get(name, -1), x, fr(y) if math.isfinite(y) else None)
    return obs, h, p


def coq_obs(o):
    b, nn, lo, hi, w, k, x, y = o
    return (f"({C.cbool(b)}, {C.cbool(nn)}, {C.cq(lo)}, {C.cq(hi)}, {C.cq(w)}, {C.cz(k)}%Z, "
            f"{C.cq(x)}, {C.cq(y)})")


def oracle_selector(ops, n_draws=24):
    """Evaluate the property on a real Parameter after `ops`: proposals with a
    huge sigma must respect every limit the caller has in force."""
    obs, h, p = observe_param(ops, 1)
    bad = []
    p.sigma = float(1 << 20)
    for j in range(n_draws):
        z = Fraction(((j * 37 + 5) % 385) - 192, 64)
        SR.preset = [z]
        p.try_count = 0
        with warnings.catch_warnings():
            warnings.simplefilter("ignore")
            y = float(p.proposal())
        if not math.isfinite(y):
            bad.append(f"proposal is {y!r}")
        else:
            bad += h.check(fr(y))
        if bad:
            return bad, {"z": str(z), "sigma": p.sigma, "proposal": y,
                         "state": {"bounded": bool(p.bounded), "non_negative": bool(p._non_negative),
                                   "lower": float(p.lower), "upper": float(p.upper),
                                   "proposal_fn": getattr(p.proposal, "__name__", "?")}}
    return [], {}


def ops_json(ops):
    return [list(o) for o in ops]


# ---- the same through GibbsChain and real .npz files
def make_chain(post):
    G = impl()["GibbsChain"]
    ch = G(posterior=post, start=[0.25, S0], widths=[1.0, 1.0], display_progress=False)
    ch.rng = ScriptedRNG(1)
    for i, p in enumerate(ch.params):
        p.rng = ScriptedRNG(2 + i)
        p.chk_int = 10 ** 9
    return ch


def apply_chain_op(ch, op, post):
    G = impl()["GibbsChain"]
    with warnings.catch_warnings(record=True) as wl:
        warnings.simplefilter("always")
        if op[0] == "sb":
            ch.set_boundaries(1, (float(op[1]), float(op[2])))
        elif op[0] == "rm":
            ch.set_boundaries(1, None, remove=True)
        elif op[0] == "nn":
            ch.set_non_negative(1, op[1])
        elif op[0] == "nn_bad":
            ch.set_non_negative(1, 1)
        else:
            buf = io.BytesIO()
            ch.save(buf)
            buf.seek(0)
            ch = G.load(buf, posterior=post)
            # D10a (C09's business): the pinned load() leaves these two out; supplying
            # them here keeps that defect from masking what C04 looks at
            if not hasattr(ch, "display_progress"):
                ch.display_progress = False
            ch.rng = ScriptedRNG(1)
            for i, p in enumerate(ch.params):
                p.rng = ScriptedRNG(2 + i)
    return ch, len(wl) > 0


def observe_chain(ops, k):
    post = RecordingPosterior(lambda th: Fraction(0))
    ch = make_chain(post)
    h = History()
    for op in ops:
        ch, warned = apply_chain_op(ch, op, post)
        h.note(op, warned)
    p = ch.params[1]
    sigma, z = draw_for(k)
    SR.preset = [z]
    p.rng, p.try_count, p.sigma = SR, 0, sigma
    with warnings.catch_warnings():
        warnings.simplefilter("ignore")
        y = float(p.proposal())
    x = fr(p.samples[-1]) + fr(sigma) * z
    obs = (bool(p.bounded), bool(p._non_negative), fr(p.lower), fr(p.upper), fr(p.width),
           KIND.get(getattr(p.proposal, "__name__", "?"), -1), x, fr(y) if math.isfinite(y) else None)
    # [R] a few real steps with a flat posterior (every proposal accepted) and a huge sigma
    bad = []
    p0 = ch.params[0]
    if p0.bounded or p0._non_negative or getattr(p0.proposal, "__name__", "") != "standard_proposal":
        bad.append("calls on parameter 1 changed the limits of parameter 0")
    p.rng = ScriptedRNG(7 + k)
    p.sigma = float(1 << 20)
    n0 = len(post.evals)
    with warnings.catch_warnings():
        warnings.simplefilter("ignore")
        for _ in range(3):
            p.try_count = 0
            ch.take_step()
    for th, _ in post.evals[n0:]:
        if th[1] != fr(S0):      # the start value predates the limits (parameter 0 is updated first)
            bad += h.check(th[1])
    for v in p.samples[1:]:
        bad += h.check(fr(v))
    return obs, bad, len(post.evals) - n0


# ------------------------------------------------------------------ E. sampler runs [R]
def ulp_tol(lo, hi):
    """4 ulp at the scale of the (finite) limits."""
    vals = [abs(v) for v in (lo, hi) if math.isfinite(v)]
    return 4 * float(np.spacing(max(vals) if vals else 0.0))


def outside(points, lo, hi):
    """indices (row, col) of entries outside [lo - tol, hi + tol]; NaN counts as outside."""
    P = np.atleast_2d(np.asarray(points, dtype=float))
    tol = np.array([ulp_tol(a, b) for a, b in zip(lo, hi)])
    ok = (P >= lo - tol) & (P <= hi + tol)
    return np.argwhere(~ok)


def gen_box(r, n, away_from_zero=False):
    lo, hi = [], []
    for _ in range(n):
        w = r.choice([2.0 ** -20, 1e-3, 0.37, 1.0, 7.3, 1e4])
        cmax = w * 2.0 ** 30
        c = r.choice([0.0, 1.0, -1.0, 1e3, -1e3, 1e6, -1e6, 2.0 ** 40, -2.0 ** 40])
        if abs(c) > cmax:
            c = math.copysign(cmax, c) * r.random()
        if away_from_zero:      # box well away from 0 and wide against a 1e-5 relative step
            c = (3 * w + 100 * w * r.random()) * r.choice([-1, 1])
        a = c - w * r.random()
        lo.append(a), hi.append(a + w)
    return np.array(lo), np.array(hi)


def weak_posterior(lo, hi):
    """log-density varying by a few units over the box (exact rational quadratic)."""
    n = len(lo)
    a = [Fraction(1) / (2 * fr(hi[i] - lo[i]) ** 2) for i in range(n)]
    m = [fr(lo[i]) + fr(hi[i] - lo[i]) * Fraction(1, 3) for i in range(n)]
    fn, gr = quadratic_logp(a, m)
    return RecordingPosterior(fn, gr)


def save_load_obj(ch, kind, post):
    """obj.save(image); Class.load(image, posterior=...) through a real .npz image in memory."""
    I = impl()
    buf = io.BytesIO()
    ch.save(buf)
    buf.seek(0)
    if kind == "pca":
        new = I["PcaChain"].load(buf, posterior=post)
    elif kind in ("hmc", "hmc_fd"):
        new = I["HamiltonianChain"].load(buf, posterior=post, grad=None if kind == "hmc_fd" else post.gradient)
    elif kind == "ensemble":
        new = I["EnsembleSampler"].load(buf, posterior=post)
    elif kind == "gibbs":
        new = I["GibbsChain"].load(buf, posterior=post)
        if not hasattr(new, "display_progress"):      # D10a is C09's business (see apply_chain_op)
            new.display_progress = False
    else:
        raise ValueError(kind)
    return new


def stepping(total, trips, one_step, round_trip):
    """`total` steps with a save -> load round trip after each step index listed in `trips`
    (0 = before the first step; a repeated index = consecutive round trips)."""
    trips = sorted(trips or [])
    for k in range(total + 1):
        for _ in range(trips.count(k)):
            round_trip()
        if k < total:
            one_step()


def gen_trips(r, total):
    """where a lifetime run is interrupted: before any step / early / mid-run / twice in a row"""
    t = [r.choice([0, 0, 1, 2, total // 3])]
    if r.random() < 0.6:
        t.append(r.randint(1, max(1, total - 2)))
    if r.random() < 0.4:
        t.append(t[-1])
    return sorted(t)


def run_sampler(kind, r, cfg=None, life=False):
    """Build and advance one real sampler; return (points evaluated, stored samples, lo, hi, cfg).
    cfg["saveload_after"] (set when life=True): the run is interrupted by save -> load round trips."""
    I = impl()
    seed = r.getrandbits(32) if cfg is None else cfg["seed"]
    rr = np.random.default_rng(seed)
    if cfg is None:
        n = r.randint(2 if kind == "pca" else 1, 4)      # PcaChain's direction update needs >= 2 parameters
        lo, hi = gen_box(r, n, away_from_zero=(kind == "hmc_fd"))
        cfg = {"kind": kind, "seed": seed, "lower": [float(v).hex() for v in lo],
               "upper": [float(v).hex() for v in hi], "scale": r.choice([3.0, 50.0, 4000.0]),
               "mass": r.choice(["none", "scalar", "vector", "matrix"]),
               "start_on_wall": (r.random() < 0.5) or (kind == "hmc_fd" and r.random() < 0.6)}
        if life:
            cfg["saveload_after"] = gen_trips(r, {"pca": 140, "hmc": 25, "hmc_fd": 8, "ensemble": 25}[kind])
    trips = cfg.get("saveload_after")
    lo = np.array([float.fromhex(v) for v in cfg["lower"]])
    hi = np.array([float.fromhex(v) for v in cfg["upper"]])
    n, w = len(lo), hi - lo
    post = weak_posterior(lo, hi)
    start = lo + w * rr.random(n)
    if cfg["start_on_wall"]:
        start[0] = hi[0] if start[0] >= 0 else lo[0]      # legal: the limits are closed
        if kind == "hmc_fd":
            # the finite-difference step is RELATIVE (1e-5 * t[i]): it points away from zero, so the
            # wall it can cross is the upper one for positive and the lower one for negative
            # coordinates -- put every coordinate on that wall
            for i in range(n):
                start[i] = hi[i] if start[i] >= 0 else lo[i]
        start = np.clip(start, lo, hi)
    start = np.clip(start, lo, hi)
    sc = cfg["scale"]
    with warnings.catch_warnings():
        warnings.simplefilter("ignore")
        if kind == "pca":
            ch = I["PcaChain"](posterior=post, start=start, widths=w * sc, bounds=(lo, hi),
                               display_progress=False)
            ch.rng = rr
            for i, p in enumerate(ch.params):
                p.rng = np.random.default_rng(seed + 1 + i)
            n0 = len(post.evals)
            box = [ch, 0]

            def trip_pca():
                box[0] = save_load_obj(box[0], kind, post)
                box[1] += 1
                box[0].rng = rr
                for i, p in enumerate(box[0].params):
                    p.rng = np.random.default_rng(seed + 1 + i + 1000 * box[1])
            stepping(140, trips, lambda: box[0].take_step(), trip_pca)
            ch = box[0]
            samples = ch.get_sample(burn=0)
        elif kind in ("hmc", "hmc_fd"):
            mass = cfg["mass"]
            im = None
            if mass == "scalar":
                im = 4.0
            elif mass == "vector":
                im = np.array([2.0 ** (i % 3) for i in range(n)])
            elif mass == "matrix":
                A = np.eye(n) + 0.3 * np.ones((n, n))
                im = A
            ch = I["HamiltonianChain"](posterior=post, start=start,
                                       grad=None if kind == "hmc_fd" else post.gradient,
                                       epsilon=float(w.max() * sc), bounds=(lo, hi), inverse_mass=im,
                                       display_progress=False)
            ch.rng = rr
            ch.steps = 6
            n0 = 0          # the constructor's evaluation of the start point counts too
            box = [ch]

            def trip_hmc():
                box[0] = save_load_obj(box[0], kind, post)
                box[0].rng = rr
            try:
                stepping(25 if kind == "hmc" else 8, trips, lambda: box[0].take_step(), trip_hmc)
            except ValueError:
                pass        # "failed to take step within maximum attempts" is not C04's subject
            ch = box[0]
            samples = np.array(ch.theta)
        elif kind == "ensemble":
            nw = max(n + 2, 6)
            sp = lo[None, :] + w[None, :] * rr.random((nw, n))
            ch = I["EnsembleSampler"](posterior=post, starting_positions=sp,
                                      alpha=float(max(2.0, sc * 10)), bounds=(lo, hi),
                                      display_progress=False)
            ch.rng = rr
            n0 = 0
            if not trips:
                ch.advance(25)
            else:
                box = [ch]

                def trip_ens():
                    box[0] = save_load_obj(box[0], kind, post)
                    box[0].rng = rr
                stepping(25, trips, lambda: box[0].advance(1), trip_ens)
                ch = box[0]
            samples = ch.sample
        else:
            raise ValueError(kind)
    pts = np.array([[float(v) for v in th] for th, _ in post.evals[n0:]] +
                   [[float(v) for v in th] for th, _ in post.grad_evals])
    return pts, np.asarray(samples, dtype=float), lo, hi, cfg


def run_gibbs_limits(r, cfg=None, life=False):
    """GibbsChain with boundaries on parameter 0, non-negativity on 1, both on 2.
    cfg["saveload_after"] (set when life=True): interrupted by save -> load round trips."""
    I = impl()
    seed = r.getrandbits(32) if cfg is None else cfg["seed"]
    rr = np.random.default_rng(seed)
    if cfg is None:
        lo, hi = gen_box(r, 1)
        w2 = r.choice([1e-3, 1.0, 40.0])
        cfg = {"kind": "gibbs", "seed": seed, "lower": [float(lo[0]).hex(), (-3 * w2).hex()],
               "upper": [float(hi[0]).hex(), float(w2).hex()], "scale": r.choice([3.0, 50.0, 4000.0]),
               "order": r.choice(["nn_first", "sb_first"])}
        if life:
            cfg["saveload_after"] = gen_trips(r, 120)
    trips = cfg.get("saveload_after")
    lo = [float.fromhex(v) for v in cfg["lower"]]
    hi = [float.fromhex(v) for v in cfg["upper"]]
    w0, w2 = hi[0] - lo[0], hi[1]
    a = [Fraction(1) / (2 * fr(w0) ** 2), Fraction(1, 8), Fraction(1) / (2 * fr(w2) ** 2)]
    m = [fr(lo[0]) + fr(w0) / 3, Fraction(1), fr(w2) / 2]
    fn, gr = quadratic_logp(a, m)
    post = RecordingPosterior(fn, gr)
    start = [lo[0] + w0 * rr.random(), 0.5 + rr.random(), w2 * rr.random()]
    sc = cfg["scale"]
    with warnings.catch_warnings():
        warnings.simplefilter("ignore")
        ch = I["GibbsChain"](posterior=post, start=start, widths=[w0 * sc, 2.0 * sc, w2 * sc],
                             display_progress=False)
        ch.rng = rr
        for i, p in enumerate(ch.params):
            p.rng = np.random.default_rng(seed + 1 + i)
        ch.set_boundaries(0, (lo[0], hi[0]))
        ch.set_non_negative(1, True)
        if cfg["order"] == "nn_first":
            ch.set_non_negative(2, True)
            ch.set_boundaries(2, (lo[1], hi[1]))
        else:
            ch.set_boundaries(2, (lo[1], hi[1]))
            ch.set_non_negative(2, True)
        n0 = len(post.evals)
        box = [ch, 0]

        def trip_gibbs():
            box[0] = save_load_obj(box[0], "gibbs", post)
            box[1] += 1
            box[0].rng = rr
            for i, p in enumerate(box[0].params):
                p.rng = np.random.default_rng(seed + 1 + i + 1000 * box[1])
        stepping(120, trips, lambda: box[0].take_step(), trip_gibbs)
        ch = box[0]
        samples = ch.get_sample(burn=1)
    pts = np.array([[float(v) for v in th] for th, _ in post.evals[n0:]])
    L = np.array([lo[0], 0.0, 0.0])
    U = np.array([hi[0], math.inf, hi[1]])
    return pts, np.asarray(samples, dtype=float), L, U, cfg


def check_run(pts, samples, lo, hi):
    bad = []
    o = outside(pts, lo, hi)
    if len(o):
        i, j = o[0]
        bad.append(f"posterior evaluated at coordinate {j} = {pts[i, j]!r}, limits "
                   f"[{float(lo[j])!r}, {float(hi[j])!r}] ({len(o)} such entries)")
    o = outside(samples, lo, hi)
    if len(o):
        i, j = o[0]
        bad.append(f"stored sample {i} has coordinate {j} = {samples[i, j]!r}, limits "
                   f"[{float(lo[j])!r}, {float(hi[j])!r}] ({len(o)} such entries)")
    return bad


def reflect_float_check(r, n_cases):
    """[R] Bounds.reflect on arbitrary doubles: inside up to 4 ulp, factor in {+1,-1}."""
    B = impl()["Bounds"]
    bad = []
    for _ in range(n_cases):
        n = r.randint(1, 5)
        lo, hi = gen_box(r, n)
        b = B(lower=lo, upper=hi)
        w = hi - lo
        mag = np.array([r.choice([0.5, 3.0, 1e3, 1e9, 1e15]) for _ in range(n)])
        th = lo + w * mag * np.array([r.uniform(-1, 1) for _ in range(n)])
        pos = b.reflect(th.copy())
        pm, mom = b.reflect_momenta(th.copy())
        if len(outside(pos, lo, hi)) or len(outside(pm, lo, hi)) or not np.isin(mom, (-1.0, 1.0)).all():
            bad.append({"kind": "reflect", "lower": [float(v).hex() for v in lo],
                        "upper": [float(v).hex() for v in hi], "theta": [float(v).hex() for v in th]})
    return bad



# ------------------------------------------------------------------ F. object lifetimes, exact
LIFE_KINDS = ["pca", "hmc", "ensemble"]
LIFE_TEMPLATES = [["L", "S", "S"], ["S", "S", "L", "S", "S"], ["S", "L", "L", "S"], ["S", "L", "S", "L", "S"]]
CLASS_OF = {"pca": "PcaChain", "hmc": "HamiltonianChain", "ensemble": "EnsembleSampler", "gibbs": "GibbsChain",
            "hmc_fd": "HamiltonianChain"}


def gen_life(r, kind):
    """A sampler configuration WITH bounds whose raw proposals / trajectories leave the box, and a
    history of steps (S) and save -> load round trips (L) with at least one step after a round trip."""
    cfg = None
    for _ in range(200):
        c = SC.make_config(r, kind)
        if c["bounds"] is not None:
            cfg = c
            break
    if cfg is None:
        raise RuntimeError("no bounded configuration generated")
    if kind in ("pca", "hmc") and r.random() < 0.6:       # a narrow dyadic box around the start
        cfg["bounds"] = ([s - r.choice([0.25, 0.5, 1.0]) for s in cfg["start"]],
                         [s + r.choice([0.25, 0.5, 1.0]) for s in cfg["start"]])
    lo, hi = cfg["bounds"]
    if kind == "pca":                                     # proposal widths of 2 - 32 box widths
        mult = r.choice([2.0, 8.0, 32.0])
        cfg["widths"] = [(h - l) * mult for l, h in zip(lo, hi)]
        # axis directions only: with everything dyadic the folds of these very wide proposals are exact in
        # double precision; the 0.6/0.8 rotation is not, and a proposal folded back EXACTLY onto the current
        # point (a tie p_new == p_old, decided differently by a rounding) is common on this coarse lattice
        cfg["rotate"] = False
    if kind == "ensemble":
        cfg["alpha"] = r.choice([5.0, 8.0])               # stretch factors up to alpha
    if r.random() < 0.6:
        ops = list(r.choice(LIFE_TEMPLATES))
    else:
        ops = [("L" if r.random() < 0.35 else "S") for _ in range(r.randint(2, 6))]
        if "L" not in ops or "S" not in ops[ops.index("L"):]:
            ops += ["L", "S"]
    if kind == "ensemble":                                # an iteration moves every walker: keep it short
        while ops.count("S") > 3:
            ops.remove("S")
        if "S" not in ops[ops.index("L"):]:
            ops.append("S")
    return cfg, ops


def box_term(cfg):
    lo, hi = cfg["bounds"]
    return S.bounds_coq((S.frs(lo), S.frs(hi)))


def run_life(cfg, ops):
    """Drive the real object through the history.  Returns (terms, what each term is, property
    failures): the terms are Coq expressions of type nat (result codes, see Model/Samplers.v);
    the failures are the property evaluated on the implementation (every evaluation point of
    every step and every stored point inside the box given to the constructor, 4 ulp)."""
    kind = cfg["kind"]
    lo, hi = np.array(cfg["bounds"][0], dtype=float), np.array(cfg["bounds"][1], dtype=float)
    b0 = box_term(cfg)
    ch, post, rng, _ = SC.build(cfg)
    terms, what, bad = [], [], []
    k = n_step = 0

    def oracle(pts, where):
        o = outside(pts, lo, hi) if len(pts) else []
        if len(o):
            i, j = o[0]
            v = float(np.atleast_2d(np.asarray(pts, dtype=float))[i, j])
            bad.append(f"{where}: coordinate {j} = {v!r}, limits given at construction "
                       f"[{float(lo[j])!r}, {float(hi[j])!r}] ({len(o)} such entries)")

    for op in ops:
        if op == "L":
            ch = save_load_obj(ch, kind, post)
            if kind == "pca":
                S.attach_rng(ch, rng)
            else:
                ch.rng = rng
            k += 1
            b = getattr(ch, "bounds", None)
            seen = None if b is None else (S.frs(b.lower), S.frs(b.upper))
            terms.append(f"(attr_code {b0} {C.cnat(k)} {S.bounds_coq(seen)})")
            what.append(f"bounds reported after round trip {k}")
            if seen is None or seen[0] != S.frs(lo) or seen[1] != S.frs(hi):
                bad.append(f"after round trip {k} the object no longer reports the limits it was built with")
            continue
        m_e, m_g = len(post.evals), len(post.grad_evals)
        try:
            if kind == "pca":
                recs = S.record_pca(ch, post, rng, 1)
            elif kind == "hmc":
                recs = S.record_hmc(ch, post, rng, 1)
            else:
                recs = S.record_ensemble(ch, post, rng, 1)
        except ValueError as e:
            if "maximum allowed attempts" not in str(e):
                raise
            break           # "failed to take step within maximum attempts" is not C04's subject
        n_step += 1
        where = f"step {n_step} ({'after %d save/load round trip(s)' % k if k else 'before any save'})"
        oracle([[float(v) for v in th] for th, _ in post.evals[m_e:]], where + ", posterior evaluated")
        oracle([[float(v) for v in th] for th, _ in post.grad_evals[m_g:]], where + ", gradient evaluated")
        recs[0].pre["bounds"] = "hook"          # the box is the MODEL's, after this history
        terms.append(f"(life_code {b0} {C.cnat(k)} (fun hook => {SC.coq_terms(cfg, recs)[0]}))")
        what.append(where)
    if kind == "pca":
        stored = ch.get_sample(burn=0)
    elif kind == "hmc":
        stored = np.array(ch.theta)
    else:
        stored = ch.sample if ch.sample is not None else ch.walker_positions
    oracle(np.asarray(stored, dtype=float).reshape(-1, len(lo)), "stored sample")
    return terms, what, bad


def life_case(cfg, ops):
    return {"kind": "life", "cfg": SC.describe(cfg), "ops": list(ops)}


# ------------------------------------------------------------------ the run
def run(rep: C.Report, tier: str) -> int:
    import os
    import sys
    import time
    t_last = [time.time()]
    timing = {}

    def lap(name):
        timing[name] = round(time.time() - t_last[0], 2)
        t_last[0] = time.time()
        if os.environ.get("VERIF_TIMING"):
            print(f"[C04 timing] {name}: {timing[name]}s", file=sys.stderr)
    big = tier == "thorough"
    # one violation per key (the first, i.e. the shortest / earliest witness); repeats are counted
    raw_violation, seen_keys = rep.violation, {}

    def violation_once(key, what, replay, found_input):
        seen_keys[key] = seen_keys.get(key, 0) + 1
        if seen_keys[key] == 1:
            raw_violation(key, what, replay, found_input)
    rep.violation = violation_once
    C.clean_gen(PROP)
    info = C.prove_and_audit(rep, PROP, THEOREMS)
    if info is not None:
        # the sampler-model theorems (every evaluation point of PCA / HMC / ensemble inside the box)
        extra = ["C04_pca_step_inside", "C04_hmc_step_inside", "C04_ens_iteration_inside"]
        try:
            a2 = C.coq_audit(PROP + "_samplers", extra, "IT.Properties.C04Samplers")
            rep.obligation(True, len(extra))
            rep.coverage["sampler_model_audit"] = a2
        except C.ProofFailure as e:
            rep.obligation(False, len(extra))
            rep.violation("C04/proof", f"proof obligation no longer checks: {e.what}",
                          {"theorem_or_correspondence": e.what, "log": e.log[-1000:]}, False)
        try:
            a3 = C.coq_audit(PROP + "_life", LIFE_THEOREMS, "IT.Properties.C04Life")
            rep.obligation(True, len(LIFE_THEOREMS))
            rep.coverage["lifetime_model_audit"] = a3
        except C.ProofFailure as e:
            rep.obligation(False, len(LIFE_THEOREMS))
            rep.violation("C04/proof", f"proof obligation no longer checks: {e.what}",
                          {"theorem_or_correspondence": e.what, "log": e.log[-1000:]}, False)
    files, meta = [], []        # meta[i] = (group, list of case keys)

    lap('proofs+audit')
    # ---- A. Bounds.reflect / reflect_momenta
    r = C.rng_for(PROP, "reflect")
    rcases, rout, relems = [], [], []
    for k in range(12000 if big else 2400):
        case = gen_reflect_array(r)
        out = run_reflect(case)
        rcases.append(case), rout.append(out)
        for kd in case["kinds"]:
            rep.count("reflect/theta=" + kd)
        rep.count(f"reflect/dim={len(case['lo'])}")
        rep.case(("reflect", case["g"], case["lo"], case["w"], case["theta"]),
                 nontrivial=any(kd not in ("inside",) for kd in case["kinds"]))
        if k < 2:
            rep.sample({"reflect": describe_reflect(case), "kinds": case["kinds"]})
        if out["status"] != "ok":
            rep.violation("C04/reflect/exception", f"Bounds.reflect failed on a valid input: {out['error']}",
                          {"case": describe_reflect(case)}, True)
            continue
        if out["mutated"]:
            rep.violation("C04/reflect/mutates-input", "Bounds.reflect modified the caller's array",
                          {"case": describe_reflect(case)}, True)
        if not out["inside_says"]:
            rep.count("reflect/inside()-false")
        for j in range(len(case["lo"])):
            relems.append((k, j))
    CH = 1000
    for i in range(0, len(relems), CH):
        chunk = relems[i:i + CH]
        rows = []
        for k, j in chunk:
            o = rout[k]
            rows.append("(" + ", ".join(C.cq(v) for v in (o["lo"][j], o["hi"][j], o["theta"][j],
                                                         o["pos"][j], o["pos_m"][j], o["mom"][j])) + ")")
        body = "Definition cases : list (Q * Q * Q * Q * Q * Q) :=\n " + C.clist(rows, ";\n ") + "."
        files.append(C.write_case_file(PROP, f"reflect_{i // CH}", HEADER, body,
                                       ["failing check_reflect cases 0"]))
        meta.append(("reflect", chunk))

    lap('reflect-impl')
    # ---- B. Parameter.boundary_proposal / abs_proposal
    r = C.rng_for(PROP, "proposals")
    pcases = {"bnd": [], "abs": []}
    for which in ("bnd", "abs"):
        for k in range(6000 if big else 1200):
            case = gen_prop_case(r)
            out = run_prop(case, which)
            rep.case((which, case["g"], case["lo"], case["w"], case["s"], case["e"], case["z"]))
            rep.count("proposal/" + which)
            if out["status"] != "ok":
                rep.violation(f"C04/{which}_proposal/exception", f"{which} proposal failed: {out['error']}",
                              {"case": {"kind": which, **{a: str(b) for a, b in case.items()}}}, True)
                continue
            pcases[which].append((case, out))
        rows = []
        for case, o in pcases[which]:
            if which == "bnd":
                rows.append("(" + ", ".join(C.cq(v) for v in (o["lo"], o["hi"], o["s"], o["sigma"],
                                                             case["z"], o["y"])) + ")")
            else:
                rows.append("(" + ", ".join(C.cq(v) for v in (o["s"], o["sigma"], case["z"], o["y"])) + ")")
        typ = "Q * Q * Q * Q * Q * Q" if which == "bnd" else "Q * Q * Q * Q"
        chk = "check_gibbs_fold" if which == "bnd" else "check_abs"
        for i in range(0, len(rows), 2000):
            body = f"Definition cases : list ({typ}) :=\n " + C.clist(rows[i:i + 2000], ";\n ") + "."
            files.append(C.write_case_file(PROP, f"{which}_{i // 2000}", HEADER, body,
                                           [f"failing {chk} cases 0"]))
            meta.append((which, list(range(i, min(i + 2000, len(rows))))))

    lap('proposals-impl')
    # ---- C. bounded_leapfrog with a vanishing force
    r = C.rng_for(PROP, "leapfrog")
    lcases, lrows, lidx = [], [], []
    for k in range(3000 if big else 700):
        case = gen_leap_case(r)
        out = run_leap(case)
        lcases.append((case, out))
        rep.case(("leap", tuple(sorted((a, str(b)) for a, b in case.items()))))
        rep.count(f"leapfrog/steps<={4 * ((case['steps'] + 3) // 4)}")
        rep.count("leapfrog/mass=" + ("scalar" if case["im_pow"] is None else "vector"))
        if out["status"] != "ok":
            rep.violation("C04/leapfrog/exception", f"bounded_leapfrog failed: {out['error']}",
                          {"case": {"kind": "leapfrog", **{a: str(b) for a, b in case.items()}}}, True)
            continue
        for j in range(len(case["lo"])):
            lrows.append("(" + ", ".join([C.cq(out["lo"][j]), C.cq(out["hi"][j]), C.cq(out["eps"]),
                                          C.cq(out["im"][j]), C.cnat(case["steps"]), C.cq(out["t0"][j]),
                                          C.cq(out["r0"][j]), C.cq(out["t"][j]), C.cq(out["r"][j])]) + ")")
            lidx.append(k)
    for i in range(0, len(lrows), 250):
        body = ("Definition cases : list (Q * Q * Q * Q * nat * Q * Q * Q * Q) :=\n "
                + C.clist(lrows[i:i + 250], ";\n ") + ".")
        files.append(C.write_case_file(PROP, f"leapfrog_{i // 250}", HEADER, body,
                                       ["failing check_leapfrog cases 0"]))
        meta.append(("leap", lidx[i:i + 250]))

    lap('leapfrog-impl')
    # ---- D. selector: every call order up to length 5 on real Parameter objects
    AL = alphabet(tier)
    DEPTH = 5
    al_coq = "Definition AL : list op :=\n " + C.clist([coq_op(o) for o in AL], "; ") + "."
    node_k = [0]
    hist_bad = []            # [R] second opinion at every node: (ops, failures)
    state_seen = {}

    def walk(prefix, depth, acc):
        obs, h, _ = observe_param(prefix, node_k[0])
        node_k[0] += 1
        acc.append((list(prefix), obs))
        rep.count(f"selector/len={len(prefix)}")
        state_seen[obs[:6]] = state_seen.get(obs[:6], 0) + 1
        if obs[7] is None:
            hist_bad.append((list(prefix), ["proposal is not finite"]))
        else:
            hb = h.check(obs[7])
            if hb:
                hist_bad.append((list(prefix), hb))
        if depth < DEPTH:
            for op in AL:
                walk(prefix + [op], depth + 1, acc)

    sel_nodes = 0
    for fi, first in enumerate(AL):
        acc = []
        node_k[0] = 0            # the draw of a node depends on its index within its file
        try:
            walk([first], 1, acc)
        except Exception as e:
            rep.violation("C04/selector/exception", f"selector call sequence raised: {e!r}",
                          {"case": {"kind": "selector", "ops": ops_json(acc[-1][0] if acc else [first])}}, True)
            continue
        sel_nodes += len(acc)
        table, tindex, codes = [], {}, []
        for ops, o in acc:
            key = o[:6]
            if key not in tindex:
                tindex[key] = len(table)
                table.append(key)
            y64 = None if o[7] is None else o[7] * 64
            if y64 is None or y64.denominator != 1:
                codes += [-1, 0]                       # not representable: reported as a disagreement
            else:
                codes += [tindex[key], int(y64)]
        trows = [f"({C.cbool(b)}, {C.cbool(nn)}, {C.cq(lo)}, {C.cq(hi)}, {C.cq(w)}, {C.cz(k)}%Z)"
                 for (b, nn, lo, hi, w, k) in table]
        chunks = [C.clist([C.cz(v) for v in codes[i:i + 400]]) + "%Z" for i in range(0, len(codes), 400)]
        body = (al_coq + "\n" + XOF +
                "Definition table : list obs_state :=\n " + C.clist(trows, ";\n ") + ".\n"
                "Definition codes : list Z := concat\n " + C.clist(chunks, ";\n ") + ".\n"
                f"Definition first_op : op := {coq_op(first)}.")
        files.append(C.write_case_file(
            PROP, f"selector_{fi}", HEADER, body,
            # (truncated: indices are unary nat, a long list of them is slow to read back)
            [f"firstn 40 (failing_codes propose table xof (enum step AL {DEPTH - 1} (step init first_op)) codes 0)",
             f"firstn 1 (failing_codes propose_pinned table xof (enum step_pinned AL {DEPTH - 1} "
             f"(step_pinned init first_op)) codes 0)"]))
        meta.append(("selector", [ops for ops, _ in acc]))
    rep.evaluations += sel_nodes
    rep.coverage["selector_call_orders_enumerated"] = sel_nodes
    rep.coverage["selector_distinct_states_reached"] = len(state_seen)
    rep.coverage["selector_alphabet"] = [coq_op(o) for o in AL]

    lap('selector-impl')
    # ---- D'. the same through GibbsChain.set_boundaries / set_non_negative / save / load
    seqs = [[]]
    frontier = [[]]
    for _ in range(4 if big else 3):
        frontier = [s + [op] for s in frontier for op in AL]
        seqs += frontier
    crow, cops = [], []
    chain_evals = 0
    for k, ops in enumerate(seqs):
        try:
            obs, bad, ne = observe_chain(ops, k)
        except Exception as e:
            rep.violation("C04/selector/exception", f"GibbsChain call sequence raised: {e!r}",
                          {"case": {"kind": "chain_selector", "ops": ops_json(ops)}}, True)
            continue
        chain_evals += ne
        rep.count("chain_selector/len=%d" % len(ops))
        if bad:
            hist_bad.append((ops, bad))
        if obs[7] is None:
            obs = obs[:7] + (Fraction(10 ** 30),)
        crow.append(f"({C.clist([coq_op(o) for o in ops])}, {coq_obs(obs)})")
        cops.append(ops)
    rep.evaluations += len(cops)
    for i in range(0, len(crow), 1500):
        body = "Definition cases : list (list op * obs) :=\n " + C.clist(crow[i:i + 1500], ";\n ") + "."
        files.append(C.write_case_file(PROP, f"chain_selector_{i // 1500}", HEADER, body,
                                       ["firstn 40 (failing (check_seq step propose) cases 0)",
                                        "firstn 1 (failing (check_seq step_pinned propose_pinned) cases 0)"]))
        meta.append(("chain_selector", cops[i:i + 1500]))
    rep.coverage["chain_selector_sequences"] = len(cops)
    rep.coverage["chain_selector_posterior_evaluations_checked_R"] = chain_evals

    lap('chain-selector-impl')
    # ---- F. object lifetimes: construct(bounds) -> steps / save -> load round trips -> steps
    r = C.rng_for(PROP, "lifetimes-exact")
    lives = []                    # (cfg, ops, first term index, number of terms, what, oracle failures)
    lterms = []
    for kind in LIFE_KINDS:
        for _ in range(12 if big else 4):
            cfg, ops = gen_life(r, kind)
            rep.count(f"life/{kind}")
            rep.count("life/history=" + "".join(ops))
            rep.case(("life", json.dumps(SC.describe(cfg), sort_keys=True, default=str), "".join(ops)))
            try:
                with warnings.catch_warnings():
                    warnings.simplefilter("ignore")
                    terms, what, bad = run_life(cfg, ops)
            except Exception as e:
                rep.violation(f"C04/life/{kind}/exception",
                              f"{CLASS_OF[kind]}: history {''.join(ops)} (S = step, L = save/load) raised {e!r}",
                              {"case": life_case(cfg, ops)}, True)
                continue
            if len(lives) < 2:
                rep.sample({"lifetime": {"sampler": kind, "history": "".join(ops), "bounds": cfg["bounds"],
                                         "widths": cfg.get("widths"), "alpha": cfg.get("alpha")}})
            lives.append((cfg, ops, len(lterms), len(terms), what, bad))
            lterms += terms
            if bad:
                rep.violation(f"C04/life/{kind}/outside-limits",
                              f"{CLASS_OF[kind]} built with bounds, history {''.join(ops)} (S = step, "
                              f"L = save/load): {bad[0]}", {"case": life_case(cfg, ops)}, True)
    rep.evaluations += len(lterms)
    LCH = 10
    for i in range(0, len(lterms), LCH):
        part = lterms[i:i + LCH]
        body = "Definition codes : list nat :=\n " + C.clist(part, ";\n ") + "."
        files.append(C.write_case_file(PROP, f"life_{i // LCH}", HEADER_LIFE, body,
                                       ["with_code 1 codes 0", "with_code 2 codes 0", "with_code 3 codes 0"]))
        meta.append(("life", list(range(i, i + len(part)))))
    rep.coverage["lifetime_histories"] = len(lives)
    rep.coverage["lifetime_steps_and_reports_checked_in_coq"] = len(lterms)

    lap('lifetimes-impl')
    # ---- run Coq on everything
    outs = C.run_case_files(files, jobs=14, timeout=1500 if big else 600)
    n_checked = {}
    sel_fail, sel_fail_pinned, sel_files_ok = [], [], True
    life_codes = {}
    for p, (group, keys), (ok, res, log) in zip(files, meta, outs):
        need = 2 if group in ("selector", "chain_selector") else 3 if group == "life" else 1
        if not ok or any(i not in res for i in range(need)):
            rep.obligation(False)
            if group in ("selector", "chain_selector"):
                sel_files_ok = False
            rep.violation(f"C04/{group}/correspondence-run", f"case file {p.name} did not evaluate",
                          {"theorem_or_correspondence": f"correspondence file {p.name}", "log": log}, False)
            continue
        rep.obligation(True)
        n_checked[group] = n_checked.get(group, 0) + len(keys)
        fails = [keys[j] for j in res[0] if j < len(keys)] + ([keys[-1]] if any(j >= len(keys) for j in res[0]) else [])
        if group == "life":
            for code, slot in ((1, 0), (2, 1), (3, 2)):
                for j in res[slot]:
                    if j < len(keys):
                        life_codes[keys[j]] = code
            continue
        if group == "reflect":
            for (k, j) in fails[:10]:
                handle_reflect_fail(rep, rcases[k], rout[k], j)
        elif group in ("bnd", "abs"):
            for j in fails[:10]:
                handle_prop_fail(rep, group, *pcases[group][j])
        elif group == "leap":
            for k in sorted(set(fails))[:10]:
                handle_leap_fail(rep, *lcases[k])
        else:
            sel_fail += fails
            sel_fail_pinned += [keys[j] for j in res[1] if j < len(keys)]
    rep.coverage["traces_validated_against_impl"] = (sum(int(v) for v in n_checked.values())
                                                      if isinstance(n_checked, dict) else int(n_checked))
    rep.coverage["traces_validated_breakdown"] = n_checked
    rep.coverage["correspondence_disagreements"] = {"selector": len(sel_fail)}

    # ---- lifetimes: a step of the real object that is not a step of the model with the
    #      construction box (code 1; 3 = the model could not follow) -> look for a failing input
    rep.coverage["lifetime_undecided_steps"] = sum(1 for c in life_codes.values() if c == 2)
    for cfg, ops, t0, nt, what, bad in lives:
        kind = cfg["kind"]
        off = [j for j in range(nt) if life_codes.get(t0 + j) in (1, 3)]
        if not off or bad:        # (a visible failure has been reported above with its input)
            continue
        found = None
        rs = C.rng_for(PROP, "lifetimes-search")
        for _ in range(6):        # the same class of history with proposals far wider than the box
            try:
                pts, samples, lo_, hi_, c2 = run_sampler(kind, rs, life=True)
            except Exception:
                continue
            b2 = check_run(pts, samples, lo_, hi_)
            if b2:
                found = (c2, b2)
                break
        if found:
            rep.violation(f"C04/life/{kind}/outside-limits",
                          f"{CLASS_OF[kind]} built with bounds and saved/loaded: {found[1][0]}",
                          {"case": {"kind": "run", "cfg": found[0]}}, True)
        else:
            rep.violation(f"C04/life/{kind}/correspondence",
                          f"{CLASS_OF[kind]}: {what[off[0]]} of the history {''.join(ops)} is not a step of the "
                          "model with the box given at construction, but no point was seen outside the limits",
                          {"theorem_or_correspondence": "Model.BoundsLife.life_code / attr_code "
                                                        "(C04_life_*_inside)", "case": life_case(cfg, ops)}, False)

    lap('coq-case-files')
    # ---- selector disagreements: look for a concrete failing input
    if sel_fail or hist_bad:
        matches_pinned = sel_files_ok and not sel_fail_pinned
        # shortest first; among equals prefer sequences without the calls the repaired code refuses
        def rank(ops):
            return (len(ops), sum(1 for o in ops if o[:3] == ("sb", -3, 0) or o[0] == "nn_bad"))
        cands = sorted([ops for ops, _ in hist_bad] + sel_fail, key=rank)
        found = None
        for ops in cands[:400]:
            bad, info = oracle_selector(ops)
            if bad:
                found = (ops, bad, info)
                break
        note = (" (the implementation follows the pinned selector, defect D6: every setter "
                "overwrites `proposal` on its own)") if matches_pinned else ""
        if found:
            ops, bad, info = found
            ops = shrink_ops(ops)
            bad, info = oracle_selector(ops)
            rep.violation(K_SELECTOR, f"after {pretty(ops)}: {bad[0]}{note}",
                          {"case": {"kind": "selector", "ops": ops_json(ops), **info},
                           "disagreeing_call_orders_at_least": len(sel_fail)}, True)
        elif hist_bad:
            ops, bad = sorted(hist_bad, key=lambda t: len(t[0]))[0]
            rep.violation(K_SELECTOR, f"after {pretty(ops)} on a GibbsChain: {bad[0]}{note}",
                          {"case": {"kind": "chain_selector", "ops": ops_json(ops)}}, True)
        else:
            ops = sorted(sel_fail, key=len)[0]
            rep.violation("C04/selector/correspondence",
                          f"selector state after {pretty(ops)} differs from the model, but no proposal "
                          "was seen to leave the limits in force",
                          {"theorem_or_correspondence": "Model.ProposalFSM.check_state (selector correspondence)",
                           "case": {"kind": "selector", "ops": ops_json(ops)}}, False)

    lap('selector-search')
    # ---- E. run-time checks on the samplers [R]
    r = C.rng_for(PROP, "samplers")
    runs = {"gibbs": 10, "pca": 6, "hmc": 10, "ensemble": 6, "hmc_fd": 10}
    if big:
        runs = {k: 6 * v for k, v in runs.items()}
    n_pts = 0
    for kind, cnt in runs.items():
        for _ in range(cnt):
            try:
                if kind == "gibbs":
                    pts, samples, lo, hi, cfg = run_gibbs_limits(r)
                else:
                    pts, samples, lo, hi, cfg = run_sampler(kind, r)
            except Exception as e:
                rep.violation(f"C04/run/{kind}/exception", f"{kind} run raised {e!r}",
                              {"theorem_or_correspondence": f"run-time check of {kind}"}, False)
                continue
            n_pts += len(pts) + len(samples)
            rep.count(f"run/{kind}")
            rep.count(f"run/{kind}/points", len(pts))
            rep.case(("run", json.dumps(cfg, sort_keys=True)))
            bad = check_run(pts, samples, lo, hi)
            if bad:
                key = K_FD if kind == "hmc_fd" else (K_SELECTOR if kind == "gibbs" else f"C04/run/{kind}/outside-limits")
                rep.violation(key, f"{kind}: {bad[0]}", {"case": {"kind": "run", "cfg": cfg}}, True)
    r = C.rng_for(PROP, "lifetimes")
    lruns = {"gibbs": 3, "pca": 4, "hmc": 4, "ensemble": 4, "hmc_fd": 3}
    if big:
        lruns = {k: 6 * v for k, v in lruns.items()}
    for kind, cnt in lruns.items():
        for _ in range(cnt):
            try:
                if kind == "gibbs":
                    pts, samples, lo, hi, cfg = run_gibbs_limits(r, life=True)
                else:
                    pts, samples, lo, hi, cfg = run_sampler(kind, r, life=True)
            except Exception as e:
                rep.violation(f"C04/run/{kind}/exception", f"{kind} run with save/load round trips raised {e!r}",
                              {"theorem_or_correspondence": f"run-time check of {kind} with save/load"}, False)
                continue
            n_pts += len(pts) + len(samples)
            rep.count(f"run-with-save-load/{kind}")
            rep.count(f"run-with-save-load/{kind}/points", len(pts))
            rep.case(("run", json.dumps(cfg, sort_keys=True)))
            bad = check_run(pts, samples, lo, hi)
            if bad:
                key = K_FD if kind == "hmc_fd" else (K_SELECTOR if kind == "gibbs" else f"C04/life/{kind}/outside-limits")
                rep.violation(key, f"{kind} with save/load after steps {cfg['saveload_after']}: {bad[0]}",
                              {"case": {"kind": "run", "cfg": cfg}}, True)
    rep.coverage["runtime_R_points_checked"] = n_pts
    rb = reflect_float_check(C.rng_for(PROP, "reflect-float"), 20000 if big else 3000)
    rep.coverage["runtime_R_reflect_on_arbitrary_doubles"] = 20000 if big else 3000
    if rb:
        rep.violation("C04/reflect/float-outside", "Bounds.reflect leaves the limits by more than 4 ulp "
                      "on a non-dyadic input", {"case": rb[0]}, True)

    lap('runtime-R')
    rep.coverage['violations_per_key'] = dict(seen_keys)
    rep.coverage['timing_s'] = timing
    rep.coverage["labels"] = {
        "T_proved_for_all_inputs": THEOREMS + LIFE_THEOREMS,
        "X_exact_correspondence_inside_Coq": ["Bounds.reflect / reflect_momenta (dyadic arrays)",
                                              "Parameter.boundary_proposal / abs_proposal (scripted draw)",
                                              "HamiltonianChain.bounded_leapfrog with zero force",
                                              "Parameter selector, all call orders <= 5; GibbsChain API + .npz <= 3/4",
                                              "object lifetimes: every step of PcaChain / HamiltonianChain / "
                                              "EnsembleSampler objects built with bounds, before and after save -> "
                                              "load round trips, replayed with the box of the model's hook "
                                              "(Model.BoundsLife.life_code); reported bounds (attr_code)"],
        "R_runtime_tests_only": ["recording posterior on GibbsChain / PcaChain / HamiltonianChain / EnsembleSampler "
                                 "runs (4 ulp tolerance)", "Bounds.reflect on arbitrary doubles (4 ulp tolerance)",
                                 "GibbsChain.take_step after each API call sequence",
                                 "the sampler runs interrupted by save -> load round trips (before any step, early, "
                                 "mid-run, twice in a row), all five kinds"],
    }
    rep.assumptions = [
        "exact comparisons use dyadic inputs on which every + - * // % of the code is exact in double precision",
        "Bounds.width = upper - lower is passed to the model as w (computed by the code, exact on the inputs used)",
        "[R] sampler runs (GibbsChain, PcaChain, HamiltonianChain, EnsembleSampler) are run-time tests with a "
        "tolerance of 4 ulp at the scale of the limits; they check that every evaluation point is routed "
        "through the proved maps, they are not proofs",
        "limits 'in force' are taken from the caller's call history (a call refused with a warning does not count)",
        "repaired selector semantics: bounded and non_negative together mean the intersection [max(lower,0), upper]; "
        "a call that would leave it empty or a single point is refused with a warning",
        "HMC with a full mass matrix, PCA directions after an update and ensemble stretch moves are covered "
        "only by the [R] runs (positions pass through Bounds.reflect, which is proved and tied exactly)",
        "object lifetimes: the limits in force are the `bounds` argument of the constructor (the caller's history), "
        "carried by Model/BoundsLife.v through every save -> load; the numeric state of each step is re-read from "
        "the real object (tolerance 1e-9 relative, as in C01/C09), its round trip through the file is C09's subject; "
        "adaptation is frozen in these histories",
    ]
    return rep.finish(
        level="proof",
        checker_cmd="make -C /verif/coq (coqc 8.16.1, full .vo) + coqc on coq/gen/C04/*.v (vm_compute)",
        trusted_base=C.KERNEL_TB + ["axioms: none (all C04 theorems are closed under the global context)",
                                    "NumPy divmod / Python float // and % semantics (floor quotient, remainder "
                                    "with the sign of the divisor) are modelled by Qfloor"],
        rule="dyadic Bounds arrays (1-6 dims; grid 2^-32..2^10; widths 1..2^20 grid units; |lower| to 2^48 grid "
             "units; theta inside / on a wall / on a far wall / over by 1-3, <=5000, <=2^20 widths / one grid unit "
             "outside); scripted Parameter proposals; force-free bounded leapfrog (1-12 steps); all selector call "
             "orders of length <=5 over the listed alphabet (Parameter) and <=3 (quick) / <=4 (thorough) through "
             "GibbsChain + .npz; object lifetimes: bounded PcaChain / HamiltonianChain / EnsembleSampler "
             "configurations (proposal widths 2-32 boxes, alpha 5-8, narrow dyadic boxes) x histories of 2-7 steps "
             "and save/load round trips (at the start, mid-run, twice in a row); a case is non-trivial unless every "
             "theta is inside; distinct = distinct inputs")


# ------------------------------------------------------------------ failing-input search helpers
def pretty(ops):
    out = []
    for o in ops:
        if o[0] == "sb":
            out.append(f"set_boundaries({o[1]}, {o[2]})")
        elif o[0] == "rm":
            out.append("remove_boundaries()")
        elif o[0] == "nn":
            out.append(f"non_negative={o[1]}")
        elif o[0] == "nn_bad":
            out.append("non_negative=1")
        else:
            out.append("save/load")
    return "[" + "; ".join(out) + "]"


def shrink_ops(ops):
    def still(xs):
        try:
            return bool(oracle_selector(xs)[0])
        except Exception:
            return False
    return C.shrink_list(list(ops), still, min_len=1)


def handle_reflect_fail(rep, case, out, j):
    lo, hi, th = fr(out["lo"][j]), fr(out["hi"][j]), fr(out["theta"][j])
    bad = oracle_point(lo, hi, th, fr(out["pos"][j])) + \
        oracle_point(lo, hi, th, fr(out["pos_m"][j]), fr(out["mom"][j]))
    d = describe_reflect(case, j)
    if bad:
        rep.violation("C04/reflect/property", "Bounds.reflect / reflect_momenta: " + bad[0], {"case": d}, True)
    else:
        rep.violation("C04/reflect/correspondence",
                      "Bounds.reflect and the model disagree, but the property was not seen to fail",
                      {"theorem_or_correspondence": "Model.Reflect.check_reflect", "case": d}, False)


def handle_prop_fail(rep, which, case, out):
    d = {"kind": which, "lower": out.get("lo", 0.0).hex() if which == "bnd" else None,
         "upper": out.get("hi", 0.0).hex() if which == "bnd" else None,
         "sample": out["s"].hex(), "sigma": out["sigma"].hex(), "z": str(case["z"])}
    y, x = fr(out["y"]), out["x"]
    if which == "bnd":
        bad = oracle_point(fr(out["lo"]), fr(out["hi"]), x, y)
    else:
        bad = [] if (y >= 0 and y == abs(x)) else [f"abs_proposal returned {float(y)!r} for the raw draw {float(x)!r}"]
    if bad:
        rep.violation(f"C04/{which}_proposal/property", f"Parameter.{'boundary' if which == 'bnd' else 'abs'}"
                      f"_proposal: {bad[0]}", {"case": d}, True)
    else:
        rep.violation(f"C04/{which}_proposal/correspondence", "proposal and model disagree, but the property "
                      "was not seen to fail", {"theorem_or_correspondence": "Model.Reflect.check_gibbs_fold / check_abs",
                                               "case": d}, False)


def handle_leap_fail(rep, case, out):
    d = {"kind": "leapfrog", **{a: (str(b) if not isinstance(b, (int, list, type(None))) else b)
                                for a, b in case.items()}}
    bad = oracle_leap(case, out)
    if bad:
        rep.violation("C04/leapfrog/property", "bounded_leapfrog (no force): " + bad[0], {"case": d}, True)
    else:
        rep.violation("C04/leapfrog/correspondence", "bounded_leapfrog and the model disagree, but the property "
                      "was not seen to fail", {"theorem_or_correspondence": "Model.Reflect.check_leapfrog",
                                               "case": d}, False)


# ------------------------------------------------------------------ replay
def replay(path):
    d = json.load(open(path))
    rp = d["replay"]
    if "case" not in rp:
        print("replay names a broken theorem / correspondence:", rp.get("theorem_or_correspondence"))
        return 1
    c = rp["case"]
    kind = c.get("kind")
    if kind == "reflect":
        lo = [float.fromhex(v) for v in c["lower"]]
        hi = [float.fromhex(v) for v in c["upper"]]
        th = [float.fromhex(v) for v in c["theta"]]
        bad, pos, pos_m, mom = oracle_reflect_arrays(lo, hi, th)
        if not bad:
            o = outside(pos, np.array(lo), np.array(hi))
            bad = ["outside by more than 4 ulp"] if len(o) else []
        print("Bounds(lower, upper).reflect(theta) =", pos, " reflect_momenta =", pos_m, mom)
    elif kind in ("selector", "chain_selector"):
        ops = [tuple(o) for o in c["ops"]]
        if kind == "selector":
            bad, info = oracle_selector(ops)
            print("after", pretty(ops), "->", info)
        else:
            _, bad, _ = observe_chain(ops, 1)
            print("after", pretty(ops), "on GibbsChain parameter 1")
    elif kind in ("bnd", "abs"):
        P = impl()["Parameter"]
        p = P(value=float.fromhex(c["sample"]), sigma=float.fromhex(c["sigma"]))
        z = Fraction(c["z"])
        p.rng = ScriptedRNG(0, tape=[z])
        x = fr(p.samples[-1]) + fr(p.sigma) * z
        if kind == "bnd":
            lo, hi = float.fromhex(c["lower"]), float.fromhex(c["upper"])
            p.set_boundaries(lo, hi)
            y = float(p.boundary_proposal())
            bad = oracle_point(fr(lo), fr(hi), x, fr(y))
        else:
            y = float(p.abs_proposal())
            bad = [] if fr(y) == abs(x) else [f"abs_proposal returned {y!r} for raw draw {float(x)!r}"]
        print("proposal returned", y)
    elif kind == "leapfrog":
        case = {"g": int(c["g"]), "e": int(c["e"]), "im_pow": c["im_pow"], "steps": int(c["steps"]),
                "lo": c["lo"], "w": c["w"], "t0": c["t0"], "r0": c["r0"]}
        out = run_leap(case)
        print("bounded_leapfrog returned", out.get("t"), out.get("r"))
        bad = oracle_leap(case, out) if out["status"] == "ok" else [out["error"]]
    elif kind == "life":
        cfg = SC.undescribe(c["cfg"])
        with warnings.catch_warnings():
            warnings.simplefilter("ignore")
            _, _, bad = run_life(cfg, list(c["ops"]))
        print(f"{CLASS_OF[cfg['kind']]}(bounds={cfg['bounds']}) through the history {''.join(c['ops'])} "
              "(S = one step, L = save -> load)")
    elif kind == "run":
        cfg = c["cfg"]
        r = C.rng_for(PROP, "replay")
        if cfg["kind"] == "gibbs":
            pts, samples, lo, hi, _ = run_gibbs_limits(r, cfg)
        else:
            pts, samples, lo, hi, _ = run_sampler(cfg["kind"], r, cfg)
        bad = check_run(pts, samples, lo, hi)
    else:
        print("unknown replay kind", kind)
        return 1
    print("property failures:", bad)
    return 1 if bad else 0
