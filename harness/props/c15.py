"""C15 -- advancing a sampler adds exactly the requested number of samples.

Theorems: coq/theories/Properties/C15.v about Model/Advance.v (every m, every
call sequence, whatever take_step draws; pools; the ensemble; the timed run for
every cost per step and every deadline).  Tie to the code, all compared inside
Coq (`vm_compute` on coq/gen/C15/*.v):
  * stub chains (a MarkovChain subclass whose take_step appends its call counter)
    and real GibbsChain / PcaChain / HamiltonianChain objects with scripted
    generators are advanced by sequences of advance(m) / take_step() with m dense
    in 0..350 plus large values; chain_length, the number of stored samples and
    log-probabilities (and for the stub the newest values) after every call;
  * real EnsembleSampler objects (scripted generator): advance(iterations)
    sequences including 0 on a fresh sampler;
  * run_for with a ScriptedClock patched into inference.mcmc.base.time: the stub's
    (or a real chain's wrapped) take_step ticks the clock by 2^-20 s ... 600 s, a
    cap on steps / clock calls turns a run_for that does not return into an
    observation; the (steps taken, time) pair at every loop check is compared
    with the model's trace exactly (also for EnsembleSampler.run_for, where one step
    stores n_walkers samples);
  * ChainPool with real worker processes against deep copies advanced serially;
  * INTERRUPTED calls (Properties/C15Steps.v about Model/AdvanceSteps.v; lib/c15steps.py): real
    Gibbs / Metropolis / PCA / HMC / ensemble samplers are driven through histories of take_step /
    advance calls in which chosen evaluations of the posterior or its gradient raise (every
    evaluation of a step in turn, later steps of an advance, the grouped part and the remainder of
    advance(m > 100), two interruptions in one history); the length counters as seen from inside
    EVERY evaluation and after every call (returned or raised) are compared with the model.
On a disagreement the property itself (counters) is evaluated on the implementation.
"""
from __future__ import annotations

import contextlib
import copy
import json
import os
import sys
import warnings
from fractions import Fraction

import numpy as np

from lib import common as C
from lib import c15steps as IS
from lib.scripted import ScriptedRNG

from inference.mcmc.base import MarkovChain                      # noqa: E402
from inference.mcmc.utilities import ChainProgressPrinter        # noqa: E402

PROP = "C15"
THEOREMS = ["C15_advance_adds_m", "C15_advance_is_m_steps", "C15_any_call_sequence",
            "C15_lengths_agree", "C15_pool_eq_serial", "C15_pool_each_chain",
            "C15_ensemble_adds_m_walkers", "C15_ensemble_any_call_sequence",
            "C15_run_for_progress", "C15_run_for_fuel_irrelevant",
            "C15_run_for_stalls_refuted", "C15_run_for_idles_refuted",
            "C15_ensemble_advance0_refuted"]

STEP_THEOREMS = ["C15_interrupted_lengths_agree", "C15_interrupted_call_adds_whole_steps",
                 "C15_evaluations_see_agreeing_lengths", "C15_ensemble_iterations_counted",
                 "C15_nonatomic_step_same_uninterrupted", "C15_nonatomic_step_refuted",
                 "C15_ensemble_iterations_outrun_samples"]

HEADER = """From Coq Require Import List ZArith QArith.
From IT Require Import Model.Advance.
Import ListNotations.
Close Scope Q_scope.
Open Scope Z_scope.
"""

CLOCK_START = float(2 ** 20)
GRID = Fraction(1, 2 ** 30)          # every cost / budget is a multiple of this: float clock arithmetic is exact


class Runaway(Exception):
    """run_for did not return within the cap on steps / clock calls."""


# ---------------------------------------------------------------- stub chain
class StubChain(MarkovChain):
    """take_step appends the number of samples stored so far (a call counter)."""

    def __init__(self, n0=1, display=False):
        self.samples = [[k] for k in range(n0)]
        self.probs = list(range(n0))
        self.chain_length = n0
        self.n_parameters = 1
        self.calls = 0
        self.display_progress = display
        self.ProgressPrinter = ChainProgressPrinter(display=display, leading_msg="stub:")
        self.clock = None
        self.costs = None
        self.cap = None

    def take_step(self):
        k = self.chain_length
        self.samples.append([k])
        self.probs.append(k)
        self.chain_length += 1
        if self.clock is not None:
            self.clock.tick(self.costs[self.calls % len(self.costs)])
        self.calls += 1
        if self.cap is not None and self.calls > self.cap:
            raise Runaway(f"more than {self.cap} steps")

    def get_parameter(self, index, burn=1, thin=1):
        return np.array([s[index] for s in self.samples[burn::thin]])

    def get_probabilities(self, burn=1, thin=1):
        return np.array(self.probs[burn::thin])

    def get_sample(self, burn=1, thin=1):
        return np.array(self.samples[burn::thin])


def quad_post(theta):
    t = np.asarray(theta, dtype=float)
    return -0.5 * float(np.sum((t - 0.25) ** 2))


def quad_grad(theta):
    return -(np.asarray(theta, dtype=float) - 0.25)


def make_real(kind, seed, display=False):
    from inference.mcmc import GibbsChain, PcaChain, HamiltonianChain
    start = np.array([0.5, -0.25])
    if kind == "Gibbs":
        ch = GibbsChain(posterior=quad_post, start=start, widths=[0.5, 0.5], display_progress=display)
    elif kind == "Pca":
        ch = PcaChain(posterior=quad_post, start=start, widths=[0.5, 0.5], display_progress=display)
    elif kind == "Hmc":
        ch = HamiltonianChain(posterior=quad_post, start=start, grad=quad_grad, epsilon=0.125,
                              display_progress=display)
        ch.steps = 3
    else:
        raise ValueError(kind)
    ch.rng = ScriptedRNG(seed)
    if hasattr(ch, "params"):
        for i, p in enumerate(ch.params):
            p.rng = ScriptedRNG(seed * 31 + i + 1)
    return ch


def counts(ch):
    """(chain_length, stored samples, stored log-probabilities) of any chain."""
    if isinstance(ch, StubChain):
        return (ch.chain_length, len(ch.samples), len(ch.probs))
    if hasattr(ch, "params"):
        ls = {len(p.samples) for p in ch.params}
        return (ch.chain_length, ls.pop() if len(ls) == 1 else -1, len(ch.probs))
    if hasattr(ch, "walker_positions"):
        return ens_counts(ch)[:3]
    return (ch.chain_length, len(ch.theta), len(ch.probs))


def state_of(ch):
    """Everything that must coincide between a pooled and a serially advanced chain."""
    if isinstance(ch, StubChain):
        return (ch.chain_length, ch.samples, ch.probs)
    if hasattr(ch, "params"):
        return (ch.chain_length, [list(map(float, p.samples)) for p in ch.params],
                list(map(float, ch.probs)), [float(p.sigma) for p in ch.params],
                [[str(v) for _, v in rng_log(p.rng)[-3:]] for p in ch.params], len(rng_log(ch.rng)))
    return (ch.chain_length, [list(map(float, t)) for t in ch.theta], list(map(float, ch.probs)),
            len(rng_log(ch.rng)))


def rng_log(rng):
    """The draws recorded by the chain's (logging) generator.  A chain that comes back holding some other
    generator -- one the code under test substituted for the chain's own -- has no record: that is a
    difference from the serially advanced chain (whose generator state the property speaks of), not a crash."""
    log = getattr(rng, "log", None)
    return log if log is not None else [("generator replaced", type(rng).__name__)] * 10 ** 6


@contextlib.contextmanager
def silence():
    """Progress messages go to /dev/null (also for worker processes forked inside)."""
    sys.stdout.flush()
    saved = os.dup(1)
    devnull = os.open(os.devnull, os.O_WRONLY)
    os.dup2(devnull, 1)
    try:
        yield
    finally:
        sys.stdout.flush()
        os.dup2(saved, 1)
        os.close(saved)
        os.close(devnull)


# ---------------------------------------------------------------- advance sequences
def apply_ops(ch, ops):
    """ops: m >= 0 -> advance(m), -1 -> take_step().  Observation after every op,
    or ('exception', repr) at the first failing op."""
    obs = []
    for z in ops:
        try:
            if z < 0:
                ch.take_step()
            else:
                ch.advance(z)
        except Exception as e:
            obs.append(("exception", repr(e)))
            break
        cl, ns, npb = counts(ch)
        newest = [s[0] for s in ch.samples[-5:]][::-1] if isinstance(ch, StubChain) else []
        obs.append((cl, ns, npb, newest))
    return obs


def oracle_ops(n0, ops, obs, stub):
    """C15 by counters: after every call the three counts equal n0 + steps requested so far."""
    bad, total = [], n0
    for z, o in zip(ops, obs):
        total += 1 if z < 0 else z
        what = "take_step()" if z < 0 else f"advance({z})"
        if o[0] == "exception":
            return [f"{what} raised {o[1]}"]
        cl, ns, npb, newest = o
        if (cl, ns, npb) != (total, total, total):
            bad.append(f"after {what}: chain_length={cl}, stored samples={ns}, stored log-probabilities={npb}; "
                       f"expected {total} each")
            break
        if stub and newest != list(range(total - 1, max(total - 6, -1), -1))[:len(newest)]:
            bad.append(f"after {what}: the newest samples are {newest}: take_step was not called once per step in order")
            break
    if not bad and len(obs) < len(ops):
        bad.append("sequence stopped early")
    return bad


def coq_obs(o):
    cl, ns, npb, newest = o
    return f"({cl}, {ns}, {npb}, {C.clist([C.cz(v) for v in newest])})"


# ---------------------------------------------------------------- ensemble
def make_ensemble(nw, seed, display=False):
    from inference.mcmc import EnsembleSampler
    pos = np.array([[float(((w + 1) * (w + 2 * j + 1) * (j + 3)) % 17 - 8) / 8.0 for j in range(2)]
                    for w in range(nw)])
    es = EnsembleSampler(posterior=quad_post, starting_positions=pos, display_progress=display)
    es.rng = ScriptedRNG(seed)
    return es


def ens_counts(es):
    return (int(es.chain_length), 0 if es.sample is None else int(np.asarray(es.sample).shape[0]),
            0 if es.sample_probs is None else int(np.asarray(es.sample_probs).size), int(es.n_iterations))


def apply_ens(es, its):
    obs, dead = [], False
    for m in its:
        if dead:
            obs.append(None)
            continue
        try:
            es.advance(m)
            obs.append(ens_counts(es))
        except Exception as e:
            obs.append(("exception", repr(e)))
            dead = True
    return obs


def oracle_ens(nw, its0, its, obs):
    bad, total = [], its0
    for m, o in zip(its, obs):
        if o is None:
            break
        if o[0] == "exception":
            return [f"advance({m}) after {total} stored iterations raised {o[1]}"]
        total += m
        if o != (total * nw, total * nw, total * nw, total):
            bad.append(f"after advance({m}): (chain_length, rows, log-probabilities, n_iterations) = {o}, "
                       f"expected {(total * nw, total * nw, total * nw, total)}")
            break
    return bad


# ---------------------------------------------------------------- run_for
class LoggedClock:
    """time() replacement: every call costs per_call seconds; ticks come from take_step.
    Tracks the exact rational time next to the float one."""

    def __init__(self, per_call, chain, start_len, cap_calls):
        self.t = CLOCK_START
        self.exact = Fraction(CLOCK_START)
        self.per_call = per_call
        self.chain, self.start_len, self.cap = chain, start_len, cap_calls
        self.log = []
        self.inexact = False

    def tick(self, dt):
        self.t += float(dt)
        self.exact += Fraction(dt)

    def __call__(self):
        self.tick(self.per_call)
        if Fraction(self.t) != self.exact:
            self.inexact = True
        self.log.append((self.chain.chain_length - self.start_len, self.exact))
        if len(self.log) > self.cap:
            raise Runaway(f"more than {self.cap} evaluations of the loop")
        return self.t


def run_timed(chain, costs, per_call, kwargs, cap_steps, cap_calls, wrap=False):
    """Run chain.run_for(**kwargs) against a scripted clock.  Returns dict."""
    import inference.mcmc.base as base
    clock = LoggedClock(per_call, chain, chain.chain_length, cap_calls)
    if wrap:   # a real chain: its own take_step, followed by the tick
        orig, state = getattr(chain, "take_step", None), {"calls": 0}

        def stepped():
            orig()
            clock.tick(costs[state["calls"] % len(costs)])
            state["calls"] += 1
            if state["calls"] > cap_steps:
                raise Runaway(f"more than {cap_steps} steps")
        if orig is not None:      # (the pinned EnsembleSampler has no take_step: run_for itself will say so)
            chain.take_step = stepped
    else:
        chain.clock, chain.costs, chain.cap = clock, costs, cap_steps
    saved = base.time
    base.time = clock
    status, err = "ok", None
    try:
        with warnings.catch_warnings():
            warnings.simplefilter("ignore")
            chain.run_for(**kwargs)
    except Runaway as e:
        status, err = "runaway", str(e)
    except Exception as e:
        status, err = "exception", repr(e)
    finally:
        base.time = saved
        if wrap:
            chain.__dict__.pop("take_step", None)
        else:
            chain.clock = None
    return {"status": status, "error": err, "trace": clock.log, "inexact": clock.inexact,
            "final_counts": counts(chain)}


def run_time_of(kwargs):
    """run_time exactly as base.py:60 computes it."""
    return ((kwargs.get("days", 0) * 24.0 + kwargs.get("hours", 0)) * 60.0 + kwargs.get("minutes", 0)) * 60.0


def oracle_run_for(costs, per_call, kwargs, out):
    """C15's timed-run clause on the observed trace: returns, every pass takes >= 1
    whole step, it stops at the first check at or after the deadline."""
    if out["status"] == "runaway":
        steps = out["trace"][-1][0] if out["trace"] else 0
        return [f"run_for did not return ({out['error']}); {steps} steps taken, "
                f"scripted time {float(out['trace'][-1][1] - out['trace'][0][1]) if out['trace'] else 0.0} s "
                f"of a budget of {run_time_of(kwargs)} s"]
    if out["status"] != "ok":
        return [f"run_for raised {out['error']}"]
    tr = out["trace"]
    bad = []
    end = tr[0][1] + Fraction(run_time_of(kwargs))
    for j in range(1, len(tr)):
        if tr[j][0] - tr[j - 1][0] < 1:
            bad.append(f"loop pass {j} took {tr[j][0] - tr[j - 1][0]} steps (steps taken so far {tr[j][0]}, "
                       f"{float(end - tr[j - 1][1])} s of the budget left)")
            break
        if tr[j - 1][1] >= end:
            bad.append(f"loop pass {j} started after the deadline")
            break
    if tr[-1][1] < end:
        bad.append("returned before the time budget was used up")
    return bad


def cq_exact(x):
    f = Fraction(x)
    return f"({f.numerator} # {f.denominator})%Q"


# ---------------------------------------------------------------- generation
def gen_op_lists(r, values, chunk=4):
    vals = list(values)
    r.shuffle(vals)
    out = []
    for i in range(0, len(vals), chunk):
        ops = vals[i:i + chunk]
        for _ in range(r.randint(0, 2)):
            ops.insert(r.randrange(len(ops) + 1), -1)
        out.append(ops)
    return out


def gen_run_for(r, tier):
    """list of dict(costs, per_call, kwargs)"""
    P = lambda k: Fraction(1, 2 ** k)
    cases = []

    def budget(seconds):
        """kwargs whose run_time is about `seconds`, on the dyadic grid."""
        seconds = Fraction(seconds)
        days = hours = 0
        if seconds >= 2 * 86400 and r.random() < 0.7:
            days = int(seconds // 86400)
            seconds -= days * 86400
        if seconds >= 2 * 3600 and r.random() < 0.7:
            hours = int(seconds // 3600)
            seconds -= hours * 3600
        minutes = Fraction(round(seconds / 60 / GRID)) * GRID
        m = float(minutes)
        assert Fraction(m) == minutes
        kw = {}
        if days:
            kw["days"] = days
        if hours:
            kw["hours"] = hours
        kw["minutes"] = int(m) if m == int(m) and r.random() < 0.5 else m
        return kw

    # slow steps: 1 s ... 10 min per step (the pinned interval reaches 0)
    for c in [1, 2, 5, 64, 600, Fraction(3, 2), 37]:
        for _ in range(2 if tier == "quick" else 6):
            per_call = r.choice([0, 0, P(20), P(3), 5])
            n_steps = r.randint(21, 400)
            cases.append({"costs": [Fraction(c)], "per_call": Fraction(per_call), "kwargs": budget(Fraction(c) * n_steps)})
    # medium: 1 ms ... 1/2 s per step
    for c in [P(10), P(7), P(4), P(2), P(1), Fraction(3, 8)]:
        for _ in range(2 if tier == "quick" else 6):
            per_call = r.choice([0, P(20), P(10), P(3)])
            cases.append({"costs": [c], "per_call": Fraction(per_call),
                          "kwargs": budget(Fraction(r.randint(1, 160), 8))})
    # fast: about a microsecond per step; few passes, each of them long
    for c in [P(20), P(18), 3 * P(20)]:
        for _ in range(1 if tier == "quick" else 3):
            per_call = P(6)
            cases.append({"costs": [c], "per_call": per_call,
                          "kwargs": budget(per_call * r.randint(0, 3) + P(8))})
    # varying cost per step
    for _ in range(6 if tier == "quick" else 30):
        costs = [Fraction(r.choice([P(10), P(4), P(1), 1, 2, 7, 90, Fraction(5, 4)])) for _ in range(r.randint(2, 5))]
        per_call = Fraction(r.choice([0, P(10), P(2), 1]))
        cases.append({"costs": costs, "per_call": per_call,
                      "kwargs": budget(sum(costs) / len(costs) * r.randint(0, 300))})
    # zero and tiny budgets
    for _ in range(3):
        cases.append({"costs": [Fraction(r.choice([1, 3, P(5)]))], "per_call": Fraction(r.choice([0, P(4)])),
                      "kwargs": r.choice([{}, {"minutes": 0}, {"minutes": float(GRID * 64)}, {"hours": 0, "days": 0}])})
    return cases


# ---------------------------------------------------------------- interrupted call histories
def interrupted_histories(rep, tier):
    """Histories of take_step / advance calls with evaluations of the posterior that raise.
    Returns the number of calls validated against the model."""
    r = C.rng_for(PROP, "interrupted")
    cases = []          # dict(cfg, drv, calls, init, records, bad_at, bad)
    for cfg, drv, calls, tag in IS.plan(r, tier):
        name = IS.NAME[cfg["kind"]]
        if calls is None:
            rep.violation(f"C15/interrupted/{name}/history-exception", f"{name}: {tag}",
                          {"theorem_or_correspondence": "Model.AdvanceSteps (histories of calls)",
                           "case": {"config": IS.SC.describe(cfg)}}, False)
            continue
        try:
            init, records, resolved = drv.drive(calls)
        except IS.Unsteady as e:
            rep.violation(f"C15/interrupted/{name}/history-exception", f"{name}: {e}",
                          {"theorem_or_correspondence": "Model.AdvanceSteps (histories of calls)",
                           "case": {"config": IS.SC.describe(cfg), "calls": calls}}, False)
            continue
        bad_at, bad = IS.oracle(cfg["kind"], IS.per_step_of(cfg), init, records)
        cases.append({"cfg": cfg, "drv": drv, "calls": resolved, "init": init, "records": records,
                      "bad_at": bad_at, "bad": bad, "tag": tag})
        rep.count(f"interrupted:sampler={name}")
        rep.count(f"interrupted:{tag}")
        for rc in records:
            if rc["call"]["crash"] and not rc["returned"]:
                rep.count(f"interrupted:exception={rc['call']['exc']}")
                rep.count("interrupted:calls cut short")
        rep.count("interrupted:calls", len(records))
        rep.case(("interrupted", name, cfg["rng_seed"], [sorted(c.items()) for c in resolved]))
    for cs in cases:
        if len(rep.samples) < 6 and cs["cfg"]["n"] >= 2 and cs["cfg"]["kind"] == "gibbs" and cs["tag"] == "take_step:inside":
            rep.sample({"sampler": IS.NAME[cs["cfg"]["kind"]], "n_parameters": cs["cfg"]["n"],
                        "history": [IS.describe_call(c) for c in cs["calls"]],
                        "counters_seen_by_the_evaluations_of_the_interrupted_call":
                            [rc["seen"] for rc in cs["records"] if not rc["returned"]][:1],
                        "counters_after_each_call": [rc["after"] for rc in cs["records"]]}, limit=6)
            break

    # correspondence inside Coq
    terms = [IS.coq_icase(cs["cfg"], cs["init"], cs["records"]) for cs in cases]
    files, spans, cur, cur_sz, start = [], [], [], 0, 0
    for ci, txt in enumerate(terms):
        cur.append(txt)
        cur_sz += len(txt)
        if cur_sz > 200_000 or ci == len(terms) - 1:
            body = "Definition icases : list icase :=\n " + C.clist(cur, ";\n ") + "."
            files.append(C.write_case_file(PROP, f"interrupted_{len(files)}", IS.HEADER, body,
                                           ["failing check_icase icases 0"]))
            spans.append((start, len(cur)))
            cur, cur_sz, start = [], 0, ci + 1
    n_checked, failing = 0, []
    for p, (st0, cnt), (ok, res, log) in zip(files, spans, C.run_case_files(files, jobs=14)):
        if not ok or 0 not in res:
            rep.obligation(False)
            rep.violation("C15/correspondence-run", f"case file {p.name} did not evaluate",
                          {"theorem_or_correspondence": f"correspondence file {p.name}", "log": log}, False)
            continue
        rep.obligation(True)
        n_checked += sum(len(cases[ci]["records"]) for ci in range(st0, st0 + cnt))
        failing += [st0 + j for j in res[0]]
    rep.coverage["interrupted_call_histories"] = len(cases)
    rep.coverage["interrupted_calls_validated_against_impl"] = n_checked
    rep.coverage["interrupted_call_disagreements"] = len(failing)

    def replay_of(cs, upto):
        c = {"interrupted_history": True, "sampler": IS.NAME[cs["cfg"]["kind"]], "n_parameters": cs["cfg"]["n"],
             "config": IS.SC.describe(cs["cfg"]), "calls": cs["calls"][:upto + 1],
             "history": [IS.describe_call(x) for x in cs["calls"][:upto + 1]],
             "counters_after_each_call (stored values per list, log-probabilities, chain_length, n_iterations)":
                 [rc["after"] for rc in cs["records"][:upto + 1]]}
        return c

    def shrink(cs):
        """a shorter history of the same configuration that still fails: a single take_step, then the failing
        call alone, each at every crash point; else the history as it was generated, cut after the failing call"""
        fc = cs["calls"][cs["bad_at"]]
        if not fc["crash"] or (cs["bad_at"] == 0 and fc["entry"] == "take_step"):
            return cs
        cands = [dict(fc, entry="take_step", m=1)] + ([fc] if cs["bad_at"] > 0 and fc["entry"] != "take_step" else [])
        try:
            for cand in cands:
                es = cs["drv"].scout([], IS.n_steps(cand))
                for k in range(1, min(sum(es), 400) + 1):
                    init, records, resolved = cs["drv"].drive([dict(cand, crash=k)])
                    at, bad = IS.oracle(cs["cfg"]["kind"], IS.per_step_of(cs["cfg"]), init, records)
                    if bad:
                        return dict(cs, calls=resolved, init=init, records=records, bad_at=at, bad=bad)
        except Exception:        # noqa: BLE001 - shrinking is best effort
            pass
        return cs

    # failing-input search: the counters say whether the property fails
    seen = set()
    order = sorted(range(len(cases)), key=lambda ci: (ci not in failing, len(terms[ci])))
    for ci in order:
        cs = cases[ci]
        name = IS.NAME[cs["cfg"]["kind"]]
        if cs["bad"]:
            key = f"C15/interrupted/{name}"
            if key in seen:
                continue
            seen.add(key)
            cs = shrink(cs)
            rep.violation(key, f"{name} ({cs['cfg']['n']} parameters): " + "; ".join(cs["bad"][:2]),
                          {"case": replay_of(cs, cs["bad_at"])}, True)
    for ci in failing:
        cs = cases[ci]
        name = IS.NAME[cs["cfg"]["kind"]]
        if f"C15/interrupted/{name}" in seen or f"C15/interrupted/{name}/correspondence" in seen:
            continue
        seen.add(f"C15/interrupted/{name}/correspondence")
        rep.violation(f"C15/interrupted/{name}/correspondence",
                      f"{name}: the length counters seen from inside the evaluations of a call, or after it, are not "
                      f"those of the model (which stores nothing before the last evaluation of a step has returned), "
                      f"but the counters were not seen to disagree after a call",
                      {"theorem_or_correspondence": "Model.AdvanceSteps.icase_failures (C15_evaluations_see_agreeing_lengths)",
                       "case": replay_of(cs, len(cs["calls"]) - 1)}, False)
    return n_checked


# ---------------------------------------------------------------- the run
def run(rep: C.Report, tier: str) -> int:
    r = C.rng_for(PROP, "cases")
    C.clean_gen(PROP)
    C.prove_and_audit(rep, PROP, THEOREMS)
    try:      # histories with interrupted calls (Properties/C15Steps.v)
        _a = C.coq_audit(PROP + "_steps", STEP_THEOREMS, "IT.Properties.C15Steps")
        rep.obligation(True, len(STEP_THEOREMS))
        rep.coverage["steps_audit"] = _a
    except C.ProofFailure as _e:
        rep.obligation(False, len(STEP_THEOREMS))
        rep.violation("C15/proof", f"proof obligation no longer checks: {_e.what}",
                      {"theorem_or_correspondence": _e.what, "log": _e.log[-1000:]}, False)
    quick = tier == "quick"

    coq_cases = []          # (key, description, coq text, oracle result list)
    direct = []             # disagreements found without Coq (exceptions): (key, what, replay)

    # ---- 1. stub chains: m dense in 0..350, large values, repeated calls
    big = [1000, 1234, 4999, 10007] + ([100000] if quick else [100000, 250001, 1000003])
    seqs = gen_op_lists(r, range(0, 351)) + gen_op_lists(r, range(0, 351), chunk=7) + [[b, r.randint(0, 350)] for b in big]
    seqs += [[0], [0, 0, 0], [-1, 0, -1], [100], [99, 1], [101], [200, 0, 300]]
    for ops in seqs:
        n0 = r.choice([1, 1, 2, 5, 0])
        display = r.random() < 0.15
        ch = StubChain(n0, display=display)
        with silence():
            obs = apply_ops(ch, ops)
        bad = oracle_ops(n0, ops, obs, True)
        rep.count("advance:stub")
        for z in ops:
            rep.count("m=0" if z == 0 else "take_step" if z < 0 else "m<100" if z < 100 else
                      "m%100=0" if z % 100 == 0 else "m<=350" if z <= 350 else "m>350")
        rep.case(("stub", n0, ops))
        desc = {"chain": "stub", "n0": n0, "ops": ops, "display_progress": display, "impl": obs}
        if any(o[0] == "exception" for o in obs):
            direct.append(("C15/advance/stub", bad[0], desc))
            continue
        coq_cases.append(("C15/advance/stub", desc,
                          f"CStub {C.cnat(n0)} {C.clist([C.cz(z) for z in ops])} {C.clist([coq_obs(o) for o in obs])}", bad))
        if len(rep.samples) < 2:
            rep.sample(desc)

    # ---- 2. real chains with scripted generators
    real_vals = sorted(set(r.sample(range(0, 351), 36 if quick else 120)) | {0, 1, 99, 100, 101, 199, 200, 350})
    for kind in ("Gibbs", "Pca", "Hmc"):
        for ops in gen_op_lists(r, real_vals, chunk=5) + ([[1000]] if kind != "Hmc" or not quick else []):
            ch = make_real(kind, r.randrange(10 ** 6), display=False)
            obs = apply_ops(ch, ops)
            bad = oracle_ops(1, ops, obs, False)
            rep.count(f"advance:{kind}")
            rep.case((kind, ops))
            desc = {"chain": kind, "n0": 1, "ops": ops, "impl": obs}
            if any(o[0] == "exception" for o in obs):
                direct.append((f"C15/advance/{kind}", bad[0], desc))
                continue
            coq_cases.append((f"C15/advance/{kind}", desc,
                              f"CReal 1%nat {C.clist([C.cz(z) for z in ops])} {C.clist([coq_obs(o) for o in obs])}", bad))

    # ---- 3. ensemble
    ens_seqs = [[0], [0, 0], [0, 3, 0, 2], [5], [1, 0, 7], [2, 2, 2], [0, 1], [10, 0], [3]]
    ens_seqs += [[r.randint(0, 12) for _ in range(r.randint(1, 4))] for _ in range(8 if quick else 40)]
    for its in ens_seqs:
        nw = r.randint(3, 8)
        its0 = r.choice([0, 0, 0, 1, 4])
        es = make_ensemble(nw, r.randrange(10 ** 6))
        pre = None
        if its0:
            try:
                es.advance(its0)
            except Exception as e:
                pre = repr(e)
        obs = apply_ens(es, its) if pre is None else [("exception", pre)]
        bad = oracle_ens(nw, its0, its, obs)
        rep.count("ensemble:" + ("fresh" if its0 == 0 else "advanced"))
        if its0 == 0 and its[0] == 0:
            rep.count("ensemble:advance(0) on a fresh sampler")
        rep.case(("ens", nw, its0, its))
        desc = {"chain": "EnsembleSampler", "n_walkers": nw, "iterations_before": its0, "advance_calls": its, "impl": obs}
        cobs = C.clist(["None" if (o is None or o[0] == "exception") else f"(Some ({o[0]}, {o[1]}, {o[2]}, {o[3]}))" for o in obs])
        coq_cases.append(("C15/ensemble/advance" + ("-0-fresh" if (its0 == 0 and its[0] == 0) else ""), desc,
                          f"CEns {C.cnat(nw)} {C.cnat(its0)} {C.clist([C.cz(m) for m in its])} {cobs}", bad))

    # ---- 4. run_for against a scripted clock
    CAP_STEPS, CAP_CALLS, FUEL = 400_000, 3000, 3000
    rf_cases = gen_run_for(r, tier)
    for k, rc in enumerate(rf_cases):
        use_real = (k % 5 == 4 or k % 7 == 3) and max(rc["costs"]) >= Fraction(1, 1024)
        w = 1
        if use_real and k % 7 == 3:
            w = r.randint(3, 6)
            chain = make_ensemble(w, r.randrange(10 ** 6))
            if r.random() < 0.5:
                try:
                    chain.advance(2)
                except Exception:
                    pass
            who = f"EnsembleSampler/{w}"
        elif use_real:
            chain = make_real(r.choice(["Gibbs", "Pca", "Hmc"]), r.randrange(10 ** 6))
            who = type(chain).__name__
        else:
            chain = StubChain(r.choice([1, 3]), display=False)
            who = "stub"
        out = run_timed(chain, [float(c) for c in rc["costs"]], float(rc["per_call"]), rc["kwargs"],
                        CAP_STEPS, CAP_CALLS, wrap=use_real)
        bad = oracle_run_for(rc["costs"], rc["per_call"], rc["kwargs"], out)
        c0 = float(max(rc["costs"]))
        rep.count("run_for:cost " + ("<=1e-5s" if c0 <= 1e-5 else "<=0.01s" if c0 <= 0.01 else "<1s" if c0 < 1 else "1s..60s" if c0 <= 60 else ">60s"))
        rep.count(f"run_for:{'stub' if not use_real else 'ensemble' if w > 1 else 'real chain'}")
        rep.case(("run_for", rc["costs"], rc["per_call"], sorted(rc["kwargs"].items())))
        rt = run_time_of(rc["kwargs"])
        desc = {"chain": who, "costs_s": [str(c) for c in rc["costs"]], "time_call_cost_s": str(rc["per_call"]),
                "run_for_kwargs": rc["kwargs"], "run_time_s": rt, "status": out["status"], "error": out["error"],
                "passes": len(out["trace"]) - 1, "steps_taken": out["trace"][-1][0] if out["trace"] else None}
        if out["inexact"]:
            rep.count("run_for:dropped (float clock not exact)")
            continue
        if out["status"] == "exception":
            direct.append(("C15/run_for" + ("/EnsembleSampler" if w > 1 else ""), bad[0], desc))
            continue
        cl, ns, npb = out["final_counts"]
        if out["status"] == "ok" and not (cl == ns == npb):
            direct.append(("C15/run_for/lengths", f"after run_for chain_length={cl}, samples={ns}, log-probabilities={npb}", desc))
        if out["status"] == "ok":
            # int(steps / elapsed) is a float division: must equal the exact floor (else drop the case)
            tr = out["trace"]
            if any(int(s / float(t - tr[0][1])) != (Fraction(s) / (t - tr[0][1])).__floor__() for s, t in tr[1:] if t > tr[0][1]):
                rep.count("run_for:dropped (float rate not exact)")
                continue
            obs = "(Some " + C.clist([f"({s}, {cq_exact(t)})" for s, t in tr]) + ")"
        else:
            obs = "None"
        coq_cases.append(("C15/run_for" + ("/slow-step" if min(rc["costs"]) >= 1 else ""), desc,
                          f"CRunFor {C.cnat(w)} {C.clist([cq_exact(c) for c in rc['costs']])} {cq_exact(rc['per_call'])} "
                          f"{cq_exact(CLOCK_START + float(rc['per_call']))} {cq_exact(rt)} {C.cnat(FUEL)} {obs}", bad))
        if len(rep.samples) < 4 and out["status"] == "ok" and len(out["trace"]) > 3:
            rep.sample(dict(desc, first_checks=[(s, float(t - out["trace"][0][1])) for s, t in out["trace"][:5]]))

    # ---- 5. ChainPool with real processes vs serially advanced deep copies
    from inference.mcmc.parallel import ChainPool
    pool_specs = [("stub", False), ("stub", True), ("Gibbs", False), ("Gibbs", True), ("Hmc", False), ("Pca", True)]
    if not quick:
        pool_specs = pool_specs * 3
    for kind, display in pool_specs:
        size = r.randint(2, 4)
        n = r.choice([0, 7, 100, 123, 250])
        if kind == "stub":
            n0s = [r.randint(0, 6) for _ in range(size)]
            chains = [StubChain(n0, display=display) for n0 in n0s]
        else:
            n0s = [1] * size
            chains = [make_real(kind, r.randrange(10 ** 6), display=display) for _ in range(size)]
            for c in chains[1:]:      # different histories: a few steps before pooling
                for _ in range(r.randint(0, 4)):
                    c.take_step()
            n0s = [c.chain_length for c in chains]
        serial = copy.deepcopy(chains)
        rep.count(f"pool:{kind}/display={display}")
        rep.case(("pool", kind, display, size, n, n0s))
        desc = {"chains": kind, "display_progress": display, "pool_size": size, "n": n, "initial_lengths": n0s}
        pool = None
        try:
            with silence():
                pool = ChainPool(chains)
                pool.advance(n)
                result = pool.chains
                for c in serial:
                    c.advance(n)
        except Exception as e:
            direct.append((f"C15/pool/display_progress={display}",
                           f"ChainPool.advance({n}) on {size} {kind} chains with display_progress={display} raised {e!r}",
                           desc))
            continue
        finally:
            if pool is not None:
                pool.pool.terminate()
                pool.pool.join()
        bad = []
        for i, (a, b) in enumerate(zip(result, serial)):
            if state_of(a) != state_of(b):
                swapped = "" if hasattr(getattr(a, "rng", None), "log") or isinstance(a, StubChain) else \
                    f"; the pooled chain no longer holds its own random generator but a {type(a.rng).__name__}"
                bad.append(f"chain {i} of the pool differs from the same chain advanced serially "
                           f"(lengths {counts(a)} vs {counts(b)}){swapped}")
        if len(result) != size:
            bad.append(f"pool returned {len(result)} chains for {size}")
        obs = []
        for c in result:
            cl, ns, npb = counts(c)
            newest = [s[0] for s in c.samples[-5:]][::-1] if kind == "stub" else []
            obs.append((cl, ns, npb, newest))
        desc["impl"] = obs
        if kind == "stub":
            coq_cases.append(("C15/pool", desc,
                              f"CPool {C.clist([C.cnat(v) for v in n0s])} {n} {C.clist([coq_obs(o) for o in obs])}", bad))
        else:   # real chains: model compares the counts; values pool == serial were compared above
            for n0, o in zip(n0s, obs):
                coq_cases.append(("C15/pool", desc, f"CReal {C.cnat(n0)} [{n}] {C.clist([coq_obs(o)])}", bad))
        if bad:
            direct.append(("C15/pool", "; ".join(bad[:2]), desc))

    # ---- correspondence inside Coq
    files, index = [], []
    CH = 60
    for i in range(0, len(coq_cases), CH):
        chunk = coq_cases[i:i + CH]
        body = "Definition cases : list case :=\n " + C.clist([t for _, _, t, _ in chunk], ";\n ") + "."
        files.append(C.write_case_file(PROP, f"cases_{i // CH}", HEADER, body, ["failing check_case cases 0"]))
        index.append(chunk)
    outs = C.run_case_files(files, jobs=14)
    n_checked, disagreements = 0, []
    for p, chunk, (ok, res, log) in zip(files, index, outs):
        if not ok or 0 not in res:
            rep.obligation(False)
            rep.violation("C15/correspondence-run", f"case file {p.name} did not evaluate",
                          {"theorem_or_correspondence": f"correspondence file {p.name}", "log": log}, False)
            continue
        rep.obligation(True)
        n_checked += len(chunk)
        for j in res[0]:
            disagreements.append(chunk[j])
    # ---- 6. histories with interrupted calls
    n_checked += interrupted_histories(rep, tier)
    rep.coverage["traces_validated_against_impl"] = n_checked
    rep.coverage["correspondence_disagreements"] = len(disagreements) + len(direct)

    # ---- failing-input search: the counters say whether the property fails
    seen = set()
    for key, what, desc in direct:
        if key not in seen:
            seen.add(key)
            rep.violation(key, what, {"case": desc}, True)
    for key, desc, txt, bad in disagreements:
        if key in seen:
            continue
        seen.add(key)
        if bad:
            rep.violation(key, "; ".join(bad[:2]), {"case": desc}, True)
        else:
            rep.violation(key + "/correspondence",
                          "implementation and model disagree, but the counters do not show the property failing",
                          {"theorem_or_correspondence": "Model.Advance.check_case", "case": desc}, False)
    # the oracle also runs on every agreeing case (cheap second opinion, [R])
    for key, desc, txt, bad in coq_cases:
        if bad and key not in seen:
            seen.add(key)
            rep.violation(key, "; ".join(bad[:2]), {"case": desc}, True)

    rep.assumptions = [
        "take_step's bookkeeping (one sample, one log-probability, chain_length + 1) is the model; the values drawn are arbitrary",
        "run_for: the clock is scripted (start 2^20 s, costs and budgets multiples of 2^-30 s) so that float clock arithmetic "
        "and int(steps/elapsed) are exact; cases where they are not are dropped and counted",
        "ChainPool: fork start method, pickling of chains as multiprocessing does it",
        "EnsembleSampler.run_for: one take_step stores n_walkers samples (parameter w of the model)",
        "interrupted calls: user code runs only inside the posterior / its gradient, so an exception can surface only "
        "there (simulated by raising from a hook inside them: ModelFailure(Exception), FloatingPointError, "
        "KeyboardInterrupt); the number of evaluations each step makes is measured on an identically built sampler",
    ]
    return rep.finish(
        level="proof",
        checker_cmd="make -C /verif/coq (coqc 8.16.1, full .vo) + coqc on coq/gen/C15/*.v (vm_compute)",
        trusted_base=C.KERNEL_TB + ["axioms: none (all C15 theorems are closed under the global context)"],
        rule="stub chains: every m in 0..350 twice (sequences of 4 and 7 calls with interleaved take_step) plus "
             "1000..100000(1000003); real Gibbs / PCA / HMC chains with scripted generators: 40(120)+ values of m in "
             "0..350 and 1000; ensemble: 17(49) advance sequences incl. 0 on fresh samplers, 3-8 walkers; run_for: "
             "45(150) scripted-clock runs, 2^-20 s .. 600 s per step, constant and varying, time() cost 0 .. 5 s, budgets "
             "0 .. days, every fifth on a real chain; ChainPool: 6(18) pools of 2-4 stub / Gibbs / PCA / HMC chains with "
             "and without display_progress, n in {0,7,100,123,250}; interrupted calls: per sampler (Gibbs, Metropolis, "
             "PCA, HMC, ensemble) 3(8) scripted configurations, after 0-3 completed steps every evaluation (<= 10(40)) of "
             "one take_step raising in turn, 4(9) crash points in later steps of advance(2..3), 2(6) histories of 4-6 calls "
             "with two interrupted calls, advance(117|203|250) cut short inside the grouped part and inside the "
             "remainder; each followed by 1-2 more calls; all cases are non-trivial; distinct = distinct inputs")


# ---------------------------------------------------------------- replay
def replay(path):
    d = json.load(open(path))
    rp = d["replay"]
    c = rp.get("case")
    if not c:
        print("replay names a broken theorem / correspondence:", rp.get("theorem_or_correspondence"))
        return 1
    if c.get("interrupted_history"):
        obs, bad = IS.replay_case(c)
    elif "ops" in c:
        ch = StubChain(c["n0"], display=c.get("display_progress", False)) if c["chain"] == "stub" \
            else make_real(c["chain"], 1)
        with silence():
            obs = apply_ops(ch, c["ops"])
        bad = oracle_ops(c["n0"], c["ops"], obs, c["chain"] == "stub")
    elif "advance_calls" in c:
        es = make_ensemble(c["n_walkers"], 1)
        if c["iterations_before"]:
            es.advance(c["iterations_before"])
        obs = apply_ens(es, c["advance_calls"])
        bad = oracle_ens(c["n_walkers"], c["iterations_before"], c["advance_calls"], obs)
    elif "run_for_kwargs" in c:
        if c["chain"] == "stub":
            chain = StubChain(1)
        elif c["chain"].startswith("EnsembleSampler"):
            chain = make_ensemble(int(c["chain"].split("/")[1]), 1)
        else:
            chain = make_real({"GibbsChain": "Gibbs", "PcaChain": "Pca", "HamiltonianChain": "Hmc"}[c["chain"]], 1)
        costs = [Fraction(x) for x in c["costs_s"]]
        out = run_timed(chain, [float(x) for x in costs], float(Fraction(c["time_call_cost_s"])),
                        c["run_for_kwargs"], 400_000, 3000, wrap=c["chain"] != "stub")
        obs = {k: out[k] for k in ("status", "error")}
        obs["passes"] = len(out["trace"]) - 1
        bad = oracle_run_for(costs, Fraction(c["time_call_cost_s"]), c["run_for_kwargs"], out)
    elif "pool_size" in c:
        from inference.mcmc.parallel import ChainPool
        chains = [StubChain(n0, display=c["display_progress"]) for n0 in c["initial_lengths"]] if c["chains"] == "stub" \
            else [make_real(c["chains"], 7 + i, display=c["display_progress"]) for i in range(c["pool_size"])]
        pool, bad, obs = None, [], None
        try:
            with silence():
                pool = ChainPool(chains)
                pool.advance(c["n"])
            obs = [counts(x) for x in pool.chains]
        except Exception as e:
            bad = [f"ChainPool.advance raised {e!r}"]
        finally:
            if pool is not None:
                pool.pool.terminate()
                pool.pool.join()
    else:
        print("unknown replay")
        return 1
    print("implementation returns:", obs)
    print("property failures:", bad)
    return 1 if bad else 0
