"""C17 -- GP linear inversion returns the exact linear-Gaussian posterior.

Theorems: coq/theories/Properties/C17.v about Matrix/Inversion.v instantiated at
MathComp matrices (any realFieldType, any m, n, ANY model matrix).  Tie to the
code (DESIGN 2.3): the real GpLinearInverter is constructed for tall, wide,
square and rank-deficient model matrices and evaluated at a hyper-parameter
vector; the caller's A, y, y_err, the matrices the implementation's kernel /
mean objects build (K, prior mean, gradient matrices) and every output are
written as exact rationals to coq/gen/C17/*.v, where the same model text at
ListOps (exact rational solves) is evaluated by vm_compute and compared inside
Coq (Matrix/InversionCheck.v, eight obligations per case, 1e-7 * scale).  The
evidence VALUE (it contains a logarithm) is checked by one coq-interval goal per
case on the exact rationals -0.5 r^T J^-1 r and det J.

Inputs are conditioned: cond(I + K W) and cond(A K A^T + S) <= 1e6.
"""
from __future__ import annotations

import math
import warnings
from fractions import Fraction

import numpy as np

from lib import common as C
from lib import matrix as MX
from lib import interval as IV

PROP = "C17"
THEOREMS = ["C17_inv_sigma", "C17_post_cov_closed", "C17_post_cov_precision",
            "C17_post_mean_closed", "C17_mean_only_eq_full", "C17_post_cov_sym",
            "C17_post_cov_order", "C17_evidence_value", "C17_gradient_forms"]

HEADER = MX.HEADER.format(mods="Matrix.Inversion Matrix.InversionCheck")
EV_PREAMBLE = """From Coq Require Import Reals List QArith.
From Interval Require Import Tactic.
From IT Require Import Matrix.MxOps Matrix.ListOps Matrix.Inversion Matrix.InversionCheck Matrix.InversionEvidence.
Import ListNotations.
Open Scope Q_scope.
"""

OBLIGATION_NAMES = {
    0: "model could not be evaluated (an inverse failed its run-time verification)",
    1: "calculate_posterior covariance differs from (I + K W)^-1 K",
    2: "calculate_posterior mean differs from the model",
    3: "calculate_posterior_mean differs from the model",
    4: "an output differs from the closed-form linear-Gaussian posterior",
    5: "the posterior covariance is not symmetric / its diagonal is outside [0, prior variance]",
    6: "the reported evidence gradient differs from the trace forms",
    7: "marginal_likelihood_gradient returns a different value than marginal_likelihood",
    8: "marginal_likelihood differs from -1/2 r^T J^-1 r - 1/2 ln det J",
}

KERNELS = [["SE"], ["RQ"], ["sum", ["SE"], ["WN"]], ["sum", ["SE"], ["RQ"]], ["CP", [["SE"], ["RQ"]], 0]]
MEANS = ["const", "linear", "quadratic"]
SHAPES = ["tall", "wide", "square", "rank_deficient"]
COND_MAX = 1e6


def INV():
    from inference.gp import GpLinearInverter
    return GpLinearInverter


def grid(r, lo, hi, q=64):
    return r.randint(int(lo * q), int(hi * q)) / q


# ---------------------------------------------------------------- generation
def gen_A(r, shape):
    if shape == "tall":
        n = r.randint(1, 5)
        m = r.randint(n + 1, 7)
    elif shape == "wide":
        m = r.randint(1, 5)
        n = r.randint(m + 1, 7)
    elif shape == "square":
        m = n = r.randint(1, 6)
    else:
        m, n = r.randint(2, 7), r.randint(2, 7)
    A = np.array([[grid(r, -1.5, 1.5, 16) for _ in range(n)] for _ in range(m)], dtype=float)
    if shape == "rank_deficient":
        kind = r.choice(["dup_row", "zero_col", "rank1", "zero"])
        if kind == "dup_row":
            A[-1] = A[0]
        elif kind == "zero_col":
            A[:, r.randrange(n)] = 0.0
        elif kind == "rank1":
            u = np.array([grid(r, -1.5, 1.5, 8) for _ in range(m)])
            v = np.array([grid(r, -1.5, 1.5, 8) for _ in range(n)])
            A = np.outer(u, v)
        else:
            A[:] = 0.0
    return A


def gen_case(r, k, tier):
    kern = KERNELS[k % len(KERNELS)]
    mean = MEANS[(k // len(KERNELS)) % len(MEANS)]
    shape = SHAPES[(k + k // (len(KERNELS) * len(MEANS))) % len(SHAPES)]
    for _ in range(300):
        A = gen_A(r, shape)
        m, n = A.shape
        if MX.kernel_has(kern, "CP") and n < 2:
            continue
        d = r.choice([1, 1, 2])
        while True:
            pos = np.array([[grid(r, 0, 4) for _ in range(d)] for _ in range(n)], dtype=float)
            if n == 1 or min(np.abs(pos[i] - pos[j]).max() for i in range(n) for j in range(i)) >= 0.125:
                break
        y = np.array([grid(r, -3, 3, 256) for _ in range(m)], dtype=float)
        # multiples of 1/16: the exact 1/e^2 then has a small denominator (k^2 | 2^6 3^4 5^2 7^2 11^2), which
        # keeps the rational arithmetic of the model cheap; the code's own y_err**-2 is a rounded double
        e = np.array([r.randint(2, 12) / 16 for _ in range(m)], dtype=float)
        theta = MX.mean_hyperpars(r, mean, d) + MX.kernel_hyperpars(r, kern, n, d)
        case = {"m": m, "n": n, "d": d, "shape": shape, "rank": int(np.linalg.matrix_rank(A)),
                "A": MX.hexlist(A), "y": MX.hexlist(y), "y_err": MX.hexlist(e), "positions": MX.hexlist(pos),
                "kernel": kern, "mean": mean, "theta": MX.hexlist(theta)}
        c1, c2 = conds(case)
        if c1 <= COND_MAX and c2 <= COND_MAX:
            case["cond_system"], case["cond_J"] = c1, c2
            return case
    raise RuntimeError("could not condition a case")


def arrays(case):
    m, n, d = case["m"], case["n"], case["d"]
    return (MX.unhex(case["A"], (m, n)), MX.unhex(case["y"]), MX.unhex(case["y_err"]),
            MX.unhex(case["positions"], (n, d)), MX.unhex(case["theta"]))


def conds(case):
    A, y, e, pos, theta = arrays(case)
    cov = MX.make_kernel(case["kernel"])
    mean = MX.make_mean(case["mean"])
    cov.pass_spatial_data(pos)
    mean.pass_spatial_data(pos)
    K = cov.build_covariance(theta[mean.n_params:])
    W = A.T @ np.diag(e ** -2.0) @ A
    J = A @ K @ A.T + np.diag(e ** 2)
    if not (np.all(np.isfinite(K)) and np.all(np.isfinite(W))):
        return math.inf, math.inf
    return float(np.linalg.cond(np.eye(case["n"]) + K @ W)), float(np.linalg.cond(J))


# ---------------------------------------------------------------- running the code
def run_impl(case):
    A, y, e, pos, theta = arrays(case)
    stage = "constructor"
    try:
        with warnings.catch_warnings():
            warnings.simplefilter("ignore")
            inv = INV()(y=y.copy(), y_err=e.copy(), model_matrix=A.copy(), parameter_spatial_positions=pos.copy(),
                        prior_covariance_function=MX.make_kernel(case["kernel"]),
                        prior_mean_function=MX.make_mean(case["mean"]))
            # history dimension: the SAME array object is first used with other hyper-parameter
            # values (both posterior paths), then overwritten in place with the intended ones
            stage = "warm-up with perturbed hyper-parameters"
            buf = np.array(theta, dtype=float) + 0.25
            inv.calculate_posterior(buf)
            inv.calculate_posterior_mean(buf)
            inv.marginal_likelihood(buf)
            buf[:] = theta
            theta = buf
            stage = "calculate_posterior"
            pmean, pcov = inv.calculate_posterior(theta)
            stage = "calculate_posterior_mean"
            mo = inv.calculate_posterior_mean(theta)
            stage = "marginal_likelihood"
            lml = float(inv.marginal_likelihood(theta))
            stage = "marginal_likelihood_gradient"
            lml_g, grad = inv.marginal_likelihood_gradient(theta)
            stage = "reading the kernel matrices"
            K, dK = inv.cov.covariance_and_gradients(theta[inv.cov_slice])
            Kb = inv.cov.build_covariance(theta[inv.cov_slice])
            mu, dmu = inv.mean.mean_and_gradients(theta[inv.mean_slice])
            pm = inv.mean.build_mean(theta[inv.mean_slice])
            out = {"status": "ok", "K": np.array(Kb, dtype=float), "pm": np.array(pm, dtype=float).reshape(-1),
                   "dK": [np.array(g, dtype=float) for g in dK],
                   "dmu": [np.array(g, dtype=float).reshape(-1) for g in dmu],
                   "pmean": np.array(pmean, dtype=float).reshape(-1), "pcov": np.array(pcov, dtype=float),
                   "mean_only": np.array(mo, dtype=float).reshape(-1), "lml": lml, "lml_g": float(lml_g),
                   "grad": np.array(grad, dtype=float).reshape(-1), "n_mean": int(inv.mean.n_params),
                   "A": np.array(inv.A, dtype=float), "y": np.array(inv.y, dtype=float)}
            # the gradient routines must be talking about the same K and prior mean
            if not (np.allclose(K, Kb, rtol=1e-12, atol=0) and np.allclose(mu, pm, rtol=1e-12, atol=0)):
                return {"status": "inconsistent", "stage": "covariance_and_gradients",
                        "error": "K / prior mean from the gradient routines differ from build_covariance / build_mean"}
    except Exception as ex:
        return {"status": "exception", "stage": stage, "error": f"{type(ex).__name__}: {ex}"}
    m, n = case["m"], case["n"]
    ok_shapes = (out["K"].shape == (n, n) and out["pcov"].shape == (n, n) and out["pmean"].shape == (n,)
                 and out["mean_only"].shape == (n,) and out["pm"].shape == (n,)
                 and out["grad"].shape == (out["n_mean"] + len(out["dK"]),)
                 and all(g.shape == (n, n) for g in out["dK"]) and all(g.shape == (n,) for g in out["dmu"]))
    if not ok_shapes:
        return {"status": "shape", "stage": "outputs", "error": "an output has the wrong shape"}
    for k2 in ("K", "pcov", "pmean", "mean_only", "grad"):
        if not np.all(np.isfinite(out[k2])):
            return {"status": "nonfinite", "stage": k2, "error": f"{k2} is not finite"}
    if not (math.isfinite(out["lml"]) and math.isfinite(out["lml_g"])):
        return {"status": "nonfinite", "stage": "lml", "error": "evidence is not finite"}
    return out


def tolerances(case, out):
    sk = max(float(np.abs(out["K"]).max()), 1e-6)
    sm = max(float(np.abs(out["pm"]).max()), float(np.abs(out["pmean"]).max()), 1e-6)
    sg = max(float(np.abs(out["grad"]).max()), 1.0)
    sl = max(abs(out["lml"]), 1.0)
    return {"c": 1e-7 * sk, "m": 1e-7 * sm, "g": 1e-7 * sg, "l": 1e-7 * sl}


def coq_case(case, out):
    t = tolerances(case, out)
    _, y, e, _, _ = arrays(case)
    nm = out["n_mean"]
    f = [("l_m", C.cnat(case["m"])), ("l_n", C.cnat(case["n"])),
         ("l_A", MX.qmat(out["A"])), ("l_y", MX.qvec(out["y"])), ("l_err", MX.qvec(e)),
         ("l_K", MX.qmat(out["K"])), ("l_pm", MX.qvec(out["pm"])),
         ("l_dK", C.clist([MX.qmat(g) for g in out["dK"]], ";\n     ")),
         ("l_dmu", C.clist([MX.qvec(g) for g in out["dmu"]])),
         ("o_pmean", MX.qvec(out["pmean"])), ("o_pcov", MX.qmat(out["pcov"])),
         ("o_mean_only", MX.qvec(out["mean_only"])),
         ("o_lml", C.cq(out["lml"])), ("o_lml_g", C.cq(out["lml_g"])),
         ("o_grad_mean", MX.qvec(out["grad"][:nm])), ("o_grad_cov", MX.qvec(out["grad"][nm:])),
         ("t_c", MX.qtol(t["c"])), ("t_m", MX.qtol(t["m"])), ("t_g", MX.qtol(t["g"])), ("t_l", MX.qtol(t["l"]))]
    return "{| " + ";\n   ".join(f"{k} := {v}" for k, v in f) + " |}"


# ---------------------------------------------------------------- the property, independently
def exact_posterior(case, out):
    A, y, e, _, _ = arrays(case)
    Af, K = MX.fmat(A), MX.fmat(out["K"])
    m = case["m"]
    S = [[C.frac(e[i]) ** 2 if i == j else Fraction(0) for j in range(m)] for i in range(m)]
    AK = MX.f_mul(Af, K)
    J = MX.f_add(MX.f_mul(AK, MX.f_tr(Af)), S)
    pm = MX.fmat(out["pm"])
    r = MX.f_sub(MX.fmat(y), MX.f_mul(Af, pm))
    KAt = MX.f_tr(AK)                     # K is symmetric up to rounding; use (A K)^T = K^T A^T
    KAt = MX.f_mul(K, MX.f_tr(Af))
    cov = MX.f_sub(K, MX.f_mul(KAt, MX.f_solve(J, AK)))
    mean = MX.f_add(pm, MX.f_mul(KAt, MX.f_solve(J, r)))
    quad = MX.f_mul(MX.f_tr(r), MX.f_solve(J, r))[0][0]
    return mean, cov, J, quad


def f_det(M):
    n = len(M)
    M = [list(r) for r in M]
    det = Fraction(1)
    for k in range(n):
        p = next((i for i in range(k, n) if M[i][k] != 0), None)
        if p is None:
            return Fraction(0)
        if p != k:
            M[k], M[p] = M[p], M[k]
            det = -det
        det *= M[k][k]
        for i in range(k + 1, n):
            f = M[i][k] / M[k][k]
            M[i] = [a - f * b for a, b in zip(M[i], M[k])]
    return det


def oracle(case, out):
    bad = []
    t = tolerances(case, out)
    mean, cov, J, quad = exact_posterior(case, out)
    dm = MX.f_max_abs_diff(cov, out["pcov"])
    if dm > Fraction(t["c"]):
        bad.append(f"posterior covariance differs from K - K A^T (A K A^T + S)^-1 A K by {float(dm):.3e}")
    for name in ("pmean", "mean_only"):
        dm = MX.f_max_abs_diff(mean, out[name])
        if dm > Fraction(t["m"]):
            bad.append(f"{name} differs from the closed-form posterior mean by {float(dm):.3e}")
    if float(np.abs(out["pcov"] - out["pcov"].T).max()) > 2 * t["c"]:
        bad.append("posterior covariance is not symmetric")
    ev = np.linalg.eigvalsh((out["pcov"] + out["pcov"].T) / 2)
    if ev.min() < -10 * t["c"] * case["n"]:
        bad.append(f"posterior covariance has eigenvalue {ev.min():.3e} < 0")
    ev = np.linalg.eigvalsh(((out["K"] - out["pcov"]) + (out["K"] - out["pcov"]).T) / 2)
    if ev.min() < -10 * t["c"] * case["n"]:
        bad.append(f"prior minus posterior covariance has eigenvalue {ev.min():.3e} < 0")
    det = f_det(J)
    if det > 0:
        want = -0.5 * float(quad) - 0.5 * (math.log(det.numerator) - math.log(det.denominator))
        if abs(want - out["lml"]) > 10 * t["l"]:
            bad.append(f"marginal_likelihood = {out['lml']!r} but the log-density of the data is {want!r} (+ const)")
    if abs(out["lml"] - out["lml_g"]) > t["l"]:
        bad.append("marginal_likelihood_gradient reports a different evidence value")
    # gradient against central differences of the implementation's own evidence
    try:
        A, y, e, pos, theta = arrays(case)
        inv = INV()(y=y, y_err=e, model_matrix=A, parameter_spatial_positions=pos,
                    prior_covariance_function=MX.make_kernel(case["kernel"]),
                    prior_mean_function=MX.make_mean(case["mean"]))
        h = 1e-5
        for i in range(theta.size):
            tp, tm_ = theta.copy(), theta.copy()
            tp[i] += h
            tm_[i] -= h
            fd = (inv.marginal_likelihood(tp) - inv.marginal_likelihood(tm_)) / (2 * h)
            if abs(fd - out["grad"][i]) > 1e-4 * max(1.0, abs(fd), float(np.abs(out["grad"]).max())):
                bad.append(f"gradient component {i} = {out['grad'][i]!r} but central differences give {fd!r}")
    except Exception as ex:
        bad.append(f"evidence could not be differenced: {ex}")
    return bad


# ---------------------------------------------------------------- driver
def describe(case):
    return {k: case[k] for k in ("m", "n", "d", "shape", "A", "y", "y_err", "positions", "kernel", "mean", "theta")}


def run(rep: C.Report, tier: str) -> int:
    r = C.rng_for(PROP, "cases")
    n_cases = 120 if tier == "quick" else 1500
    C.clean_gen(PROP)
    C.prove_and_audit(rep, PROP, THEOREMS)

    cases, outs = [], []
    for k in range(n_cases):
        case = gen_case(r, k, tier)
        out = run_impl(case)
        cases.append(case)
        outs.append(out)
        rep.count("shape=" + case["shape"])
        rep.count(f"m={case['m']}")
        rep.count(f"n={case['n']}")
        rep.count(f"rank(A)={case['rank']}" + ("<min(m,n)" if case["rank"] < min(case["m"], case["n"]) else ""))
        rep.count(f"d={case['d']}")
        rep.count("kernel=" + MX.kernel_name(case["kernel"]))
        rep.count("mean=" + case["mean"])
        rep.count("cond(I+KW)<=1e%d" % max(0, math.ceil(math.log10(case["cond_system"]))))
        rep.case(describe(case), nontrivial=case["rank"] > 0)
        if k < 3:
            rep.sample({"config": {k2: case[k2] for k2 in ("m", "n", "d", "shape", "rank", "mean")},
                        "kernel": MX.kernel_name(case["kernel"]),
                        "impl_posterior_mean": out.get("pmean"), "impl_lml": out.get("lml")})

    suspicious = {}
    ok_idx = [k for k, o in enumerate(outs) if o["status"] == "ok"]
    for k, o in enumerate(outs):
        if o["status"] != "ok":
            suspicious[k] = f"{o['status']} in {o['stage']}: {o['error']}"

    def weight(k):
        return (cases[k]["n"] ** 4 + cases[k]["m"] ** 4) * (1 + len(outs[k]["dK"]))
    order = sorted(ok_idx, key=lambda k: -weight(k))
    nfiles = max(1, min(len(order), 14 if tier == "quick" else 56))
    buckets = [[] for _ in range(nfiles)]
    loads = [0] * nfiles
    for k in order:
        j = loads.index(min(loads))
        buckets[j].append(k)
        loads[j] += weight(k)
    files, index = [], []
    texts = {k: coq_case(cases[k], outs[k]) for k in ok_idx}
    for j, bucket in enumerate(buckets):
        if not bucket:
            continue
        body = ("Definition cases : list lin_case :=\n [" + ";\n  ".join(texts[k] for k in bucket) + "].")
        files.append(C.write_case_file(PROP, f"cases_{j}", HEADER, body, ["failing_lin cases"]))
        index.append(bucket)
    results = C.run_case_files(files, jobs=14, timeout=1500)
    obligation_fail = {}
    n_checked = 0
    for p, idx, (ok, res, log) in zip(files, index, results):
        if not ok or 0 not in res:
            rep.obligation(False, 8 * len(idx))
            rep.violation("C17/correspondence-run", f"case file {p.name} did not evaluate",
                          {"theorem_or_correspondence": f"correspondence file {p.name}", "log": log}, False)
            continue
        fails = MX.decode_failures(res[0])
        for j, k in enumerate(idx):
            fo = fails.get(j, [])
            rep.obligation(True, 8 - len(fo))
            if fo:
                rep.obligation(False, len(fo))
                obligation_fail.setdefault(k, []).extend(fo)
        n_checked += len(idx)

    # evidence value: one interval goal per case (a slice of the cases in the quick tier)
    ev_idx = ok_idx[::3] if tier == "quick" else ok_idx[::2]
    from concurrent.futures import ThreadPoolExecutor
    goals = [(k, f"lml_goal case_{k}", "lml_tac") for k in ev_idx]
    chunks = [goals[i::14] for i in range(14) if goals[i::14]]

    def run_chunk(ic):
        i, ch = ic
        pre = "\n".join([EV_PREAMBLE] + [f"Definition case_{k} : lin_case :=\n {texts[k]}." for k, _, _ in ch])
        return IV._run_chunk(PROP, f"evidence_{i}", pre, "", ch, 900)
    failed, broken = [], []
    with ThreadPoolExecutor(max_workers=14) as ex:
        for fl, br in ex.map(run_chunk, enumerate(chunks)):
            failed.extend(fl)
            if br:
                broken.append(br)
    for br in broken:
        rep.obligation(False)
        rep.violation("C17/evidence-run", "an evidence goal file did not run",
                      {"theorem_or_correspondence": "Matrix.InversionEvidence.lml_goal", "log": br}, False)
    rep.obligation(True, len(goals) - len(failed))
    for k, log in failed:
        rep.obligation(False)
        obligation_fail.setdefault(k, []).append(8)
    for k, fo in obligation_fail.items():
        suspicious[k] = "; ".join(OBLIGATION_NAMES[o] for o in fo)
    rep.coverage["cases_validated_against_impl"] = n_checked
    rep.coverage["evidence_goals"] = len(goals)
    rep.coverage["correspondence_disagreements"] = len(suspicious)
    rep.coverage["obligations_per_case"] = OBLIGATION_NAMES

    for k in sorted(suspicious)[:12]:
        case, out = cases[k], outs[k]
        if out["status"] != "ok":
            rep.violation("C17/exception", f"GpLinearInverter failed on a valid input ({suspicious[k]})",
                          {"case": describe(case), "impl": {k2: out[k2] for k2 in ("status", "stage", "error")}}, True)
            continue
        bad = oracle(case, out)
        if bad:
            rep.violation("C17/property", "; ".join(bad[:3]),
                          {"case": describe(case), "failing_obligations": obligation_fail.get(k)}, True)
        else:
            rep.violation("C17/correspondence",
                          "implementation and model disagree (" + suspicious[k] +
                          "), but the property was not seen to fail on this input",
                          {"theorem_or_correspondence": "Matrix.InversionCheck.check_lin (correspondence with GpLinearInverter)",
                           "failing_obligations": obligation_fail.get(k), "case": describe(case)}, False)

    n_or = 0
    for k in ok_idx[::6 if tier == "quick" else 3]:
        if k in suspicious:
            continue
        bad = oracle(cases[k], outs[k])
        n_or += 1
        if bad:
            rep.violation("C17/property", "; ".join(bad[:3]), {"case": describe(cases[k])}, True)
    rep.coverage["oracle_runs"] = n_or

    rep.assumptions = [
        "scipy.linalg.solve / cholesky / solve_triangular are exact in the theorems; the run compares every output "
        "to 1e-7*scale on inputs with cond(I+KW), cond(J) <= 1e6",
        "kernel and mean-function values and their hyper-parameter gradients are inputs of the model (C10)",
        "that the trace forms of the gradient are the derivative of the evidence (Jacobi's formula, "
        "d(J^-1) = -J^-1 dJ J^-1) is cited, not proved; it is tested [R] by central differences of the "
        "implementation's own marginal_likelihood",
        "sum_i ln L_ii = 1/2 ln det J uses ln of a product (Reals); det J = (prod L_ii)^2 is a theorem",
        "ListOps implements the same algebra as the MathComp instance: not proved (DESIGN 2.3)",
    ]
    return rep.finish(
        level="proof",
        checker_cmd="make -C /verif/coq + coqc on coq/gen/C17/cases_*.v (vm_compute) and evidence_*.v (coq-interval)",
        trusted_base=C.KERNEL_TB + ["axioms: none in the C17 theorems (closed under the global context); the evidence "
                                    "goals use Coq's Reals (ClassicalDedekindReals.sig_forall_dec, sig_not_dec, "
                                    "functional_extensionality_dep) and coq-interval (Uint63 primitives)",
                                    "Matrix/ListOps.v (executable matrix instance; inverses verified at run time)"],
        rule="configurations walk kernel (SE, RQ, SE+WN, SE+RQ, ChangePoint(SE,RQ)) x mean (3) x shape of A (tall, "
             "wide, square, rank-deficient: duplicated row / zero column / rank 1 / zero matrix); m, n <= 7; positions "
             "in 1-2 D; A entries multiples of 1/16; resampled until cond <= 1e6; a case is non-trivial when A != 0")


def replay(path):
    import json
    d = json.load(open(path))
    rp = d["replay"]
    if "case" not in rp:
        print("replay names a broken theorem / correspondence:", rp.get("theorem_or_correspondence"))
        return 1
    case = rp["case"]
    out = run_impl(case)
    if out["status"] != "ok":
        print("implementation fails:", out)
        return 1
    bad = oracle(case, out)
    print("implementation returns: posterior mean", out["pmean"], "evidence", out["lml"])
    print("property failures:", bad)
    return 1 if bad else 0
