"""C17 -- GP linear inversion returns the exact linear-Gaussian posterior.

Theorems: coq/theories/Properties/C17.v about Matrix/Inversion.v instantiated at
MathComp matrices (any realFieldType, any m, n, ANY model matrix).  Tie to the
code (DESIGN 2.3): the real GpLinearInverter is constructed for tall, wide,
square and rank-deficient model matrices and evaluated at a hyper-parameter
vector; the caller's A, y, y_err, the matrices the implementation's kernel /
mean objects build (K, prior mean, gradient matrices) and every output are
written as exact rationals to coq/gen/C17/*.v, where the same model text at
ListOps (exact rational solves) is evaluated by vm_compute and compared inside
Coq (Matrix/InversionCheck.v, eight obligations per case, 1e-7 * scale).  The
evidence VALUE (it contains a logarithm) is checked by one coq-interval goal per
case on the exact rationals -0.5 r^T J^-1 r and det J.

Inputs are conditioned: cond(I + K W) and cond(A K A^T + S) <= 1e6.

Three input streams:
  cases      one inverter per process history, explicit kernel / mean instances, data of order one;
  scales     the same walk with the SIGNAL in units 2^-40 .. 2^20 / 1e-7 .. 1e4 (kernel amplitude, mean
             parameters, data and data errors scaled) and / or the FORWARD MODEL with a gain 2^-20 .. 2^10
             (data errors down to ~1e-13): all tolerances are relative to the unit;
  histories  sessions of 2-4 inverters constructed one after the other in the same process BEFORE any of
             them is evaluated, with the kernel / mean arguments left at their defaults, given as classes
             or as instances, same or different numbers of parameters, different positions.
K, the prior mean and their gradients that go into the model are built by FRESH kernel / mean objects on
the inverter's OWN positions; Model/InversionHistory.v (theorems C17_history_*) is the model of which
object an inverter holds and whose spatial data it carries, evaluated by vm_compute on the generated
history (coq/gen/C17/history.v) against what is observed on the real objects.
"""
from __future__ import annotations

import math
import warnings
from fractions import Fraction

import numpy as np

from lib import common as C
from lib import matrix as MX
from lib import interval as IV

PROP = "C17"
THEOREMS = ["C17_inv_sigma", "C17_post_cov_closed", "C17_post_cov_precision",
            "C17_post_mean_closed", "C17_mean_only_eq_full", "C17_post_cov_sym",
            "C17_post_cov_order", "C17_evidence_value", "C17_gradient_forms",
            "C17_history_posterior", "C17_history_own_positions", "C17_history_shared_default_refuted"]

HEADER = MX.HEADER.format(mods="Matrix.Inversion Matrix.InversionCheck")
HIST_HEADER = """From Coq Require Import List.
From IT Require Import Model.InversionHistory.
Import ListNotations.
"""
EV_PREAMBLE = """From Coq Require Import Reals List QArith.
From Interval Require Import Tactic.
From IT Require Import Matrix.MxOps Matrix.ListOps Matrix.Inversion Matrix.InversionCheck Matrix.InversionEvidence.
Import ListNotations.
Open Scope Q_scope.
"""

OBLIGATION_NAMES = {
    0: "model could not be evaluated (an inverse failed its run-time verification)",
    1: "calculate_posterior covariance differs from (I + K W)^-1 K",
    2: "calculate_posterior mean differs from the model",
    3: "calculate_posterior_mean differs from the model",
    4: "an output differs from the closed-form linear-Gaussian posterior",
    5: "the posterior covariance is not symmetric / its diagonal is outside [0, prior variance]",
    6: "the reported evidence gradient differs from the trace forms",
    7: "marginal_likelihood_gradient returns a different value than marginal_likelihood",
    8: "marginal_likelihood differs from -1/2 r^T J^-1 r - 1/2 ln det J",
}

HIST_OBLIGATION_NAMES = {
    0: "the generated history is not well-formed (harness error)",
    1: "two inverters hold the same kernel object (or the model's sharing structure is not the observed one)",
    2: "two inverters hold the same mean-function object (or the model's sharing structure is not the observed one)",
    3: "an inverter's kernel object does not carry the inverter's own parameter positions",
    4: "an inverter's mean-function object does not carry the inverter's own parameter positions",
}

KERNELS = [["SE"], ["RQ"], ["sum", ["SE"], ["WN"]], ["sum", ["SE"], ["RQ"]], ["CP", [["SE"], ["RQ"]], 0]]
MEANS = ["const", "linear", "quadratic"]
SHAPES = ["tall", "wide", "square", "rank_deficient"]
COND_MAX = 1e6
# (unit of the signal, gain of the forward model): data and data errors are in units of unit * gain
UNIT_PAIRS = [(2.0 ** -20, 1.0), (1.0, 2.0 ** -20), (1e-6, 1.0), (2.0 ** -30, 1.0), (2.0 ** -10, 2.0 ** -10),
              (2.0 ** -23, 1.0), (1.0, 1e-6), (2.0 ** 10, 1.0), (1e-7, 1.0), (2.0 ** -10, 1.0), (2.0 ** -20, 2.0 ** -20),
              (2.0 ** 20, 2.0 ** -20), (3e-9, 1.0), (1.0, 2.0 ** 10), (2.0 ** -40, 1.0), (1e-3, 1e-3),
              (2.0 ** 20, 1.0), (2.0 ** -27, 2.0 ** 10), (1e4, 1.0), (2.0 ** -16, 2.0 ** -8)]
CLASS_KERNELS = [["SE"], ["RQ"]]


def INV():
    from inference.gp import GpLinearInverter
    return GpLinearInverter


def grid(r, lo, hi, q=64):
    return r.randint(int(lo * q), int(hi * q)) / q


# ---------------------------------------------------------------- generation
def gen_A(r, shape, n_fixed=None, top=7):
    if n_fixed is not None:
        n = n_fixed
        if shape == "tall":
            m = r.randint(n + 1, top)
        elif shape == "wide":
            m = r.randint(1, n - 1)
        elif shape == "square":
            m = n
        else:
            m = r.randint(2, top)
    elif shape == "tall":
        n = r.randint(1, top - 2)
        m = r.randint(n + 1, top)
    elif shape == "wide":
        m = r.randint(1, top - 2)
        n = r.randint(m + 1, top)
    elif shape == "square":
        m = n = r.randint(1, top - 1)
    else:
        m, n = r.randint(2, top), r.randint(2, top)
    A = np.array([[grid(r, -1.5, 1.5, 16) for _ in range(n)] for _ in range(m)], dtype=float)
    if shape == "rank_deficient":
        kind = r.choice(["dup_row", "zero_col", "rank1", "zero"])
        if kind == "dup_row":
            A[-1] = A[0]
        elif kind == "zero_col":
            A[:, r.randrange(n)] = 0.0
        elif kind == "rank1":
            u = np.array([grid(r, -1.5, 1.5, 8) for _ in range(m)])
            v = np.array([grid(r, -1.5, 1.5, 8) for _ in range(n)])
            A = np.outer(u, v)
        else:
            A[:] = 0.0
    return A


def gen_case(r, k, tier, unit=1.0, gain=1.0, kern=None, mean=None, shape=None,
             cov_arg="instance", mean_arg="instance", n_fixed=None, top=7):
    """unit: physical unit of the signal (kernel amplitudes, mean parameters); gain: scale of the forward
    model; the data and their errors are in units of unit * gain.  With unit = gain = 1 the draws are those
    of the first version of this check."""
    kern = kern or KERNELS[k % len(KERNELS)]
    mean = mean or MEANS[(k // len(KERNELS)) % len(MEANS)]
    shape = shape or SHAPES[(k + k // (len(KERNELS) * len(MEANS))) % len(SHAPES)]
    for _ in range(300):
        A = gen_A(r, shape, n_fixed, top)
        m, n = A.shape
        if MX.kernel_has(kern, "CP") and n < 2:
            continue
        d = r.choice([1, 1, 2])
        while True:
            pos = np.array([[grid(r, 0, 4) for _ in range(d)] for _ in range(n)], dtype=float)
            if n == 1 or min(np.abs(pos[i] - pos[j]).max() for i in range(n) for j in range(i)) >= 0.125:
                break
        y = np.array([grid(r, -3, 3, 256) for _ in range(m)], dtype=float)
        # multiples of 1/16: the exact 1/e^2 then has a small denominator (k^2 | 2^6 3^4 5^2 7^2 11^2), which
        # keeps the rational arithmetic of the model cheap; the code's own y_err**-2 is a rounded double
        e = np.array([r.randint(2, 12) / 16 for _ in range(m)], dtype=float)
        theta = ([v * unit for v in MX.mean_hyperpars(r, mean, d)]
                 + MX.kernel_hyperpars(r, kern, n, d, 0.5 * unit, 3.0 * unit, 0.15 * unit, 0.6 * unit))
        A, y, e = A * gain, y * (unit * gain), e * (unit * gain)
        case = {"m": m, "n": n, "d": d, "shape": shape, "rank": int(np.linalg.matrix_rank(A)),
                "A": MX.hexlist(A), "y": MX.hexlist(y), "y_err": MX.hexlist(e), "positions": MX.hexlist(pos),
                "kernel": kern, "mean": mean, "theta": MX.hexlist(theta),
                "unit": float(unit), "gain": float(gain), "cov_arg": cov_arg, "mean_arg": mean_arg}
        c1, c2 = conds(case)
        if c1 <= COND_MAX and c2 <= COND_MAX:
            case["cond_system"], case["cond_J"] = c1, c2
            return case
    raise RuntimeError("could not condition a case")


def gen_history(r, tier):
    """A session: 2-4 inverters constructed in the same process before any of them is used.  Two of them
    leave the kernel at its documented default (2 sessions in 3) or pass the same class; the others leave it
    out, pass a class or pass an instance; three sessions in four use the same number of parameters
    throughout (so that nothing but the positions distinguishes the inverters)."""
    N = r.choice([2, 2, 3, 3, 4])
    same_n = r.random() < 0.75
    n0 = r.randint(2, 5)
    forced = r.sample(range(N), 2)
    # the two forced constructions name the kernel in the same way: both leave it out (2 in 3) or both pass
    # the same class
    forced_arg = r.choice(["default", "default", "class"])
    forced_kern = ["SE"] if forced_arg == "default" else r.choice(CLASS_KERNELS)
    out = []
    for i in range(N):
        cov_arg = forced_arg if i in forced else r.choice(["default", "class", "instance", "instance"])
        mean_arg = r.choice(["default", "default", "class", "instance"])
        if i in forced:
            kern = forced_kern
        else:
            kern = ["SE"] if cov_arg == "default" else (r.choice(CLASS_KERNELS) if cov_arg == "class" else r.choice(KERNELS))
        mean = "const" if mean_arg == "default" else r.choice(MEANS)
        out.append(gen_case(r, 0, tier, kern=kern, mean=mean, shape=r.choice(SHAPES), cov_arg=cov_arg,
                            mean_arg=mean_arg, n_fixed=n0 if same_n else None, top=6))
    return out


def arrays(case):
    m, n, d = case["m"], case["n"], case["d"]
    return (MX.unhex(case["A"], (m, n)), MX.unhex(case["y"]), MX.unhex(case["y_err"]),
            MX.unhex(case["positions"], (n, d)), MX.unhex(case["theta"]))


def conds(case):
    A, y, e, pos, theta = arrays(case)
    cov = MX.make_kernel(case["kernel"])
    mean = MX.make_mean(case["mean"])
    cov.pass_spatial_data(pos)
    mean.pass_spatial_data(pos)
    K = cov.build_covariance(theta[mean.n_params:])
    W = A.T @ np.diag(e ** -2.0) @ A
    J = A @ K @ A.T + np.diag(e ** 2)
    if not (np.all(np.isfinite(K)) and np.all(np.isfinite(W))):
        return math.inf, math.inf
    return float(np.linalg.cond(np.eye(case["n"]) + K @ W)), float(np.linalg.cond(J))


# ---------------------------------------------------------------- running the code
def kernel_class(spec):
    from inference.gp import SquaredExponential, RationalQuadratic, WhiteNoise
    return {"SE": SquaredExponential, "RQ": RationalQuadratic, "WN": WhiteNoise}[spec[0]]


def mean_class(name):
    from inference.gp import ConstantMean, LinearMean, QuadraticMean
    return {"const": ConstantMean, "linear": LinearMean, "quadratic": QuadraticMean}[name]


def ctor_kwargs(case):
    """The kernel / mean arguments as the caller writes them: left out (the documented defaults
    SquaredExponential / ConstantMean), a class, or an instance made by the caller."""
    kw = {}
    ca, ma = case.get("cov_arg", "instance"), case.get("mean_arg", "instance")
    if ca == "instance":
        kw["prior_covariance_function"] = MX.make_kernel(case["kernel"])
    elif ca == "class":
        kw["prior_covariance_function"] = kernel_class(case["kernel"])
    else:
        assert case["kernel"] == ["SE"]
    if ma == "instance":
        kw["prior_mean_function"] = MX.make_mean(case["mean"])
    elif ma == "class":
        kw["prior_mean_function"] = mean_class(case["mean"])
    else:
        assert case["mean"] == "const"
    return kw


def fresh_prior(case, pos=None):
    """Kernel and mean objects of the case's specification that no inverter has seen, carrying the given
    positions (default: the case's own)."""
    _, _, _, own, _ = arrays(case)
    pos = own if pos is None else pos
    cov, mean = MX.make_kernel(case["kernel"]), MX.make_mean(case["mean"])
    cov.pass_spatial_data(pos.copy())
    mean.pass_spatial_data(pos.copy())
    return cov, mean


def same(a, b):
    a, b = np.asarray(a, dtype=float), np.asarray(b, dtype=float)
    return a.shape == b.shape and bool(np.all(np.isfinite(a))) and np.allclose(a, b, rtol=1e-12, atol=0)


def evaluate(inv, case):
    """All outputs of one inverter at the case's hyper-parameters.  K, the prior mean and their gradients
    that go into the model come from FRESH objects on the case's own positions (C10 ties those to the kernel
    formulas); what the inverter's own objects build is compared with them."""
    A, y, e, pos, theta = arrays(case)
    stage = "reference kernel"
    try:
        with warnings.catch_warnings():
            warnings.simplefilter("ignore")
            fcov, fmean = fresh_prior(case)
            nm = int(fmean.n_params)
            K, dK = fcov.covariance_and_gradients(theta[nm:])
            Kb = fcov.build_covariance(theta[nm:])
            mu, dmu = fmean.mean_and_gradients(theta[:nm])
            pm = fmean.build_mean(theta[:nm])
            # history dimension: the SAME array object is first used with other hyper-parameter
            # values (both posterior paths), then overwritten in place with the intended ones
            stage = "warm-up with perturbed hyper-parameters"
            buf = np.array(theta, dtype=float) + 0.25
            inv.calculate_posterior(buf)
            inv.calculate_posterior_mean(buf)
            inv.marginal_likelihood(buf)
            buf[:] = theta
            theta = buf
            stage = "calculate_posterior"
            pmean, pcov = inv.calculate_posterior(theta)
            stage = "calculate_posterior_mean"
            mo = inv.calculate_posterior_mean(theta)
            stage = "marginal_likelihood"
            lml = float(inv.marginal_likelihood(theta))
            stage = "marginal_likelihood_gradient"
            lml_g, grad = inv.marginal_likelihood_gradient(theta)
            stage = "reading the kernel matrices"
            Ki, dKi = inv.cov.covariance_and_gradients(theta[inv.cov_slice])
            Kbi = inv.cov.build_covariance(theta[inv.cov_slice])
            mui, dmui = inv.mean.mean_and_gradients(theta[inv.mean_slice])
            pmi = inv.mean.build_mean(theta[inv.mean_slice])
            out = {"status": "ok", "K": np.array(Kb, dtype=float), "pm": np.array(pm, dtype=float).reshape(-1),
                   "dK": [np.array(g, dtype=float) for g in dK],
                   "dmu": [np.array(g, dtype=float).reshape(-1) for g in dmu],
                   "pmean": np.array(pmean, dtype=float).reshape(-1), "pcov": np.array(pcov, dtype=float),
                   "mean_only": np.array(mo, dtype=float).reshape(-1), "lml": lml, "lml_g": float(lml_g),
                   "grad": np.array(grad, dtype=float).reshape(-1), "n_mean": nm,
                   "A": np.array(inv.A, dtype=float), "y": np.array(inv.y, dtype=float),
                   "K_inv": np.array(Kbi, dtype=float), "pm_inv": np.array(pmi, dtype=float).reshape(-1)}
            # the gradient routines must be talking about the same K and prior mean
            if not (np.allclose(K, Kb, rtol=1e-12, atol=0) and np.allclose(mu, pm, rtol=1e-12, atol=0)
                    and same(Ki, Kbi) and same(np.reshape(mui, -1), np.reshape(pmi, -1))):
                return {"status": "inconsistent", "stage": "covariance_and_gradients",
                        "error": "K / prior mean from the gradient routines differ from build_covariance / build_mean"}
            # ... and the inverter's own objects must build the prior of the inverter's own positions
            foreign = []
            if not same(Kbi, Kb):
                foreign.append("inv.cov.build_covariance(theta) is not the kernel matrix of the inverter's own positions")
            if not same(np.reshape(pmi, -1), np.reshape(pm, -1)):
                foreign.append("inv.mean.build_mean(theta) is not the prior mean of the inverter's own positions")
            if foreign:
                out["foreign"] = "; ".join(foreign)
    except Exception as ex:
        return {"status": "exception", "stage": stage, "error": f"{type(ex).__name__}: {ex}"}
    m, n = case["m"], case["n"]
    ok_shapes = (out["K"].shape == (n, n) and out["pcov"].shape == (n, n) and out["pmean"].shape == (n,)
                 and out["mean_only"].shape == (n,) and out["pm"].shape == (n,)
                 and out["grad"].shape == (out["n_mean"] + len(out["dK"]),)
                 and all(g.shape == (n, n) for g in out["dK"]) and all(g.shape == (n,) for g in out["dmu"]))
    if not ok_shapes:
        return {"status": "shape", "stage": "outputs", "error": "an output has the wrong shape"}
    for k2 in ("K", "pcov", "pmean", "mean_only", "grad"):
        if not np.all(np.isfinite(out[k2])):
            return {"status": "nonfinite", "stage": k2, "error": f"{k2} is not finite"}
    if not (math.isfinite(out["lml"]) and math.isfinite(out["lml_g"])):
        return {"status": "nonfinite", "stage": "lml", "error": "evidence is not finite"}
    return out


def holders(inv, case, session):
    """The constructions j of the session whose positions reproduce what this inverter's kernel / mean
    object builds at the case's hyper-parameters."""
    _, _, _, _, theta = arrays(case)
    hc, hm = [], []
    try:
        with warnings.catch_warnings():
            warnings.simplefilter("ignore")
            Kinv = np.array(inv.cov.build_covariance(theta[inv.cov_slice]), dtype=float)
            pminv = np.array(inv.mean.build_mean(theta[inv.mean_slice]), dtype=float).reshape(-1)
    except Exception:
        return hc, hm
    for j, other in enumerate(session):
        try:
            with warnings.catch_warnings():
                warnings.simplefilter("ignore")
                pos_j = arrays(other)[3]
                fcov, fmean = fresh_prior(case, pos_j)
                nm = int(fmean.n_params)
                if theta.size != nm + fcov.n_params:
                    continue
                if same(Kinv, fcov.build_covariance(theta[nm:])):
                    hc.append(j)
                if same(pminv, np.reshape(fmean.build_mean(theta[:nm]), -1)):
                    hm.append(j)
        except Exception:
            pass
    return hc, hm


def run_session(session):
    """Construct ALL inverters of the session first (in order), then evaluate them (in order).  Returns
    the outputs per inverter and the observed object structure of the session."""
    invs, outs = [], []
    calls, k_inst = [], 0
    for case in session:
        A, y, e, pos, theta = arrays(case)
        kw = ctor_kwargs(case)
        args = []
        for key, kind in (("prior_covariance_function", case.get("cov_arg", "instance")),
                          ("prior_mean_function", case.get("mean_arg", "instance"))):
            if kind == "instance":
                args.append(f"(KInst {k_inst})")
                k_inst += 1
            else:
                args.append("KClass" if kind == "class" else "KDefault")
        calls.append(f"CtorCall {args[0]} {args[1]} {len(calls)}")
        try:
            with warnings.catch_warnings():
                warnings.simplefilter("ignore")
                invs.append(INV()(y=y.copy(), y_err=e.copy(), model_matrix=A.copy(),
                                  parameter_spatial_positions=pos.copy(), **kw))
        except Exception as ex:
            invs.append(None)
            outs.append({"status": "exception", "stage": "constructor", "error": f"{type(ex).__name__}: {ex}"})
            continue
        outs.append(None)
    obs = {"k": k_inst, "calls": calls, "cov_alias": [], "mean_alias": [], "cov_hold": [], "mean_hold": []}
    for i, (inv, case) in enumerate(zip(invs, session)):
        if inv is None:
            obs["cov_alias"].append(i)
            obs["mean_alias"].append(i)
            obs["cov_hold"].append([])
            obs["mean_hold"].append([])
            continue
        obs["cov_alias"].append(next(j for j, o in enumerate(invs) if o is not None and o.cov is inv.cov))
        obs["mean_alias"].append(next(j for j, o in enumerate(invs) if o is not None and o.mean is inv.mean))
        hc, hm = holders(inv, case, session)
        obs["cov_hold"].append(hc)
        obs["mean_hold"].append(hm)
        outs[i] = evaluate(inv, case)
    return outs, obs


def run_impl(case):
    return run_session([case])[0][0]


def coq_hist(obs):
    def nl(xs):
        return "[" + "; ".join(str(int(x)) for x in xs) + "]"
    f = [("h_k", str(obs["k"])), ("h_calls", "[" + "; ".join(obs["calls"]) + "]"),
         ("h_cov_alias", nl(obs["cov_alias"])), ("h_mean_alias", nl(obs["mean_alias"])),
         ("h_cov_hold", "[" + "; ".join(nl(h) for h in obs["cov_hold"]) + "]"),
         ("h_mean_hold", "[" + "; ".join(nl(h) for h in obs["mean_hold"]) + "]")]
    return "{| " + ";\n   ".join(f"{k} := {v}" for k, v in f) + " |}"


def tolerances(case, out):
    """1e-7 of the scale of each output.  The floors are relative to the unit of the signal (1e-6 unit^2 for
    covariances, 1e-6 unit for means) -- an absolute floor would switch the comparison off for data in small
    units.  The gradient has two scales: d/d(mean parameter) is of order 1/unit, d/d(log kernel parameter)
    of order one."""
    u = float(case.get("unit", 1.0))
    nm = out["n_mean"]
    sk = max(float(np.abs(out["K"]).max()), 1e-6 * u * u)
    sm = max(float(np.abs(out["pm"]).max()), float(np.abs(out["pmean"]).max()), 1e-6 * u)
    sg = max(float(np.abs(out["grad"][nm:]).max(initial=0.0)), 1.0)
    sgm = max(float(np.abs(out["grad"][:nm]).max(initial=0.0)), 1.0)
    sl = max(abs(out["lml"]), 1.0)
    return {"c": 1e-7 * sk, "m": 1e-7 * sm, "g": 1e-7 * sg, "gm": 1e-7 * sgm, "l": 1e-7 * sl}


def coq_case(case, out):
    t = tolerances(case, out)
    _, y, e, _, _ = arrays(case)
    nm = out["n_mean"]
    f = [("l_m", C.cnat(case["m"])), ("l_n", C.cnat(case["n"])),
         ("l_A", MX.qmat(out["A"])), ("l_y", MX.qvec(out["y"])), ("l_err", MX.qvec(e)),
         ("l_K", MX.qmat(out["K"])), ("l_pm", MX.qvec(out["pm"])),
         ("l_dK", C.clist([MX.qmat(g) for g in out["dK"]], ";\n     ")),
         ("l_dmu", C.clist([MX.qvec(g) for g in out["dmu"]])),
         ("o_pmean", MX.qvec(out["pmean"])), ("o_pcov", MX.qmat(out["pcov"])),
         ("o_mean_only", MX.qvec(out["mean_only"])),
         ("o_lml", C.cq(out["lml"])), ("o_lml_g", C.cq(out["lml_g"])),
         ("o_grad_mean", MX.qvec(out["grad"][:nm])), ("o_grad_cov", MX.qvec(out["grad"][nm:])),
         ("t_c", MX.qtol(t["c"])), ("t_m", MX.qtol(t["m"])), ("t_g", MX.qtol(t["g"])), ("t_gm", MX.qtol(t["gm"])),
         ("t_l", MX.qtol(t["l"]))]
    return "{| " + ";\n   ".join(f"{k} := {v}" for k, v in f) + " |}"


# ---------------------------------------------------------------- the property, independently
def exact_posterior(case, out):
    A, y, e, _, _ = arrays(case)
    Af, K = MX.fmat(A), MX.fmat(out["K"])
    m = case["m"]
    S = [[C.frac(e[i]) ** 2 if i == j else Fraction(0) for j in range(m)] for i in range(m)]
    AK = MX.f_mul(Af, K)
    J = MX.f_add(MX.f_mul(AK, MX.f_tr(Af)), S)
    pm = MX.fmat(out["pm"])
    r = MX.f_sub(MX.fmat(y), MX.f_mul(Af, pm))
    KAt = MX.f_tr(AK)                     # K is symmetric up to rounding; use (A K)^T = K^T A^T
    KAt = MX.f_mul(K, MX.f_tr(Af))
    cov = MX.f_sub(K, MX.f_mul(KAt, MX.f_solve(J, AK)))
    mean = MX.f_add(pm, MX.f_mul(KAt, MX.f_solve(J, r)))
    quad = MX.f_mul(MX.f_tr(r), MX.f_solve(J, r))[0][0]
    return mean, cov, J, quad


def f_det(M):
    n = len(M)
    M = [list(r) for r in M]
    det = Fraction(1)
    for k in range(n):
        p = next((i for i in range(k, n) if M[i][k] != 0), None)
        if p is None:
            return Fraction(0)
        if p != k:
            M[k], M[p] = M[p], M[k]
            det = -det
        det *= M[k][k]
        for i in range(k + 1, n):
            f = M[i][k] / M[k][k]
            M[i] = [a - f * b for a, b in zip(M[i], M[k])]
    return det


def oracle(case, out):
    bad = []
    t = tolerances(case, out)
    mean, cov, J, quad = exact_posterior(case, out)
    dm = MX.f_max_abs_diff(cov, out["pcov"])
    if dm > Fraction(t["c"]):
        bad.append(f"posterior covariance differs from K - K A^T (A K A^T + S)^-1 A K by {float(dm):.3e}")
    for name in ("pmean", "mean_only"):
        dm = MX.f_max_abs_diff(mean, out[name])
        if dm > Fraction(t["m"]):
            bad.append(f"{name} differs from the closed-form posterior mean by {float(dm):.3e}")
    if float(np.abs(out["pcov"] - out["pcov"].T).max()) > 2 * t["c"]:
        bad.append("posterior covariance is not symmetric")
    ev = np.linalg.eigvalsh((out["pcov"] + out["pcov"].T) / 2)
    if ev.min() < -10 * t["c"] * case["n"]:
        bad.append(f"posterior covariance has eigenvalue {ev.min():.3e} < 0")
    ev = np.linalg.eigvalsh(((out["K"] - out["pcov"]) + (out["K"] - out["pcov"]).T) / 2)
    if ev.min() < -10 * t["c"] * case["n"]:
        bad.append(f"prior minus posterior covariance has eigenvalue {ev.min():.3e} < 0")
    det = f_det(J)
    if det > 0:
        want = -0.5 * float(quad) - 0.5 * (math.log(det.numerator) - math.log(det.denominator))
        if abs(want - out["lml"]) > 10 * t["l"]:
            bad.append(f"marginal_likelihood = {out['lml']!r} but the log-density of the data is {want!r} (+ const)")
    if abs(out["lml"] - out["lml_g"]) > t["l"]:
        bad.append("marginal_likelihood_gradient reports a different evidence value")
    # gradient against central differences of the implementation's own evidence
    A, y, e, pos, theta = arrays(case)
    u = float(case.get("unit", 1.0))
    nm = out["n_mean"]
    steps = [1e-5 * (u if i < nm else 1.0) for i in range(theta.size)]
    gmax = [max(float(np.abs(out["grad"][:nm]).max(initial=0.0)), 1.0)] * nm + \
           [max(float(np.abs(out["grad"][nm:]).max(initial=0.0)), 1.0)] * (theta.size - nm)
    try:
        inv = INV()(y=y, y_err=e, model_matrix=A, parameter_spatial_positions=pos,
                    prior_covariance_function=MX.make_kernel(case["kernel"]),
                    prior_mean_function=MX.make_mean(case["mean"]))
        for i in range(theta.size):
            h = steps[i]
            tp, tm_ = theta.copy(), theta.copy()
            tp[i] += h
            tm_[i] -= h
            fd = (inv.marginal_likelihood(tp) - inv.marginal_likelihood(tm_)) / (2 * h)
            if abs(fd - out["grad"][i]) > 1e-4 * max(abs(fd), gmax[i]):
                bad.append(f"gradient component {i} = {float(out['grad'][i])!r} but central differences give {fd!r}")
    except Exception as ex:
        bad.append(f"evidence could not be differenced: {ex}")
    # ... and against central differences of the log-density of the data itself (prior built by fresh
    # kernel / mean objects on the case's own positions, exact rational algebra, one logarithm)
    try:
        for i in range(theta.size):
            h = steps[i]
            tp, tm_ = theta.copy(), theta.copy()
            tp[i] += h
            tm_[i] -= h
            fd = (reference_evidence(case, tp) - reference_evidence(case, tm_)) / (2 * h)
            if abs(fd - out["grad"][i]) > 1e-4 * max(abs(fd), gmax[i]):
                bad.append(f"gradient component {i} = {float(out['grad'][i])!r} but the log-density of the data has "
                           f"derivative {fd!r}")
    except Exception as ex:
        bad.append(f"the log-density of the data could not be differenced: {ex}")
    return bad


def reference_evidence(case, theta):
    """-1/2 r^T J^-1 r - 1/2 ln det J  with J = A K A^T + diag(y_err^2), K and the prior mean from fresh
    kernel / mean objects on the case's own positions."""
    A, y, e, _, _ = arrays(case)
    with warnings.catch_warnings():
        warnings.simplefilter("ignore")
        fcov, fmean = fresh_prior(case)
        nm = int(fmean.n_params)
        K = np.array(fcov.build_covariance(theta[nm:]), dtype=float)
        pm = np.array(fmean.build_mean(theta[:nm]), dtype=float).reshape(-1)
    Af = MX.fmat(A)
    m = case["m"]
    S = [[C.frac(e[i]) ** 2 if i == j else Fraction(0) for j in range(m)] for i in range(m)]
    J = MX.f_add(MX.f_mul(MX.f_mul(Af, MX.fmat(K)), MX.f_tr(Af)), S)
    r = MX.f_sub(MX.fmat(y), MX.f_mul(Af, MX.fmat(pm)))
    quad = MX.f_mul(MX.f_tr(r), MX.f_solve(J, r))[0][0]
    det = f_det(J)
    if det <= 0:
        raise ZeroDivisionError("det J <= 0")
    return -0.5 * float(quad) - 0.5 * (math.log(det.numerator) - math.log(det.denominator))


# ---------------------------------------------------------------- driver
def describe(case):
    d = {k: case[k] for k in ("m", "n", "d", "shape", "A", "y", "y_err", "positions", "kernel", "mean", "theta")}
    d.update({"unit": case.get("unit", 1.0), "gain": case.get("gain", 1.0),
              "cov_arg": case.get("cov_arg", "instance"), "mean_arg": case.get("mean_arg", "instance")})
    return d


def dyadic(x):
    return math.frexp(x)[0] == 0.5


def unit_name(x):
    mant, ex = math.frexp(x)
    return f"2^{ex - 1}" if mant == 0.5 else f"{x:g}"


def session_fails(session, i):
    """Does inverter i of the session (all constructed first, then evaluated) violate the property?"""
    outs, _ = run_session(session)
    o = outs[i]
    if o["status"] != "ok":
        return True, o
    return bool(oracle(session[i], o)), o


def shrink_history(session, i):
    """The smallest sub-history (the inverter alone, or with one other construction) that still fails."""
    cands = [([session[i]], 0)]
    cands += [([session[i], session[j]], 0) if j > i else ([session[j], session[i]], 1)
              for j in range(len(session)) if j != i]
    for cand, idx in cands:
        try:
            if session_fails(cand, idx)[0]:
                return cand, idx
        except Exception:
            pass
    return session, i


def replay_of(cases, sessions, where, k):
    """Replay record of case k: the case, and the construction history of its process when that matters."""
    si, i = where[k]
    sess = [cases[j] for j in sessions[si]]
    if len(sess) > 1:
        sess, i = shrink_history(sess, i)
    rp = {"case": describe(sess[i])}
    if len(sess) > 1:
        rp["history"] = [describe(c) for c in sess]
        rp["index"] = i
        rp["note"] = ("all inverters of `history` are constructed in this order in one process, then inverter "
                      "`index` is evaluated")
    return rp


def run(rep: C.Report, tier: str) -> int:
    r = C.rng_for(PROP, "cases")
    n_cases = 120 if tier == "quick" else 1500
    n_scale = 32 if tier == "quick" else 300
    n_hist = 12 if tier == "quick" else 100
    C.clean_gen(PROP)
    import time
    phase, t_ph = {}, time.time()

    def lap(name):
        nonlocal t_ph
        phase[name] = round(time.time() - t_ph, 2)
        t_ph = time.time()
        rep.coverage["phase_wall_s"] = phase
    C.prove_and_audit(rep, PROP, THEOREMS)
    lap("audit")

    cases, sessions, stream = [], [], []
    for k in range(n_cases):
        cases.append(gen_case(r, k, tier))
        sessions.append([len(cases) - 1])
        stream.append("cases")
    rs = C.rng_for(PROP, "scales")
    for k in range(n_scale):
        unit, gain = UNIT_PAIRS[k % len(UNIT_PAIRS)]
        # k + k // len(UNIT_PAIRS): the pair -> (kernel, mean, shape) assignment changes from round to round
        # units that are not powers of two make every rational of the model 53 bits wide (5-10 times the cost)
        top = 6 if dyadic(unit) and dyadic(gain) else 4
        cases.append(gen_case(rs, k + 7 * (k // len(UNIT_PAIRS)), tier, unit=unit, gain=gain, top=top))
        sessions.append([len(cases) - 1])
        stream.append("scales")
    rh = C.rng_for(PROP, "histories")
    for _ in range(n_hist):
        sess = gen_history(rh, tier)
        sessions.append(list(range(len(cases), len(cases) + len(sess))))
        cases.extend(sess)
        stream.extend(["histories"] * len(sess))

    outs, observed, where = [None] * len(cases), [], {}
    for si, idx in enumerate(sessions):
        so, obs = run_session([cases[k] for k in idx])
        observed.append(obs)
        for i, k in enumerate(idx):
            outs[k] = so[i]
            where[k] = (si, i)
        rep.count(f"inverters_constructed_before_first_use={len(idx)}")
    for k, (case, out) in enumerate(zip(cases, outs)):
        rep.count("stream=" + stream[k])
        rep.count("shape=" + case["shape"])
        rep.count(f"m={case['m']}")
        rep.count(f"n={case['n']}")
        rep.count(f"rank(A)={case['rank']}" + ("<min(m,n)" if case["rank"] < min(case["m"], case["n"]) else ""))
        rep.count(f"d={case['d']}")
        rep.count("kernel=" + MX.kernel_name(case["kernel"]))
        rep.count("mean=" + case["mean"])
        rep.count("kernel_argument=" + case["cov_arg"])
        rep.count("mean_argument=" + case["mean_arg"])
        rep.count(f"signal_unit={unit_name(case['unit'])}")
        rep.count(f"model_gain={unit_name(case['gain'])}")
        _e = MX.unhex(case["y_err"])
        rep.count("min(y_err)<=1e%d" % math.ceil(math.log10(float(_e.min()))))
        rep.count("cond(I+KW)<=1e%d" % max(0, math.ceil(math.log10(case["cond_system"]))))
        rep.case(describe(case), nontrivial=case["rank"] > 0)
        if k < 2 or (stream[k] != "cases" and stream[k - 1] != stream[k]):
            rep.sample({"stream": stream[k],
                        "config": {k2: case[k2] for k2 in ("m", "n", "d", "shape", "rank", "mean", "unit", "gain",
                                                            "cov_arg", "mean_arg")},
                        "kernel": MX.kernel_name(case["kernel"]),
                        "impl_posterior_mean": out.get("pmean"), "impl_lml": out.get("lml")})

    lap("generate+run implementation")
    suspicious = {}
    ok_idx = [k for k, o in enumerate(outs) if o["status"] == "ok"]
    for k, o in enumerate(outs):
        if o["status"] != "ok":
            suspicious[k] = f"{o['status']} in {o['stage']}: {o['error']}"
        elif o.get("foreign"):
            suspicious[k] = o["foreign"]

    # the construction histories: model (Model/InversionHistory.v) against the observed objects
    hbody = ("Definition cases : list hist_case :=\n [" + ";\n  ".join(coq_hist(o) for o in observed) + "].")
    hfile = C.write_case_file(PROP, "history", HIST_HEADER, hbody, ["failing_hist cases"])
    hist_fail = {}
    ok, res, log = C.run_case_file(hfile, timeout=600)
    if not ok or 0 not in res:
        rep.obligation(False, 5 * len(sessions))
        rep.violation("C17/correspondence-run", "the history file did not evaluate",
                      {"theorem_or_correspondence": "correspondence file history.v", "log": log}, False)
    else:
        fails = MX.decode_failures(res[0])
        for si in range(len(sessions)):
            fo = fails.get(si, [])
            rep.obligation(True, 5 - len(fo))
            if fo:
                rep.obligation(False, len(fo))
                hist_fail[si] = fo
    rep.coverage["history_sessions"] = len(sessions)
    rep.coverage["history_obligations_per_session"] = HIST_OBLIGATION_NAMES

    def weight(k):
        w = (cases[k]["n"] ** 4 + cases[k]["m"] ** 4) * (1 + len(outs[k]["dK"]))
        return w * (1 if dyadic(cases[k]["unit"]) else 5) * (1 if dyadic(cases[k]["gain"]) else 8)
    order = sorted(ok_idx, key=lambda k: -weight(k))
    nfiles = max(1, min(len(order), 14 if tier == "quick" else 56))
    buckets = [[] for _ in range(nfiles)]
    loads = [0] * nfiles
    for k in order:
        j = loads.index(min(loads))
        buckets[j].append(k)
        loads[j] += weight(k)
    files, index = [], []
    texts = {k: coq_case(cases[k], outs[k]) for k in ok_idx}
    for j, bucket in enumerate(buckets):
        if not bucket:
            continue
        body = ("Definition cases : list lin_case :=\n [" + ";\n  ".join(texts[k] for k in bucket) + "].")
        files.append(C.write_case_file(PROP, f"cases_{j}", HEADER, body, ["failing_lin cases"]))
        index.append(bucket)
    lap("history model")
    results = C.run_case_files(files, jobs=14, timeout=1500)
    lap("case files (vm_compute)")
    obligation_fail = {}
    n_checked = 0
    for p, idx, (ok, res, log) in zip(files, index, results):
        if not ok or 0 not in res:
            rep.obligation(False, 8 * len(idx))
            rep.violation("C17/correspondence-run", f"case file {p.name} did not evaluate",
                          {"theorem_or_correspondence": f"correspondence file {p.name}", "log": log}, False)
            continue
        fails = MX.decode_failures(res[0])
        for j, k in enumerate(idx):
            fo = fails.get(j, [])
            rep.obligation(True, 8 - len(fo))
            if fo:
                rep.obligation(False, len(fo))
                obligation_fail.setdefault(k, []).extend(fo)
        n_checked += len(idx)

    # evidence value: one interval goal per case (a slice of the cases in the quick tier)
    # (every scaled case: the evidence is the one output in which an absolute constant can hide)
    step = 3 if tier == "quick" else 2
    ev_idx = [k for j, k in enumerate(ok_idx) if j % step == 0 or (stream[k] == "scales" and tier == "quick")]
    from concurrent.futures import ThreadPoolExecutor
    goals = [(k, f"lml_goal case_{k}", "lml_tac") for k in ev_idx]
    chunks = [goals[i::14] for i in range(14) if goals[i::14]]

    def run_chunk(ic):
        i, ch = ic
        pre = "\n".join([EV_PREAMBLE] + [f"Definition case_{k} : lin_case :=\n {texts[k]}." for k, _, _ in ch])
        return IV._run_chunk(PROP, f"evidence_{i}", pre, "", ch, 900)
    failed, broken = [], []
    with ThreadPoolExecutor(max_workers=14) as ex:
        for fl, br in ex.map(run_chunk, enumerate(chunks)):
            failed.extend(fl)
            if br:
                broken.append(br)
    lap("evidence goals (coq-interval)")
    for br in broken:
        rep.obligation(False)
        rep.violation("C17/evidence-run", "an evidence goal file did not run",
                      {"theorem_or_correspondence": "Matrix.InversionEvidence.lml_goal", "log": br}, False)
    rep.obligation(True, len(goals) - len(failed))
    for k, log in failed:
        rep.obligation(False)
        obligation_fail.setdefault(k, []).append(8)
    for k, fo in obligation_fail.items():
        suspicious[k] = "; ".join(filter(None, [suspicious.get(k)] + [OBLIGATION_NAMES[o] for o in fo]))
    rep.coverage["cases_validated_against_impl"] = n_checked
    rep.coverage["evidence_goals"] = len(goals)
    rep.coverage["correspondence_disagreements"] = len(suspicious)
    rep.coverage["obligations_per_case"] = OBLIGATION_NAMES

    for si, fo in hist_fail.items():
        for k in sessions[si]:
            if outs[k]["status"] == "ok" and where[k][1] < len(sessions[si]):
                i = where[k][1]
                mine = [0] if 0 in fo else []
                for o, key in ((1, "cov_alias"), (2, "mean_alias")):
                    al = observed[si][key]
                    if o in fo and (al[i] != i or any(a == i for j, a in enumerate(al) if j != i)):
                        mine.append(o)
                if 3 in fo and i not in observed[si]["cov_hold"][i]:
                    mine.append(3)
                if 4 in fo and i not in observed[si]["mean_hold"][i]:
                    mine.append(4)
                if mine:
                    suspicious[k] = "; ".join(filter(None, [suspicious.get(k)] + [HIST_OBLIGATION_NAMES[o] for o in mine]))
    rep.coverage["correspondence_disagreements"] = len(suspicious)

    def hist_text(k, rp=None):
        n, i = len(sessions[where[k][0]]), where[k][1]
        if rp is not None and "history" in rp:
            n, i = len(rp["history"]), rp["index"]
        return "" if n == 1 else f" [inverter {i + 1} of {n} constructed in the same process before any was used]"

    reported = 0
    # silently wrong numbers first, then exceptions, then the rest
    for k in sorted(suspicious, key=lambda k: (1 if outs[k]["status"] != "ok" else 0 if outs[k].get("foreign") else 2, k)):
        if reported >= 12:
            break
        reported += 1
        case, out = cases[k], outs[k]
        if out["status"] != "ok":
            rp = replay_of(cases, sessions, where, k)
            rp["impl"] = {k2: out[k2] for k2 in ("status", "stage", "error")}
            rep.violation("C17/exception", f"GpLinearInverter failed on a valid input ({suspicious[k]})" + hist_text(k, rp),
                          rp, True)
            continue
        bad = oracle(case, out)
        if bad:
            rp = replay_of(cases, sessions, where, k)
            rp["failing_obligations"] = obligation_fail.get(k)
            rp["history_obligations"] = hist_fail.get(where[k][0])
            rep.violation("C17/property", "; ".join(bad[:3]) + hist_text(k, rp), rp, True)
        else:
            rep.violation("C17/correspondence",
                          "implementation and model disagree (" + suspicious[k] +
                          "), but the property was not seen to fail on this input" + hist_text(k),
                          {"theorem_or_correspondence": "Matrix.InversionCheck.check_lin / Model.InversionHistory.check_hist "
                                                        "(correspondence with GpLinearInverter)",
                           "failing_obligations": obligation_fail.get(k),
                           "history_obligations": hist_fail.get(where[k][0]),
                           "case": describe(case),
                           "history": [describe(cases[j]) for j in sessions[where[k][0]]], "index": where[k][1]}, False)

    n_or = 0
    for j, k in enumerate(ok_idx):
        if j % (6 if tier == "quick" else 3) and not (stream[k] != "cases" and j % 2 == 0 and tier == "quick"):
            continue
        if k in suspicious:
            continue
        bad = oracle(cases[k], outs[k])
        n_or += 1
        if bad:
            rp = replay_of(cases, sessions, where, k)
            rep.violation("C17/property", "; ".join(bad[:3]) + hist_text(k, rp), rp, True)
    rep.coverage["oracle_runs"] = n_or
    lap("oracle")

    rep.assumptions = [
        "scipy.linalg.solve / cholesky / solve_triangular are exact in the theorems; the run compares every output "
        "to 1e-7*scale on inputs with cond(I+KW), cond(J) <= 1e6",
        "kernel and mean-function values and their hyper-parameter gradients are inputs of the model (C10); they are "
        "built by fresh kernel / mean objects on the inverter's own positions, and the inverter's own objects must "
        "reproduce them (C17_history_own_positions is the theorem, history.v the correspondence)",
        "a caller-made kernel / mean instance is given to at most one constructor (hypothesis wf_history)",
        "that the trace forms of the gradient are the derivative of the evidence (Jacobi's formula, "
        "d(J^-1) = -J^-1 dJ J^-1) is cited, not proved; it is tested [R] by central differences of the "
        "implementation's own marginal_likelihood",
        "sum_i ln L_ii = 1/2 ln det J uses ln of a product (Reals); det J = (prod L_ii)^2 is a theorem",
        "ListOps implements the same algebra as the MathComp instance: not proved (DESIGN 2.3)",
    ]
    return rep.finish(
        level="proof",
        checker_cmd="make -C /verif/coq + coqc on coq/gen/C17/cases_*.v (vm_compute) and evidence_*.v (coq-interval)",
        trusted_base=C.KERNEL_TB + ["axioms: none in the C17 theorems (closed under the global context); the evidence "
                                    "goals use Coq's Reals (ClassicalDedekindReals.sig_forall_dec, sig_not_dec, "
                                    "functional_extensionality_dep) and coq-interval (Uint63 primitives)",
                                    "Matrix/ListOps.v (executable matrix instance; inverses verified at run time)"],
        rule="configurations walk kernel (SE, RQ, SE+WN, SE+RQ, ChangePoint(SE,RQ)) x mean (3) x shape of A (tall, "
             "wide, square, rank-deficient: duplicated row / zero column / rank 1 / zero matrix); m, n <= 7; positions "
             "in 1-2 D; A entries multiples of 1/16; resampled until cond <= 1e6; a case is non-trivial when A != 0. "
             "Stream `scales`: the same walk with the signal in units 2^-40..2^20, 3e-9..1e4 and / or a forward-model "
             "gain 2^-20..2^10, 1e-6, 1e-3 (20 fixed pairs, all visited every run; y_err down to ~1e-13), tolerances "
             "relative to the unit. Stream `histories`: sessions of 2-4 inverters constructed in one process before any "
             "is used, >= 2 of them with the kernel left at its default, the others default / class / instance, 3 in 4 "
             "sessions with one common number of parameters, positions always different; the model of the object "
             "structure (Model/InversionHistory.v) is evaluated on every session (also the single-inverter ones)")


def replay(path):
    import json
    d = json.load(open(path))
    rp = d["replay"]
    if "case" not in rp:
        print("replay names a broken theorem / correspondence:", rp.get("theorem_or_correspondence"))
        return 1
    session, i = (rp["history"], rp["index"]) if "history" in rp else ([rp["case"]], 0)
    if len(session) > 1:
        print(f"constructing {len(session)} inverters in this process, then evaluating number {i + 1}")
    outs, obs = run_session(session)
    case, out = session[i], outs[i]
    if out["status"] != "ok":
        print("implementation fails:", out)
        return 1
    bad = oracle(case, out)
    print("implementation returns: posterior mean", out["pmean"], "evidence", out["lml"])
    if out.get("foreign"):
        print("note:", out["foreign"])
    print("property failures:", bad)
    return 1 if bad else 0
