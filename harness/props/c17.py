"""C17 -- GP linear inversion returns the exact linear-Gaussian posterior.

Theorems: coq/theories/Properties/C17.v about Matrix/Inversion.v instantiated at
MathComp matrices (any realFieldType, any m, n, ANY model matrix).  Tie to the
code (DESIGN 2.3): the real GpLinearInverter is constructed for tall, wide,
square and rank-deficient model matrices and evaluated at a hyper-parameter
vector; the caller's A, y, y_err, the matrices the implementation's kernel /
mean objects build (K, prior mean, gradient matrices) and every output are
written as exact rationals to coq/gen/C17/*.v, where the same model text at
ListOps (exact rational solves) is evaluated by vm_compute and compared inside
Coq (Matrix/InversionCheck.v, eight obligations per case, 1e-7 * scale).  The
evidence VALUE (it contains a logarithm) is checked by one coq-interval goal per
case on the exact rationals -0.5 r^T J^-1 r and det J.

Inputs are conditioned: cond(I + K W) and cond(A K A^T + S) <= 1e6.

Three input streams:
  cases      one inverter per process history, explicit kernel / mean instances, data of order one;
  scales     the same walk with the SIGNAL in units 2^-40 .. 2^20 / 1e-7 .. 1e4 (kernel amplitude, mean
             parameters, data and data errors scaled) and / or the FORWARD MODEL with a gain 2^-20 .. 2^10
             (data errors down to ~1e-13): all tolerances are relative to the unit;
  histories  sessions of 2-4 inverters constructed one after the other in the same process BEFORE any of
             them is evaluated, with the kernel / mean arguments left at their defaults, given as classes
             or as instances, same or different numbers of parameters, different positions.
Round 4 added two more:
  representations  the hyper-parameter vector handed to EVERY method as an integer array (int64 / int32), a list
             or tuple of Python ints (whole-number values, negative ones included), a list / tuple of Python
             floats, or a float32 array, and / or the constructor's y, model matrix and positions as int64 /
             int32 / float32 arrays (y_err as an integer array is refused by the pinned constructor: refused-or-
             right).  The outputs go through the same eight Coq obligations; coq/gen/C17/typed.v additionally
             evaluates Model/InversionRepr.v (check_typed, Matrix/InversionReprCheck.v; theorems C17_repr_*);
  large      120 .. 1000 data rows at ordinary error levels (1-3 %, 0.5-1 %, 20-50) and in extreme units
             (2^-13, 2^17), plus one problem whose product of the Cholesky diagonal is a SUBNORMAL double:
             prod(diag L) is 1e-2400 .. 1e+1500 there.  Both evidence routines are compared with
             lin_lml_value (RealModel/InversionValue.v, theorems C17_evidence_* of Properties/C17Large.v) on
             the implementation's OWN Cholesky factor by coq-interval goals, and [oracle] with an independent
             slogdet-based log-density; the gradient with central differences of that log-density.
K, the prior mean and their gradients that go into the model are built by FRESH kernel / mean objects on
the inverter's OWN positions; Model/InversionHistory.v (theorems C17_history_*) is the model of which
object an inverter holds and whose spatial data it carries, evaluated by vm_compute on the generated
history (coq/gen/C17/history.v) against what is observed on the real objects.
"""
from __future__ import annotations

import math
import os
import warnings

# single-threaded BLAS: the small cases gain nothing from threads, and on a busy machine the spinning worker
# threads of OpenBLAS make the 400 .. 1000-row factorisations of the `large` stream hundreds of times slower
for _v in ("OMP_NUM_THREADS", "OPENBLAS_NUM_THREADS", "MKL_NUM_THREADS"):
    os.environ.setdefault(_v, "1")
from fractions import Fraction

import numpy as np

from lib import common as C
from lib import matrix as MX
from lib import interval as IV

PROP = "C17"
THEOREMS = ["C17_inv_sigma", "C17_post_cov_closed", "C17_post_cov_precision",
            "C17_post_mean_closed", "C17_mean_only_eq_full", "C17_post_cov_sym",
            "C17_post_cov_order", "C17_evidence_value", "C17_gradient_forms",
            "C17_history_posterior", "C17_history_own_positions", "C17_history_shared_default_refuted"]

REPR_THEOREMS = ["C17_repr_values_only", "C17_repr_as_float", "C17_repr_gradient_exact",
                 "C17_repr_gradient_values_only", "C17_repr_trunc", "C17_repr_like_float_ok", "C17_repr_like_refuted"]
LARGE_THEOREMS = ["C17_evidence_logdet", "C17_evidence_sum_is_linear", "C17_evidence_product_form_real",
                  "C17_evidence_product_underflows", "C17_evidence_product_overflows",
                  "C17_evidence_product_form_refuted"]

HEADER = MX.HEADER.format(mods="Matrix.Inversion Matrix.InversionCheck")
TYPED_HEADER = MX.HEADER.format(mods="Matrix.Inversion Matrix.InversionCheck Matrix.InversionReprCheck") + \
    "From IT Require Import Model.InversionRepr.\n"
LARGE_PREAMBLE = """From Coq Require Import Reals List Lra.
From Interval Require Import Tactic.
From IT Require Import RealModel.SelectionValue RealModel.InversionValue Proofs.InversionValueProofs.
Import ListNotations.
Open Scope R_scope.
"""
HIST_HEADER = """From Coq Require Import List.
From IT Require Import Model.InversionHistory.
Import ListNotations.
"""
EV_PREAMBLE = """From Coq Require Import Reals List QArith.
From Interval Require Import Tactic.
From IT Require Import Matrix.MxOps Matrix.ListOps Matrix.Inversion Matrix.InversionCheck Matrix.InversionEvidence.
Import ListNotations.
Open Scope Q_scope.
"""

OBLIGATION_NAMES = {
    0: "model could not be evaluated (an inverse failed its run-time verification)",
    1: "calculate_posterior covariance differs from (I + K W)^-1 K",
    2: "calculate_posterior mean differs from the model",
    3: "calculate_posterior_mean differs from the model",
    4: "an output differs from the closed-form linear-Gaussian posterior",
    5: "the posterior covariance is not symmetric / its diagonal is outside [0, prior variance]",
    6: "the reported evidence gradient differs from the trace forms",
    7: "marginal_likelihood_gradient returns a different value than marginal_likelihood",
    8: "marginal_likelihood differs from -1/2 r^T J^-1 r - 1/2 ln det J",
}

TYPED_OBLIGATION_NAMES = {
    0: "the values of the hyper-parameter vector handed over are not the reference values (harness error)",
    1: "the reported gradient is not the model gradient for the hyper-parameter vector as it was handed over",
    2: "the reported gradient is the model gradient TRUNCATED toward zero: it was written into a buffer that has "
       "the integer storage class of the hyper-parameter vector",
}

HIST_OBLIGATION_NAMES = {
    0: "the generated history is not well-formed (harness error)",
    1: "two inverters hold the same kernel object (or the model's sharing structure is not the observed one)",
    2: "two inverters hold the same mean-function object (or the model's sharing structure is not the observed one)",
    3: "an inverter's kernel object does not carry the inverter's own parameter positions",
    4: "an inverter's mean-function object does not carry the inverter's own parameter positions",
}

KERNELS = [["SE"], ["RQ"], ["sum", ["SE"], ["WN"]], ["sum", ["SE"], ["RQ"]], ["CP", [["SE"], ["RQ"]], 0]]
MEANS = ["const", "linear", "quadratic"]
SHAPES = ["tall", "wide", "square", "rank_deficient"]
COND_MAX = 1e6
# (unit of the signal, gain of the forward model): data and data errors are in units of unit * gain
UNIT_PAIRS = [(2.0 ** -20, 1.0), (1.0, 2.0 ** -20), (1e-6, 1.0), (2.0 ** -30, 1.0), (2.0 ** -10, 2.0 ** -10),
              (2.0 ** -23, 1.0), (1.0, 1e-6), (2.0 ** 10, 1.0), (1e-7, 1.0), (2.0 ** -10, 1.0), (2.0 ** -20, 2.0 ** -20),
              (2.0 ** 20, 2.0 ** -20), (3e-9, 1.0), (1.0, 2.0 ** 10), (2.0 ** -40, 1.0), (1e-3, 1e-3),
              (2.0 ** 20, 1.0), (2.0 ** -27, 2.0 ** 10), (1e4, 1.0), (2.0 ** -16, 2.0 ** -8)]
CLASS_KERNELS = [["SE"], ["RQ"]]
# how the hyper-parameter vector is handed to the methods / how y, A, positions are handed to the constructor
THETA_REPRS = ["int64", "list_int", "float64", "int32", "tuple_int", "list_float", "float32", "tuple_float"]
# ("int64:y": only y is an integer array (counts), model matrix and positions are ordinary float64 arrays)
INPUT_REPRS = ["float64", "int64", "int64:y", "int32", "float32", "float64", "int64+err"]
WHOLE_THETA = ("int64", "int32", "list_int", "tuple_int")


def INV():
    from inference.gp import GpLinearInverter
    return GpLinearInverter


def grid(r, lo, hi, q=64):
    return r.randint(int(lo * q), int(hi * q)) / q


# ---------------------------------------------------------------- generation
def gen_A(r, shape, n_fixed=None, top=7, whole=False):
    if whole:
        return gen_A_whole(r, shape, top)
    if n_fixed is not None:
        n = n_fixed
        if shape == "tall":
            m = r.randint(n + 1, top)
        elif shape == "wide":
            m = r.randint(1, n - 1)
        elif shape == "square":
            m = n
        else:
            m = r.randint(2, top)
    elif shape == "tall":
        n = r.randint(1, top - 2)
        m = r.randint(n + 1, top)
    elif shape == "wide":
        m = r.randint(1, top - 2)
        n = r.randint(m + 1, top)
    elif shape == "square":
        m = n = r.randint(1, top - 1)
    else:
        m, n = r.randint(2, top), r.randint(2, top)
    A = np.array([[grid(r, -1.5, 1.5, 16) for _ in range(n)] for _ in range(m)], dtype=float)
    if shape == "rank_deficient":
        kind = r.choice(["dup_row", "zero_col", "rank1", "zero"])
        if kind == "dup_row":
            A[-1] = A[0]
        elif kind == "zero_col":
            A[:, r.randrange(n)] = 0.0
        elif kind == "rank1":
            u = np.array([grid(r, -1.5, 1.5, 8) for _ in range(m)])
            v = np.array([grid(r, -1.5, 1.5, 8) for _ in range(n)])
            A = np.outer(u, v)
        else:
            A[:] = 0.0
    return A


def gen_A_whole(r, shape, top):
    """Model matrices with whole-number entries (-2 .. 2), same shapes as gen_A."""
    if shape == "tall":
        n = r.randint(1, top - 2)
        m = r.randint(n + 1, top)
    elif shape == "wide":
        m = r.randint(1, top - 2)
        n = r.randint(m + 1, top)
    elif shape == "square":
        m = n = r.randint(1, top - 1)
    else:
        m, n = r.randint(2, top), r.randint(2, top)
    A = np.array([[r.randint(-2, 2) for _ in range(n)] for _ in range(m)], dtype=float)
    if shape == "rank_deficient":
        kind = r.choice(["dup_row", "zero_col", "rank1"])
        if kind == "dup_row":
            A[-1] = A[0]
        elif kind == "zero_col":
            A[:, r.randrange(n)] = 0.0
        else:
            A = np.outer([r.choice([-1, 1, 2]) for _ in range(m)], [r.randint(-1, 1) for _ in range(n)]).astype(float)
    return A


def whole_kernel_hyperpars(r, spec, d):
    """Whole-number hyper-parameters (log-amplitudes 0 / 1, log-scales -1 / 0 / 1, log-noise -2 / -1, change
    point at 1 / 2 / 3 of width 1): what a caller writes as array([2, 0, -1])."""
    k = spec[0]
    if k == "SE":
        return [r.choice([0, 1])] + [r.choice([-1, 0, 1]) for _ in range(d)]
    if k == "RQ":
        return [r.choice([0, 1]), r.choice([0, 1])] + [r.choice([-1, 0, 1]) for _ in range(d)]
    if k == "WN":
        return [r.choice([-2, -1])]
    if k == "sum":
        return sum((whole_kernel_hyperpars(r, sp, d) for sp in spec[1:]), [])
    if k == "CP":
        out = sum((whole_kernel_hyperpars(r, sp, d) for sp in spec[1]), [])
        for _ in range(len(spec[1]) - 1):
            out += [r.choice([1, 2, 3]), 1]
        return out
    raise ValueError(spec)


def whole_mean_hyperpars(r, name, d):
    n = {"const": 1, "linear": 1 + d, "quadratic": 1 + 2 * d}[name]
    return [r.randint(-2, 2)] + [r.randint(-1, 1) for _ in range(n - 1)]


def gen_case(r, k, tier, unit=1.0, gain=1.0, kern=None, mean=None, shape=None,
             cov_arg="instance", mean_arg="instance", n_fixed=None, top=7,
             theta_repr="float64", input_repr="float64"):
    """unit: physical unit of the signal (kernel amplitudes, mean parameters); gain: scale of the forward
    model; the data and their errors are in units of unit * gain.  With unit = gain = 1 the draws are those
    of the first version of this check."""
    kern = kern or KERNELS[k % len(KERNELS)]
    mean = mean or MEANS[(k // len(KERNELS)) % len(MEANS)]
    shape = shape or SHAPES[(k + k // (len(KERNELS) * len(MEANS))) % len(SHAPES)]
    whole_y = input_repr.startswith("int")           # y (and y_err for "+err") are whole numbers
    whole_in = whole_y and ":y" not in input_repr    # ... and so are the model matrix and the positions
    whole_th = theta_repr in WHOLE_THETA
    for _ in range(300):
        A = gen_A(r, shape, n_fixed, top, whole=whole_in)
        m, n = A.shape
        if MX.kernel_has(kern, "CP") and n < 2:
            continue
        d = r.choice([1, 1, 2])
        if whole_in and n > 4:
            d = 2
        while True:
            if whole_in:
                pos = np.array([[r.randint(0, 4) for _ in range(d)] for _ in range(n)], dtype=float)
            else:
                pos = np.array([[grid(r, 0, 4) for _ in range(d)] for _ in range(n)], dtype=float)
            if n == 1 or min(np.abs(pos[i] - pos[j]).max() for i in range(n) for j in range(i)) >= 0.125:
                break
        if whole_y:
            y = np.array([r.randint(-3, 3) for _ in range(m)], dtype=float)
        else:
            y = np.array([grid(r, -3, 3, 256) for _ in range(m)], dtype=float)
        # multiples of 1/16: the exact 1/e^2 then has a small denominator (k^2 | 2^6 3^4 5^2 7^2 11^2), which
        # keeps the rational arithmetic of the model cheap; the code's own y_err**-2 is a rounded double
        if input_repr.endswith("+err"):
            e = np.array([r.randint(1, 2) for _ in range(m)], dtype=float)
        else:
            e = np.array([r.randint(2, 12) / 16 for _ in range(m)], dtype=float)
        if whole_th:
            theta = [float(v) for v in whole_mean_hyperpars(r, mean, d) + whole_kernel_hyperpars(r, kern, d)]
        else:
            theta = ([v * unit for v in MX.mean_hyperpars(r, mean, d)]
                     + MX.kernel_hyperpars(r, kern, n, d, 0.5 * unit, 3.0 * unit, 0.15 * unit, 0.6 * unit))
            if theta_repr != "float64":
                # multiples of 1/64: exactly representable in every float type the vector is handed over in
                theta = [round(v * 64) / 64 for v in theta]
        A, y, e = A * gain, y * (unit * gain), e * (unit * gain)
        case = {"m": m, "n": n, "d": d, "shape": shape, "rank": int(np.linalg.matrix_rank(A)),
                "A": MX.hexlist(A), "y": MX.hexlist(y), "y_err": MX.hexlist(e), "positions": MX.hexlist(pos),
                "kernel": kern, "mean": mean, "theta": MX.hexlist(theta),
                "unit": float(unit), "gain": float(gain), "cov_arg": cov_arg, "mean_arg": mean_arg,
                "theta_repr": theta_repr, "input_repr": input_repr}
        c1, c2 = conds(case)
        if c1 <= COND_MAX and c2 <= COND_MAX:
            case["cond_system"], case["cond_J"] = c1, c2
            return case
    raise RuntimeError("could not condition a case")


def gen_history(r, tier):
    """A session: 2-4 inverters constructed in the same process before any of them is used.  Two of them
    leave the kernel at its documented default (2 sessions in 3) or pass the same class; the others leave it
    out, pass a class or pass an instance; three sessions in four use the same number of parameters
    throughout (so that nothing but the positions distinguishes the inverters)."""
    N = r.choice([2, 2, 3, 3, 4])
    same_n = r.random() < 0.75
    n0 = r.randint(2, 5)
    forced = r.sample(range(N), 2)
    # the two forced constructions name the kernel in the same way: both leave it out (2 in 3) or both pass
    # the same class
    forced_arg = r.choice(["default", "default", "class"])
    forced_kern = ["SE"] if forced_arg == "default" else r.choice(CLASS_KERNELS)
    out = []
    for i in range(N):
        cov_arg = forced_arg if i in forced else r.choice(["default", "class", "instance", "instance"])
        mean_arg = r.choice(["default", "default", "class", "instance"])
        if i in forced:
            kern = forced_kern
        else:
            kern = ["SE"] if cov_arg == "default" else (r.choice(CLASS_KERNELS) if cov_arg == "class" else r.choice(KERNELS))
        mean = "const" if mean_arg == "default" else r.choice(MEANS)
        out.append(gen_case(r, 0, tier, kern=kern, mean=mean, shape=r.choice(SHAPES), cov_arg=cov_arg,
                            mean_arg=mean_arg, n_fixed=n0 if same_n else None, top=6))
    return out


def arrays(case):
    m, n, d = case["m"], case["n"], case["d"]
    return (MX.unhex(case["A"], (m, n)), MX.unhex(case["y"]), MX.unhex(case["y_err"]),
            MX.unhex(case["positions"], (n, d)), MX.unhex(case["theta"]))


def conds(case):
    A, y, e, pos, theta = arrays(case)
    cov = MX.make_kernel(case["kernel"])
    mean = MX.make_mean(case["mean"])
    cov.pass_spatial_data(pos)
    mean.pass_spatial_data(pos)
    K = cov.build_covariance(theta[mean.n_params:])
    W = A.T @ np.diag(e ** -2.0) @ A
    J = A @ K @ A.T + np.diag(e ** 2)
    if not (np.all(np.isfinite(K)) and np.all(np.isfinite(W))):
        return math.inf, math.inf
    return float(np.linalg.cond(np.eye(case["n"]) + K @ W)), float(np.linalg.cond(J))


# ---------------------------------------------------------------- representations
def typed_theta(theta, rep):
    """The hyper-parameter values as the caller hands them over.  Every representation holds the SAME values
    (asserted): integer kinds are used with whole-number vectors only, float32 with multiples of 1/64."""
    theta = np.asarray(theta, dtype=float)
    if rep == "float64":
        out = theta.copy()
    elif rep in ("int64", "int32"):
        out = np.array([int(v) for v in theta], dtype=rep)
    elif rep == "float32":
        out = np.array(theta, dtype=np.float32)
    elif rep in ("list_int", "tuple_int"):
        out = [int(v) for v in theta]
    elif rep in ("list_float", "tuple_float"):
        out = [float(v) for v in theta]
    else:
        raise ValueError(rep)
    if rep.startswith("tuple"):
        out = tuple(out)
    assert [float(v) for v in out] == [float(v) for v in theta], (rep, theta)
    return out


def typed_inputs(case, A, y, e, pos):
    """y, model matrix and positions as the caller's arrays (the values are the case's, exactly).  y_err is an
    integer array only in the `+err` variant (the pinned constructor refuses it: integers to negative powers);
    float32 is used for y and the model matrix only: y_err**-2 of a float32 y_err is a float32 quantity (a
    different likelihood at the 1e-7 level), and float32 positions make the kernel objects work on float32
    distances (their K then differs from the K of the same positions at the 1e-8 level: C10's subject)."""
    rep = case.get("input_repr", "float64")
    base, err = rep.split("+")[0].split(":")[0], rep.endswith("+err")
    if base == "float64":
        return A.copy(), y.copy(), e.copy(), pos.copy()

    def conv(a):
        b = np.array(a, dtype=base)
        assert np.array_equal(b.astype(float), a), (rep, a)
        return b
    if rep.endswith(":y"):
        return A.copy(), conv(y), e.copy(), pos.copy()
    return conv(A), conv(y), (conv(e) if err else e.copy()), (pos.copy() if base == "float32" else conv(pos))


def coq_num_list(typed):
    out = []
    for v in typed:
        if isinstance(v, (int, np.integer)) and not isinstance(v, bool):
            out.append(f"NInt ({int(v)})")
        else:
            out.append(f"NFlt {C.cq(float(v))}")
    return "[" + "; ".join(out) + "]"


# ---------------------------------------------------------------- running the code
def kernel_class(spec):
    from inference.gp import SquaredExponential, RationalQuadratic, WhiteNoise
    return {"SE": SquaredExponential, "RQ": RationalQuadratic, "WN": WhiteNoise}[spec[0]]


def mean_class(name):
    from inference.gp import ConstantMean, LinearMean, QuadraticMean
    return {"const": ConstantMean, "linear": LinearMean, "quadratic": QuadraticMean}[name]


def ctor_kwargs(case):
    """The kernel / mean arguments as the caller writes them: left out (the documented defaults
    SquaredExponential / ConstantMean), a class, or an instance made by the caller."""
    kw = {}
    ca, ma = case.get("cov_arg", "instance"), case.get("mean_arg", "instance")
    if ca == "instance":
        kw["prior_covariance_function"] = MX.make_kernel(case["kernel"])
    elif ca == "class":
        kw["prior_covariance_function"] = kernel_class(case["kernel"])
    else:
        assert case["kernel"] == ["SE"]
    if ma == "instance":
        kw["prior_mean_function"] = MX.make_mean(case["mean"])
    elif ma == "class":
        kw["prior_mean_function"] = mean_class(case["mean"])
    else:
        assert case["mean"] == "const"
    return kw


def fresh_prior(case, pos=None):
    """Kernel and mean objects of the case's specification that no inverter has seen, carrying the given
    positions (default: the case's own)."""
    _, _, _, own, _ = arrays(case)
    pos = own if pos is None else pos
    cov, mean = MX.make_kernel(case["kernel"]), MX.make_mean(case["mean"])
    cov.pass_spatial_data(pos.copy())
    mean.pass_spatial_data(pos.copy())
    return cov, mean


def same(a, b):
    a, b = np.asarray(a, dtype=float), np.asarray(b, dtype=float)
    return a.shape == b.shape and bool(np.all(np.isfinite(a))) and np.allclose(a, b, rtol=1e-12, atol=0)


def evaluate(inv, case):
    """All outputs of one inverter at the case's hyper-parameters.  K, the prior mean and their gradients
    that go into the model come from FRESH objects on the case's own positions (C10 ties those to the kernel
    formulas); what the inverter's own objects build is compared with them."""
    A, y, e, pos, theta = arrays(case)
    trep = case.get("theta_repr", "float64")
    stage = "reference kernel"
    try:
        with warnings.catch_warnings():
            warnings.simplefilter("ignore")
            fcov, fmean = fresh_prior(case)
            nm = int(fmean.n_params)
            # the reference prior is built from the float64 array of the VALUES, whatever object the inverter is
            # handed -- except for float32, where the kernel objects themselves work at the precision of what they
            # are given (exp of a float32 is a float32): the model then takes the K they build for that vector
            rt = np.array(theta, dtype=np.float32) if trep == "float32" else theta
            K, dK = fcov.covariance_and_gradients(rt[nm:])
            Kb = fcov.build_covariance(rt[nm:])
            mu, dmu = fmean.mean_and_gradients(rt[:nm])
            pm = fmean.build_mean(rt[:nm])
            # history dimension: the SAME array object is first used with other hyper-parameter
            # values (both posterior paths), then overwritten in place with the intended ones
            stage = "warm-up with perturbed hyper-parameters"
            buf = np.array(theta, dtype=float) + 0.25
            inv.calculate_posterior(buf)
            inv.calculate_posterior_mean(buf)
            inv.marginal_likelihood(buf)
            buf[:] = theta
            theta = buf if trep == "float64" else typed_theta(theta, trep)
            stage = "calculate_posterior"
            pmean, pcov = inv.calculate_posterior(theta)
            stage = "calculate_posterior_mean"
            mo = inv.calculate_posterior_mean(theta)
            stage = "marginal_likelihood"
            lml = float(inv.marginal_likelihood(theta))
            stage = "marginal_likelihood_gradient"
            lml_g, grad = inv.marginal_likelihood_gradient(theta)
            stage = "reading the kernel matrices"
            Ki, dKi = inv.cov.covariance_and_gradients(theta[inv.cov_slice])
            Kbi = inv.cov.build_covariance(theta[inv.cov_slice])
            mui, dmui = inv.mean.mean_and_gradients(theta[inv.mean_slice])
            pmi = inv.mean.build_mean(theta[inv.mean_slice])
            out = {"status": "ok", "K": np.array(Kb, dtype=float), "pm": np.array(pm, dtype=float).reshape(-1),
                   "dK": [np.array(g, dtype=float) for g in dK],
                   "dmu": [np.array(g, dtype=float).reshape(-1) for g in dmu],
                   "pmean": np.array(pmean, dtype=float).reshape(-1), "pcov": np.array(pcov, dtype=float),
                   "mean_only": np.array(mo, dtype=float).reshape(-1), "lml": lml, "lml_g": float(lml_g),
                   "grad": np.array(grad, dtype=float).reshape(-1), "n_mean": nm,
                   "A": np.array(inv.A, dtype=float), "y": np.array(inv.y, dtype=float),
                   "K_inv": np.array(Kbi, dtype=float), "pm_inv": np.array(pmi, dtype=float).reshape(-1),
                   "theta_handed_over": coq_num_list(theta), "grad_dtype": str(getattr(grad, "dtype", type(grad).__name__))}
            # the gradient routines must be talking about the same K and prior mean
            if not (np.allclose(K, Kb, rtol=1e-12, atol=0) and np.allclose(mu, pm, rtol=1e-12, atol=0)
                    and same(Ki, Kbi) and same(np.reshape(mui, -1), np.reshape(pmi, -1))):
                return {"status": "inconsistent", "stage": "covariance_and_gradients",
                        "error": "K / prior mean from the gradient routines differ from build_covariance / build_mean"}
            # ... and the inverter's own objects must build the prior of the inverter's own positions
            foreign = []
            if not same(Kbi, Kb):
                foreign.append("inv.cov.build_covariance(theta) is not the kernel matrix of the inverter's own positions")
            if not same(np.reshape(pmi, -1), np.reshape(pm, -1)):
                foreign.append("inv.mean.build_mean(theta) is not the prior mean of the inverter's own positions")
            if foreign:
                out["foreign"] = "; ".join(foreign)
    except Exception as ex:
        return {"status": "exception", "stage": stage, "error": f"{type(ex).__name__}: {ex}"}
    m, n = case["m"], case["n"]
    ok_shapes = (out["K"].shape == (n, n) and out["pcov"].shape == (n, n) and out["pmean"].shape == (n,)
                 and out["mean_only"].shape == (n,) and out["pm"].shape == (n,)
                 and out["grad"].shape == (out["n_mean"] + len(out["dK"]),)
                 and all(g.shape == (n, n) for g in out["dK"]) and all(g.shape == (n,) for g in out["dmu"]))
    if not ok_shapes:
        return {"status": "shape", "stage": "outputs", "error": "an output has the wrong shape"}
    for k2 in ("K", "pcov", "pmean", "mean_only", "grad"):
        if not np.all(np.isfinite(out[k2])):
            return {"status": "nonfinite", "stage": k2, "error": f"{k2} is not finite"}
    if not (math.isfinite(out["lml"]) and math.isfinite(out["lml_g"])):
        return {"status": "nonfinite", "stage": "lml", "error": "evidence is not finite"}
    return out


def holders(inv, case, session):
    """The constructions j of the session whose positions reproduce what this inverter's kernel / mean
    object builds at the case's hyper-parameters."""
    _, _, _, _, theta = arrays(case)
    hc, hm = [], []
    try:
        with warnings.catch_warnings():
            warnings.simplefilter("ignore")
            Kinv = np.array(inv.cov.build_covariance(theta[inv.cov_slice]), dtype=float)
            pminv = np.array(inv.mean.build_mean(theta[inv.mean_slice]), dtype=float).reshape(-1)
    except Exception:
        return hc, hm
    for j, other in enumerate(session):
        try:
            with warnings.catch_warnings():
                warnings.simplefilter("ignore")
                pos_j = arrays(other)[3]
                fcov, fmean = fresh_prior(case, pos_j)
                nm = int(fmean.n_params)
                if theta.size != nm + fcov.n_params:
                    continue
                if same(Kinv, fcov.build_covariance(theta[nm:])):
                    hc.append(j)
                if same(pminv, np.reshape(fmean.build_mean(theta[:nm]), -1)):
                    hm.append(j)
        except Exception:
            pass
    return hc, hm


def run_session(session):
    """Construct ALL inverters of the session first (in order), then evaluate them (in order).  Returns
    the outputs per inverter and the observed object structure of the session."""
    invs, outs = [], []
    calls, k_inst = [], 0
    for case in session:
        A, y, e, pos, theta = arrays(case)
        kw = ctor_kwargs(case)
        args = []
        for key, kind in (("prior_covariance_function", case.get("cov_arg", "instance")),
                          ("prior_mean_function", case.get("mean_arg", "instance"))):
            if kind == "instance":
                args.append(f"(KInst {k_inst})")
                k_inst += 1
            else:
                args.append("KClass" if kind == "class" else "KDefault")
        calls.append(f"CtorCall {args[0]} {args[1]} {len(calls)}")
        try:
            with warnings.catch_warnings():
                warnings.simplefilter("ignore")
                tA, ty, te, tpos = typed_inputs(case, A, y, e, pos)
                invs.append(INV()(y=ty, y_err=te, model_matrix=tA, parameter_spatial_positions=tpos, **kw))
        except Exception as ex:
            invs.append(None)
            outs.append({"status": "exception", "stage": "constructor", "error": f"{type(ex).__name__}: {ex}"})
            continue
        outs.append(None)
    obs = {"k": k_inst, "calls": calls, "cov_alias": [], "mean_alias": [], "cov_hold": [], "mean_hold": []}
    for i, (inv, case) in enumerate(zip(invs, session)):
        if inv is None:
            obs["cov_alias"].append(i)
            obs["mean_alias"].append(i)
            obs["cov_hold"].append([])
            obs["mean_hold"].append([])
            continue
        obs["cov_alias"].append(next(j for j, o in enumerate(invs) if o is not None and o.cov is inv.cov))
        obs["mean_alias"].append(next(j for j, o in enumerate(invs) if o is not None and o.mean is inv.mean))
        hc, hm = holders(inv, case, session)
        obs["cov_hold"].append(hc)
        obs["mean_hold"].append(hm)
        outs[i] = evaluate(inv, case)
    return outs, obs


def run_impl(case):
    return run_session([case])[0][0]


def coq_hist(obs):
    def nl(xs):
        return "[" + "; ".join(str(int(x)) for x in xs) + "]"
    f = [("h_k", str(obs["k"])), ("h_calls", "[" + "; ".join(obs["calls"]) + "]"),
         ("h_cov_alias", nl(obs["cov_alias"])), ("h_mean_alias", nl(obs["mean_alias"])),
         ("h_cov_hold", "[" + "; ".join(nl(h) for h in obs["cov_hold"]) + "]"),
         ("h_mean_hold", "[" + "; ".join(nl(h) for h in obs["mean_hold"]) + "]")]
    return "{| " + ";\n   ".join(f"{k} := {v}" for k, v in f) + " |}"


def tolerances(case, out):
    """1e-7 of the scale of each output.  The floors are relative to the unit of the signal (1e-6 unit^2 for
    covariances, 1e-6 unit for means) -- an absolute floor would switch the comparison off for data in small
    units.  The gradient has two scales: d/d(mean parameter) is of order 1/unit, d/d(log kernel parameter)
    of order one."""
    u = float(case.get("unit", 1.0))
    nm = out["n_mean"]
    sk = max(float(np.abs(out["K"]).max()), 1e-6 * u * u)
    sm = max(float(np.abs(out["pm"]).max()), float(np.abs(out["pmean"]).max()), 1e-6 * u)
    sg = max(float(np.abs(out["grad"][nm:]).max(initial=0.0)), 1.0)
    sgm = max(float(np.abs(out["grad"][:nm]).max(initial=0.0)), 1.0)
    sl = max(abs(out["lml"]), 1.0)
    return {"c": 1e-7 * sk, "m": 1e-7 * sm, "g": 1e-7 * sg, "gm": 1e-7 * sgm, "l": 1e-7 * sl}


def coq_case(case, out):
    t = tolerances(case, out)
    _, y, e, _, _ = arrays(case)
    nm = out["n_mean"]
    f = [("l_m", C.cnat(case["m"])), ("l_n", C.cnat(case["n"])),
         ("l_A", MX.qmat(out["A"])), ("l_y", MX.qvec(out["y"])), ("l_err", MX.qvec(e)),
         ("l_K", MX.qmat(out["K"])), ("l_pm", MX.qvec(out["pm"])),
         ("l_dK", C.clist([MX.qmat(g) for g in out["dK"]], ";\n     ")),
         ("l_dmu", C.clist([MX.qvec(g) for g in out["dmu"]])),
         ("o_pmean", MX.qvec(out["pmean"])), ("o_pcov", MX.qmat(out["pcov"])),
         ("o_mean_only", MX.qvec(out["mean_only"])),
         ("o_lml", C.cq(out["lml"])), ("o_lml_g", C.cq(out["lml_g"])),
         ("o_grad_mean", MX.qvec(out["grad"][:nm])), ("o_grad_cov", MX.qvec(out["grad"][nm:])),
         ("t_c", MX.qtol(t["c"])), ("t_m", MX.qtol(t["m"])), ("t_g", MX.qtol(t["g"])), ("t_gm", MX.qtol(t["gm"])),
         ("t_l", MX.qtol(t["l"]))]
    return "{| " + ";\n   ".join(f"{k} := {v}" for k, v in f) + " |}"


# ---------------------------------------------------------------- the property, independently
def exact_posterior(case, out):
    A, y, e, _, _ = arrays(case)
    Af, K = MX.fmat(A), MX.fmat(out["K"])
    m = case["m"]
    S = [[C.frac(e[i]) ** 2 if i == j else Fraction(0) for j in range(m)] for i in range(m)]
    AK = MX.f_mul(Af, K)
    J = MX.f_add(MX.f_mul(AK, MX.f_tr(Af)), S)
    pm = MX.fmat(out["pm"])
    r = MX.f_sub(MX.fmat(y), MX.f_mul(Af, pm))
    KAt = MX.f_tr(AK)                     # K is symmetric up to rounding; use (A K)^T = K^T A^T
    KAt = MX.f_mul(K, MX.f_tr(Af))
    cov = MX.f_sub(K, MX.f_mul(KAt, MX.f_solve(J, AK)))
    mean = MX.f_add(pm, MX.f_mul(KAt, MX.f_solve(J, r)))
    quad = MX.f_mul(MX.f_tr(r), MX.f_solve(J, r))[0][0]
    return mean, cov, J, quad


def f_det(M):
    n = len(M)
    M = [list(r) for r in M]
    det = Fraction(1)
    for k in range(n):
        p = next((i for i in range(k, n) if M[i][k] != 0), None)
        if p is None:
            return Fraction(0)
        if p != k:
            M[k], M[p] = M[p], M[k]
            det = -det
        det *= M[k][k]
        for i in range(k + 1, n):
            f = M[i][k] / M[k][k]
            M[i] = [a - f * b for a, b in zip(M[i], M[k])]
    return det


def oracle(case, out):
    bad = []
    t = tolerances(case, out)
    mean, cov, J, quad = exact_posterior(case, out)
    dm = MX.f_max_abs_diff(cov, out["pcov"])
    if dm > Fraction(t["c"]):
        bad.append(f"posterior covariance differs from K - K A^T (A K A^T + S)^-1 A K by {float(dm):.3e}")
    for name in ("pmean", "mean_only"):
        dm = MX.f_max_abs_diff(mean, out[name])
        if dm > Fraction(t["m"]):
            bad.append(f"{name} differs from the closed-form posterior mean by {float(dm):.3e}")
    if float(np.abs(out["pcov"] - out["pcov"].T).max()) > 2 * t["c"]:
        bad.append("posterior covariance is not symmetric")
    ev = np.linalg.eigvalsh((out["pcov"] + out["pcov"].T) / 2)
    if ev.min() < -10 * t["c"] * case["n"]:
        bad.append(f"posterior covariance has eigenvalue {ev.min():.3e} < 0")
    ev = np.linalg.eigvalsh(((out["K"] - out["pcov"]) + (out["K"] - out["pcov"]).T) / 2)
    if ev.min() < -10 * t["c"] * case["n"]:
        bad.append(f"prior minus posterior covariance has eigenvalue {ev.min():.3e} < 0")
    det = f_det(J)
    if det > 0:
        want = -0.5 * float(quad) - 0.5 * (math.log(det.numerator) - math.log(det.denominator))
        if abs(want - out["lml"]) > 10 * t["l"]:
            bad.append(f"marginal_likelihood = {out['lml']!r} but the log-density of the data is {want!r} (+ const)")
    if abs(out["lml"] - out["lml_g"]) > t["l"]:
        bad.append("marginal_likelihood_gradient reports a different evidence value")
    # gradient against central differences of the implementation's own evidence
    A, y, e, pos, theta = arrays(case)
    u = float(case.get("unit", 1.0))
    nm = out["n_mean"]
    steps = [1e-5 * (u if i < nm else 1.0) for i in range(theta.size)]
    gmax = [max(float(np.abs(out["grad"][:nm]).max(initial=0.0)), 1.0)] * nm + \
           [max(float(np.abs(out["grad"][nm:]).max(initial=0.0)), 1.0)] * (theta.size - nm)
    try:
        inv = INV()(y=y, y_err=e, model_matrix=A, parameter_spatial_positions=pos,
                    prior_covariance_function=MX.make_kernel(case["kernel"]),
                    prior_mean_function=MX.make_mean(case["mean"]))
        for i in range(theta.size):
            h = steps[i]
            tp, tm_ = theta.copy(), theta.copy()
            tp[i] += h
            tm_[i] -= h
            fd = (inv.marginal_likelihood(tp) - inv.marginal_likelihood(tm_)) / (2 * h)
            if abs(fd - out["grad"][i]) > 1e-4 * max(abs(fd), gmax[i]):
                bad.append(f"gradient component {i} = {float(out['grad'][i])!r} but central differences give {fd!r}")
    except Exception as ex:
        bad.append(f"evidence could not be differenced: {ex}")
    # ... and against central differences of the log-density of the data itself (prior built by fresh
    # kernel / mean objects on the case's own positions, exact rational algebra, one logarithm)
    try:
        for i in range(theta.size):
            h = steps[i]
            tp, tm_ = theta.copy(), theta.copy()
            tp[i] += h
            tm_[i] -= h
            fd = (reference_evidence(case, tp) - reference_evidence(case, tm_)) / (2 * h)
            if abs(fd - out["grad"][i]) > 1e-4 * max(abs(fd), gmax[i]):
                bad.append(f"gradient component {i} = {float(out['grad'][i])!r} but the log-density of the data has "
                           f"derivative {fd!r}")
    except Exception as ex:
        bad.append(f"the log-density of the data could not be differenced: {ex}")
    return bad


def reference_evidence(case, theta):
    """-1/2 r^T J^-1 r - 1/2 ln det J  with J = A K A^T + diag(y_err^2), K and the prior mean from fresh
    kernel / mean objects on the case's own positions."""
    A, y, e, _, _ = arrays(case)
    with warnings.catch_warnings():
        warnings.simplefilter("ignore")
        fcov, fmean = fresh_prior(case)
        nm = int(fmean.n_params)
        K = np.array(fcov.build_covariance(theta[nm:]), dtype=float)
        pm = np.array(fmean.build_mean(theta[:nm]), dtype=float).reshape(-1)
    Af = MX.fmat(A)
    m = case["m"]
    S = [[C.frac(e[i]) ** 2 if i == j else Fraction(0) for j in range(m)] for i in range(m)]
    J = MX.f_add(MX.f_mul(MX.f_mul(Af, MX.fmat(K)), MX.f_tr(Af)), S)
    r = MX.f_sub(MX.fmat(y), MX.f_mul(Af, MX.fmat(pm)))
    quad = MX.f_mul(MX.f_tr(r), MX.f_solve(J, r))[0][0]
    det = f_det(J)
    if det <= 0:
        raise ZeroDivisionError("det J <= 0")
    return -0.5 * float(quad) - 0.5 * (math.log(det.numerator) - math.log(det.denominator))


# ---------------------------------------------------------------- large data sets
# m data rows, n parameters, kernel, mean, relative range of y_err, unit of the signal, forward model, position
# dimension, hyper-parameters in units of the signal: [mean parameters ..., log amplitude, (log alpha,) log scale]
LARGE_SPECS = [
    {"m": 400, "n": 120, "kernel": ["SE"], "mean": "const", "err": (0.01, 0.03), "unit": 1.0, "fm": "local", "d": 1,
     "theta": [1.0, 0.3, -1.2]},
    # (quick tier: oracle only -- its 25 interval chunks alone take as long as all the others together)
    {"m": 1000, "n": 60, "kernel": ["SE"], "mean": "const", "err": (0.01, 0.03), "unit": 1.0, "fm": "local", "d": 1,
     "theta": [1.0, 0.3, -1.2], "goals": "thorough"},
    {"m": 320, "n": 40, "kernel": ["SE"], "mean": "const", "err": (20.0, 50.0), "unit": 1.0, "fm": "local", "d": 1,
     "theta": [0.0, 3.0, -1.0]},
    {"m": 320, "n": 15, "kernel": ["RQ"], "mean": "linear", "err": (0.005, 0.01), "unit": 1.0, "fm": "local", "d": 1,
     "theta": [1.2, 0.4, 0.0, 0.5, -1.0]},
    {"m": 120, "n": 160, "kernel": ["SE"], "mean": "const", "err": (0.02, 0.05), "unit": 2.0 ** -13, "fm": "dense", "d": 2,
     "theta": [0.5, 0.0, -0.7, -0.7]},
    {"m": 150, "n": 20, "kernel": ["SE"], "mean": "const", "err": (0.02, 0.05), "unit": 2.0 ** 17, "fm": "local", "d": 1,
     "theta": [-1.0, 0.2, -1.0]},
    {"m": 400, "n": 50, "kernel": ["SE"], "mean": "const", "err": (0.01, 0.03), "unit": 1.0, "fm": "local", "d": 1,
     "theta": [1.0, 0.3, -1.2], "subnormal_product": True},
]
LARGE_SPECS_THOROUGH = [
    {"m": 250, "n": 300, "kernel": ["RQ"], "mean": "const", "err": (0.02, 0.05), "unit": 1.0, "fm": "local", "d": 1,
     "theta": [0.5, 0.2, 0.3, -1.5]},
    {"m": 800, "n": 100, "kernel": ["sum", ["SE"], ["WN"]], "mean": "linear", "err": (0.02, 0.06), "unit": 1.0,
     "fm": "local", "d": 1, "theta": [1.0, -0.3, 0.2, -1.0, -2.5]},
    {"m": 300, "n": 80, "kernel": ["SE"], "mean": "const", "err": (100.0, 300.0), "unit": 1.0, "fm": "dense", "d": 1,
     "theta": [0.0, 4.0, -1.0]},
    {"m": 200, "n": 64, "kernel": ["SE"], "mean": "quadratic", "err": (0.01, 0.02), "unit": 2.0 ** -30, "fm": "local",
     "d": 1, "theta": [1.0, 0.2, -0.1, 0.3, -1.0]},
    {"m": 350, "n": 90, "kernel": ["RQ"], "mean": "const", "err": (0.05, 0.1), "unit": 1.0, "fm": "local", "d": 2,
     "theta": [1.0, 0.5, 0.0, -0.8, -0.8]},
    {"m": 400, "n": 30, "kernel": ["RQ"], "mean": "const", "err": (20.0, 40.0), "unit": 1.0, "fm": "local", "d": 1,
     "theta": [0.0, 2.5, 0.5, -1.0], "subnormal_product": False, "huge_product": True},
]


def large_arrays(spec):
    """The arrays of a large case, regenerated from the spec (its `np_seed` fixes every draw).  Signal of order
    `unit`: truth = unit * (1.5 + sin(3 x_0)), errors err * unit, kernel amplitude exp(theta) * unit."""
    g = np.random.default_rng(spec["np_seed"])
    m, n, d, unit = spec["m0"], spec["n"], spec["d"], spec["unit"]
    pos = g.uniform(-1, 1, size=(n, d))
    pos = pos[np.argsort(pos[:, 0])]
    if spec["fm"] == "local":          # local averaging, rows sum to one
        centres = g.uniform(-1, 1, size=(m, d))
        A = np.exp(-0.5 * (((centres[:, None, :] - pos[None, :, :]) / 0.15) ** 2).sum(axis=2)) + 1e-3
        A /= A.sum(axis=1)[:, None]
    else:                              # dense, entries of both signs
        A = g.normal(size=(m, n)) / math.sqrt(n)
    truth = unit * (1.5 + np.sin(3 * pos[:, 0]))
    e = g.uniform(spec["err"][0], spec["err"][1], size=m) * unit
    y = A @ truth + e * g.normal(size=m)
    nm = {"const": 1, "linear": 1 + d, "quadratic": 1 + 2 * d}[spec["mean"]]
    theta = np.array(spec["theta"], dtype=float)
    theta[:nm] *= unit
    k = nm
    for name in ([spec["kernel"][0]] if spec["kernel"][0] != "sum" else [sp[0] for sp in spec["kernel"][1:]]):
        theta[k] += math.log(unit)     # log amplitude (SE, RQ) / log noise level (WN)
        k += {"SE": 1 + d, "RQ": 2 + d, "WN": 1}[name]
    assert k == theta.size, (spec, k)
    mm = spec["m"]
    return A[:mm].copy(), y[:mm].copy(), e[:mm].copy(), pos, theta


def large_prior(spec, pos, theta):
    with warnings.catch_warnings():
        warnings.simplefilter("ignore")
        cov, mean = MX.make_kernel(spec["kernel"]), MX.make_mean(spec["mean"])
        cov.pass_spatial_data(pos.copy())
        mean.pass_spatial_data(pos.copy())
        nm = int(mean.n_params)
        K = np.array(cov.build_covariance(theta[nm:]), dtype=float)
        pm = np.array(mean.build_mean(theta[:nm]), dtype=float).reshape(-1)
    return K, pm, nm


def large_reference(spec, A, y, e, pos, theta):
    """-1/2 r^T J^-1 r - 1/2 ln det J (slogdet: no product is formed) from a fresh kernel / mean object."""
    K, pm, _ = large_prior(spec, pos, theta)
    J = A @ K @ A.T + np.diag(e ** 2)
    r = y - A @ pm
    sign, logdet = np.linalg.slogdet(J)
    if not sign > 0:
        raise ZeroDivisionError("det J <= 0")
    return -0.5 * float(r @ np.linalg.solve(J, r)) - 0.5 * float(logdet)


def large_eval(spec):
    """Both evidence routines on a large case, with the implementation's OWN Cholesky factors (recorded from the
    call inversion.py makes)."""
    A, y, e, pos, theta = large_arrays(spec)
    import inference.gp.inversion as IM
    rec = []
    orig = getattr(IM, "cholesky", None)

    def spy(a, *args, **kw):
        L = orig(a, *args, **kw)
        rec.append(np.array(L, dtype=float))
        return L
    out = {"status": "ok"}
    stage = "constructor"
    try:
        with warnings.catch_warnings():
            warnings.simplefilter("ignore")
            inv = INV()(y=y.copy(), y_err=e.copy(), model_matrix=A.copy(), parameter_spatial_positions=pos.copy(),
                        prior_covariance_function=MX.make_kernel(spec["kernel"]),
                        prior_mean_function=MX.make_mean(spec["mean"]))
            if orig is not None:
                IM.cholesky = spy
            try:
                stage = "marginal_likelihood"
                out["lml"] = float(inv.marginal_likelihood(theta.copy()))
                out["L"] = rec[-1] if rec else None
                del rec[:]
                stage = "marginal_likelihood_gradient"
                lg, grad = inv.marginal_likelihood_gradient(theta.copy())
                out["lml_g"], out["grad"] = float(lg), np.array(grad, dtype=float).reshape(-1)
                out["L_g"] = rec[-1] if rec else None
            finally:
                if orig is not None:
                    IM.cholesky = orig
            K, pm, nm = large_prior(spec, pos, theta)
            out["n_mean"] = nm
            for key in ("L", "L_g"):
                if out[key] is None or out[key].shape != (spec["m"], spec["m"]):
                    # the routine does not call the module's `cholesky`: factor of the inverter's own matrices
                    out[key] = np.linalg.cholesky(np.array(inv.A, dtype=float) @ K @ np.array(inv.A, dtype=float).T
                                                  + np.array(inv.sigma, dtype=float))
                    out["factor_recomputed"] = True
            out["resid"] = y - A @ pm
    except Exception as ex:
        return {"status": "exception", "stage": stage, "error": f"{type(ex).__name__}: {ex}"}
    return out


def large_oracle(spec, out):
    """The property on a large case: both evidence values against the log-density of the data, the gradient
    against its central differences."""
    A, y, e, pos, theta = large_arrays(spec)
    bad = []
    want = large_reference(spec, A, y, e, pos, theta)
    tol = 1e-7 * max(1.0, abs(want))
    for name, key in (("marginal_likelihood", "lml"), ("marginal_likelihood_gradient()[0]", "lml_g")):
        if not math.isfinite(out[key]) or abs(out[key] - want) > tol:
            bad.append(f"{name} = {out[key]!r} on {spec['m']} data rows (y_err {spec['err'][0]:g}-{spec['err'][1]:g} "
                       f"x unit {unit_name(spec['unit'])}) but the log-density of the data is {want!r} (+ const)")
    g = out["grad"]
    nm, u = out["n_mean"], spec["unit"]
    if g.shape != theta.shape or not np.all(np.isfinite(g)):
        bad.append(f"the gradient {g!r} is not a finite vector of {theta.size} entries")
        return bad
    gmax = [max(float(np.abs(g[:nm]).max(initial=0.0)), 1.0)] * nm + \
           [max(float(np.abs(g[nm:]).max(initial=0.0)), 1.0)] * (theta.size - nm)
    for i in range(theta.size):
        h = 1e-5 * (u if i < nm else 1.0)
        tp, tm_ = theta.copy(), theta.copy()
        tp[i] += h
        tm_[i] -= h
        fd = (large_reference(spec, A, y, e, pos, tp) - large_reference(spec, A, y, e, pos, tm_)) / (2 * h)
        if abs(fd - g[i]) > 1e-4 * max(abs(fd), gmax[i]):
            bad.append(f"gradient component {i} = {float(g[i])!r} on {spec['m']} data rows but the log-density of the "
                       f"data has derivative {fd!r}")
    return bad


def large_fails(spec):
    out = large_eval(spec)
    if out["status"] != "ok":
        return True
    try:
        return bool(large_oracle(spec, out))
    except Exception:
        return False


def shrink_large(spec):
    """The smallest number of leading data rows (halving, then bisecting) for which the case still fails."""
    lo, hi = 1, spec["m"]
    if not large_fails(spec):
        return spec
    while hi - lo > max(1, hi // 16):
        mid = (lo + hi) // 2
        if large_fails(dict(spec, m=mid)):
            hi = mid
        else:
            lo = mid
    return dict(spec, m=hi)


def large_specs(r, tier):
    specs = []
    for sp in LARGE_SPECS + (LARGE_SPECS_THOROUGH if tier != "quick" else []):
        sp = dict(sp, np_seed=r.getrandbits(48), m0=sp["m"])
        if sp.get("subnormal_product") or sp.get("huge_product"):
            # as many leading rows as it takes for prod(diag L) to be a SUBNORMAL double (a few bits of it are
            # left) / to be within a factor 10 of the largest double: the leading principal block of J has the
            # leading block of L as its factor
            A, y, e, pos, theta = large_arrays(sp)
            K, _, _ = large_prior(sp, pos, theta)
            lg = np.cumsum(np.log10(np.diag(np.linalg.cholesky(A @ K @ A.T + np.diag(e ** 2)))))
            target = -322.6 if sp.get("subnormal_product") else 307.9
            sp["m"] = int(np.argmin(np.abs(lg - target))) + 1
            sp["log10_product"] = float(lg[sp["m"] - 1])
        specs.append(sp)
    return specs


def large_goals(j, out, solve_triangular, chunk=40):
    """The coq-interval goals of one large case: |lin_lml_value quad (diag L) - observed| <= 1e-7 max(1, |observed|)
    for both evidence routines, each on the factor recorded from that routine.  `interval` is superlinear in the
    size of the term, so the sum of logarithms is bounded chunk by chunk (lemmas chunk_*: bounds proposed by float
    arithmetic, PROVED by interval) and the chunks are put together with sum_ln_app and lra."""
    pre, goals = [LARGE_PREAMBLE], []
    shared = np.array_equal(np.diag(out["L"]), np.diag(out["L_g"]))
    done = {}
    for tag, key, Lk in (("value", "lml", "L"), ("value_and_gradient", "lml_g", "L_g")):
        L = out[Lk]
        v = solve_triangular(L, out["resid"], lower=True)
        quad = -sum((Fraction(float(t)) ** 2 for t in v), Fraction(0)) / 2
        gtol = Fraction(1e-7 * max(1.0, abs(out[key]))).limit_denominator(10 ** 12)
        pfx = "a" if (Lk == "L" or shared) else "b"
        if pfx not in done:
            dg = [float(t) for t in np.diag(L)]
            names = []
            for c0 in range(0, len(dg), chunk):
                part = dg[c0:c0 + chunk]
                nm = f"{pfx}{c0 // chunk}"
                pre.append(f"Definition {nm} : list R := [" + "; ".join(C.cR(Fraction(t)) for t in part) + "].")
                ok = all(t > 0 and math.isfinite(t) for t in part)
                sj = math.fsum(math.log(t) for t in part) if ok else 0.0
                dj = Fraction(1e-10 * (1.0 + abs(sj))).limit_denominator(10 ** 15)
                # (part of the preamble, so that it stays available when the goals are re-run after a failure;
                # it can only fail if the factor has a non-positive diagonal entry: the file is then reported)
                pre.append(f"Lemma chunk_{nm} : Rabs (sum_ln {nm} - {C.cR(Fraction(sj))}) <= {C.cR(dj)}.\n"
                           f"Proof. unfold {nm}; cbn [sum_ln]; interval. Qed.")
                names.append((nm, f"chunk_{nm}"))
            done[pfx] = names
        names = done[pfx]
        whole = " ++ ".join(nm for nm, _ in names)
        goals.append((f"large{j}_{tag}",
                      f"Rabs (lin_lml_value {C.cR(quad)} ({whole}) - {C.cR(Fraction(out[key]))}) <= {C.cR(gtol)}",
                      "unfold lin_lml_value; rewrite ?sum_ln_app; "
                      + "; ".join(f"pose proof (Rabs_le_bounds _ _ {lem})" for _, lem in names)
                      + "; apply Rabs_le; lra"))
    return "\n".join(pre), goals


def large_start(r, tier):
    """Stream `large`, first half: run the implementation on every problem and start the goal files in the
    background (nothing is reported from here: the report object is used from the main thread only)."""
    from scipy.linalg import solve_triangular
    from concurrent.futures import ThreadPoolExecutor
    specs = large_specs(r, tier)
    files_goals, evals = {}, {}
    for j, sp in enumerate(specs):
        out = large_eval(sp)
        evals[j] = out
        if out["status"] != "ok" or not (math.isfinite(out["lml"]) and math.isfinite(out["lml_g"])):
            continue               # no real number to put into a goal: reported by large_finish / its oracle
        if tier == "quick" and sp.get("goals") == "thorough":
            continue
        files_goals[j] = large_goals(j, out, solve_triangular)

    def run_file(j):
        pre, goals = files_goals[j]
        return IV._run_chunk(PROP, f"large_{j}", pre, "", goals, 900, max_fail=len(goals))
    ex = ThreadPoolExecutor(max_workers=7)
    futs = {j: ex.submit(run_file, j) for j in sorted(files_goals)}
    return {"specs": specs, "evals": evals, "files_goals": files_goals, "futs": futs, "ex": ex}


def large_finish(rep, st, tier):
    """Stream `large`, second half: see the module docstring."""
    specs, evals, files_goals = st["specs"], st["evals"], st["files_goals"]
    for j, sp in enumerate(specs):
        rep.count("large/data_rows=%d" % sp["m"])
        rep.count("large/n=%d" % sp["n"])
        rep.count("large/kernel=%s,mean=%s,unit=%s,y_err=%g-%g" % (MX.kernel_name(sp["kernel"]), sp["mean"],
                                                                unit_name(sp["unit"]), sp["err"][0], sp["err"][1]))
        out = evals[j]
        rep.case({"large": sp}, nontrivial=True)
        if out["status"] != "ok":
            rep.obligation(False)
            rep.violation("C17/exception/large-data",
                          f"GpLinearInverter failed on a valid input with {sp['m']} data rows ({out['stage']}: {out['error']})",
                          {"large_case": sp, "impl": out}, True)
            continue
        logp = float(np.log10(np.diag(out["L"])).sum())
        rep.count("large/log10 prod(diag L) in " + ("(-inf,-324): not a double" if logp < -324 else
                                                     "[-324,-308): subnormal" if logp < -308 else
                                                     "[-308,308]" if logp <= 308 else "(308,inf): not a double"))
        if j < 3:
            rep.sample({"stream": "large", "config": {k: sp[k] for k in ("m", "n", "kernel", "mean", "err", "unit", "fm")},
                        "log10_prod_diag_L": logp, "impl_lml": out["lml"], "impl_lml_from_gradient_routine": out["lml_g"]})
        if j not in files_goals and tier == "quick" and sp.get("goals") == "thorough":
            rep.count("large/interval goals left to the thorough tier")
    goal_failed, n_goals = {}, 0
    for j in sorted(files_goals):
        failed, br = st["futs"][j].result()
        ng = len(files_goals[j][1])
        n_goals += ng
        if br:
            rep.obligation(False, ng)
            goal_failed.setdefault(j, []).append("file not processed")
            rep.violation("C17/evidence-run", "a large-data value goal file could not be processed",
                          {"theorem_or_correspondence": f"coq/gen/C17/large_{j}_*.v (RealModel.InversionValue.lin_lml_value)",
                           "log": br[-800:]}, False)
            continue
        rep.obligation(True, ng - len(failed))
        for gid, log in failed:
            rep.obligation(False)
            goal_failed.setdefault(j, []).append(gid)
    st["ex"].shutdown()
    rep.coverage["large_data_value_goals"] = n_goals
    n_or = 0
    for j, sp in enumerate(specs):
        out = evals[j]
        if out["status"] != "ok":
            continue
        n_or += 1
        try:
            bad = large_oracle(sp, out)
        except Exception as ex:
            bad = []
            if j in goal_failed:
                goal_failed[j].append(f"oracle: {ex}")
        rep.obligation(not bad)
        if bad:
            small = shrink_large(sp)
            rep.violation("C17/property/large-data", "; ".join(bad[:2]) +
                          (f" [still fails with the first {small['m']} data rows]" if small["m"] < sp["m"] else ""),
                          {"large_case": small, "failing_goals": goal_failed.get(j),
                           "note": "harness/props/c17.py large_arrays(large_case) regenerates A, y, y_err, positions, theta"},
                          True)
        elif j in goal_failed:
            rep.violation("C17/correspondence/large-data",
                          f"an evidence routine does not return -1/2 v.v - sum ln L_ii for the implementation's own "
                          f"Cholesky factor ({', '.join(map(str, goal_failed[j]))}) on {sp['m']} data rows, but the "
                          "property was not seen to fail on this input",
                          {"theorem_or_correspondence": "RealModel.InversionValue.lin_lml_value (coq/gen/C17/large_*.v)",
                           "large_case": sp}, False)
    rep.coverage["large_oracle_runs"] = n_or


# ---------------------------------------------------------------- driver
def describe(case):
    d = {k: case[k] for k in ("m", "n", "d", "shape", "A", "y", "y_err", "positions", "kernel", "mean", "theta")}
    d.update({"unit": case.get("unit", 1.0), "gain": case.get("gain", 1.0),
              "cov_arg": case.get("cov_arg", "instance"), "mean_arg": case.get("mean_arg", "instance"),
              "theta_repr": case.get("theta_repr", "float64"), "input_repr": case.get("input_repr", "float64")})
    return d


def dyadic(x):
    return math.frexp(x)[0] == 0.5


def unit_name(x):
    mant, ex = math.frexp(x)
    return f"2^{ex - 1}" if mant == 0.5 else f"{x:g}"


def session_fails(session, i):
    """Does inverter i of the session (all constructed first, then evaluated) violate the property?"""
    outs, _ = run_session(session)
    o = outs[i]
    if o["status"] != "ok":
        return True, o
    return bool(oracle(session[i], o)), o


def shrink_history(session, i):
    """The smallest sub-history (the inverter alone, or with one other construction) that still fails."""
    cands = [([session[i]], 0)]
    cands += [([session[i], session[j]], 0) if j > i else ([session[j], session[i]], 1)
              for j in range(len(session)) if j != i]
    for cand, idx in cands:
        try:
            if session_fails(cand, idx)[0]:
                return cand, idx
        except Exception:
            pass
    return session, i


def replay_of(cases, sessions, where, k):
    """Replay record of case k: the case, and the construction history of its process when that matters."""
    si, i = where[k]
    sess = [cases[j] for j in sessions[si]]
    if len(sess) > 1:
        sess, i = shrink_history(sess, i)
    rp = {"case": describe(sess[i])}
    if len(sess) > 1:
        rp["history"] = [describe(c) for c in sess]
        rp["index"] = i
        rp["note"] = ("all inverters of `history` are constructed in this order in one process, then inverter "
                      "`index` is evaluated")
    return rp


def run(rep: C.Report, tier: str) -> int:
    r = C.rng_for(PROP, "cases")
    n_cases = 120 if tier == "quick" else 1500
    n_scale = 32 if tier == "quick" else 300
    n_hist = 12 if tier == "quick" else 100
    n_repr = 16 if tier == "quick" else 168
    C.clean_gen(PROP)
    import time
    phase, t_ph = {}, time.time()

    def lap(name):
        nonlocal t_ph
        phase[name] = round(time.time() - t_ph, 2)
        t_ph = time.time()
        rep.coverage["phase_wall_s"] = phase
    C.prove_and_audit(rep, PROP, THEOREMS)
    # the two round-4 property files are audited in the background (coqc start-up dominates) and collected below
    from concurrent.futures import ThreadPoolExecutor
    aud_ex = ThreadPoolExecutor(max_workers=2)
    aud_futs = [(_tag, _names, aud_ex.submit(C.coq_audit, f"{PROP}_{_tag}", _names, _mod))
                for _tag, _names, _mod in (("repr", REPR_THEOREMS, "IT.Properties.C17Repr"),
                                           ("large", LARGE_THEOREMS, "IT.Properties.C17Large"))]

    def collect_audits():
        for _tag, _names, _f in aud_futs:
            try:
                _a = _f.result()
                rep.obligation(True, len(_names))
                rep.coverage[f"{_tag}_theorems_audit"] = _a
            except C.ProofFailure as _e:
                rep.obligation(False, len(_names))
                rep.violation("C17/proof", f"proof obligation no longer checks: {_e.what}",
                              {"theorem_or_correspondence": _e.what, "log": _e.log[-1000:]}, False)
        aud_ex.shutdown()
    lap("audit")

    cases, sessions, stream = [], [], []
    for k in range(n_cases):
        cases.append(gen_case(r, k, tier))
        sessions.append([len(cases) - 1])
        stream.append("cases")
    rs = C.rng_for(PROP, "scales")
    for k in range(n_scale):
        unit, gain = UNIT_PAIRS[k % len(UNIT_PAIRS)]
        # k + k // len(UNIT_PAIRS): the pair -> (kernel, mean, shape) assignment changes from round to round
        # units that are not powers of two make every rational of the model 53 bits wide (5-10 times the cost)
        top = 6 if dyadic(unit) and dyadic(gain) else 4
        cases.append(gen_case(rs, k + 7 * (k // len(UNIT_PAIRS)), tier, unit=unit, gain=gain, top=top))
        sessions.append([len(cases) - 1])
        stream.append("scales")
    rh = C.rng_for(PROP, "histories")
    for _ in range(n_hist):
        sess = gen_history(rh, tier)
        sessions.append(list(range(len(cases), len(cases) + len(sess))))
        cases.extend(sess)
        stream.extend(["histories"] * len(sess))

    rr = C.rng_for(PROP, "representations")
    for k in range(n_repr):
        # 8 ways of handing over theta x 7 ways of handing over y / A / positions (coprime: all 56 pairs in the
        # thorough tier); the (kernel, mean, shape) walk shifts from round to round
        cases.append(gen_case(rr, k + 3 * (k // len(THETA_REPRS)), tier, top=5,
                              theta_repr=THETA_REPRS[k % len(THETA_REPRS)],
                              input_repr=INPUT_REPRS[k % len(INPUT_REPRS)]))
        sessions.append([len(cases) - 1])
        stream.append("representations")

    outs, observed, where = [None] * len(cases), [], {}
    for si, idx in enumerate(sessions):
        so, obs = run_session([cases[k] for k in idx])
        observed.append(obs)
        for i, k in enumerate(idx):
            outs[k] = so[i]
            where[k] = (si, i)
        rep.count(f"inverters_constructed_before_first_use={len(idx)}")
    for k, (case, out) in enumerate(zip(cases, outs)):
        rep.count("stream=" + stream[k])
        rep.count("shape=" + case["shape"])
        rep.count(f"m={case['m']}")
        rep.count(f"n={case['n']}")
        rep.count(f"rank(A)={case['rank']}" + ("<min(m,n)" if case["rank"] < min(case["m"], case["n"]) else ""))
        rep.count(f"d={case['d']}")
        rep.count("kernel=" + MX.kernel_name(case["kernel"]))
        rep.count("mean=" + case["mean"])
        rep.count("kernel_argument=" + case["cov_arg"])
        rep.count("mean_argument=" + case["mean_arg"])
        rep.count(f"signal_unit={unit_name(case['unit'])}")
        rep.count(f"model_gain={unit_name(case['gain'])}")
        rep.count("theta_handed_over_as=" + case["theta_repr"])
        rep.count("y,A,positions_handed_over_as=" + case["input_repr"] + ("(y,A)" if case["input_repr"] == "float32" else ""))
        _e = MX.unhex(case["y_err"])
        rep.count("min(y_err)<=1e%d" % math.ceil(math.log10(float(_e.min()))))
        rep.count("cond(I+KW)<=1e%d" % max(0, math.ceil(math.log10(case["cond_system"]))))
        rep.case(describe(case), nontrivial=case["rank"] > 0)
        if k < 2 or (stream[k] != "cases" and stream[k - 1] != stream[k]):
            rep.sample({"stream": stream[k],
                        "config": {k2: case[k2] for k2 in ("m", "n", "d", "shape", "rank", "mean", "unit", "gain",
                                                            "cov_arg", "mean_arg")},
                        "kernel": MX.kernel_name(case["kernel"]),
                        "impl_posterior_mean": out.get("pmean"), "impl_lml": out.get("lml")})

    lap("generate+run implementation")
    # the large data sets: run the implementation now, let the interval goals run next to the case files
    large_state = large_start(C.rng_for(PROP, "large"), tier)
    lap("large data sets: implementation")
    suspicious = {}
    ok_idx = [k for k, o in enumerate(outs) if o["status"] == "ok"]
    refused = set()
    for k, o in enumerate(outs):
        if (o["status"] == "exception" and o["stage"] == "constructor" and o["error"].startswith("ValueError")
                and cases[k]["input_repr"].endswith("+err")):
            # y_err as an INTEGER array: refused-or-right.  The pinned constructor refuses it (numpy: "Integers
            # to negative integer powers are not allowed"); a tree that accepts it is checked like any other case
            rep.count("integer y_err refused by the constructor (ValueError)")
            refused.add(k)
            continue
        if o["status"] != "ok":
            suspicious[k] = f"{o['status']} in {o['stage']}: {o['error']}"
        elif o.get("foreign"):
            suspicious[k] = o["foreign"]

    # the construction histories: model (Model/InversionHistory.v) against the observed objects
    # (sessions whose only construction was refused have no objects to look at)
    hist_idx = [si for si in range(len(sessions)) if not any(k in refused for k in sessions[si])]
    hbody = ("Definition cases : list hist_case :=\n [" + ";\n  ".join(coq_hist(observed[si]) for si in hist_idx) + "].")
    hfile = C.write_case_file(PROP, "history", HIST_HEADER, hbody, ["failing_hist cases"])
    hist_fail = {}
    ok, res, log = C.run_case_file(hfile, timeout=600)
    if not ok or 0 not in res:
        rep.obligation(False, 5 * len(hist_idx))
        rep.violation("C17/correspondence-run", "the history file did not evaluate",
                      {"theorem_or_correspondence": "correspondence file history.v", "log": log}, False)
    else:
        fails = MX.decode_failures(res[0])
        for hj, si in enumerate(hist_idx):
            fo = fails.get(hj, [])
            rep.obligation(True, 5 - len(fo))
            if fo:
                rep.obligation(False, len(fo))
                hist_fail[si] = fo
    rep.coverage["history_sessions"] = len(hist_idx)
    rep.coverage["history_obligations_per_session"] = HIST_OBLIGATION_NAMES

    def weight(k):
        w = (cases[k]["n"] ** 4 + cases[k]["m"] ** 4) * (1 + len(outs[k]["dK"]))
        return w * (1 if dyadic(cases[k]["unit"]) else 5) * (1 if dyadic(cases[k]["gain"]) else 8)
    order = sorted(ok_idx, key=lambda k: -weight(k))
    nfiles = max(1, min(len(order), 14 if tier == "quick" else 56))
    buckets = [[] for _ in range(nfiles)]
    loads = [0] * nfiles
    for k in order:
        j = loads.index(min(loads))
        buckets[j].append(k)
        loads[j] += weight(k)
    files, index = [], []
    texts = {k: coq_case(cases[k], outs[k]) for k in ok_idx}
    for j, bucket in enumerate(buckets):
        if not bucket:
            continue
        body = ("Definition cases : list lin_case :=\n [" + ";\n  ".join(texts[k] for k in bucket) + "].")
        files.append(C.write_case_file(PROP, f"cases_{j}", HEADER, body, ["failing_lin cases"]))
        index.append(bucket)
    # the representation model (Model/InversionRepr.v) on every case whose hyper-parameters / inputs were not
    # handed over as float64 arrays
    typed_idx = [k for k in ok_idx if stream[k] == "representations"]
    tbody = ("Definition cases : list typed_case :=\n [" + ";\n  ".join(
        "{| tc_theta := %s;\n    tc_float := %s;\n    tc_lin :=\n %s |}"
        % (outs[k]["theta_handed_over"], MX.qvec(arrays(cases[k])[4]), texts[k]) for k in typed_idx) + "].")
    tfile = C.write_case_file(PROP, "typed", TYPED_HEADER, tbody, ["failing_typed cases"])
    lap("history model")
    results = C.run_case_files(files + [tfile], jobs=15, timeout=1500)
    typed_res = results.pop()
    lap("case files (vm_compute)")
    typed_fail = {}
    ok, res, log = typed_res
    if not ok or 0 not in res:
        rep.obligation(False, 3 * len(typed_idx))
        rep.violation("C17/correspondence-run", "the representation file typed.v did not evaluate",
                      {"theorem_or_correspondence": "correspondence file typed.v", "log": log}, False)
    else:
        fails = MX.decode_failures(res[0])
        for j, k in enumerate(typed_idx):
            fo = fails.get(j, [])
            rep.obligation(True, 3 - len(fo))
            if fo:
                rep.obligation(False, len(fo))
                typed_fail[k] = fo
    rep.coverage["typed_cases"] = len(typed_idx)
    rep.coverage["typed_obligations_per_case"] = TYPED_OBLIGATION_NAMES
    obligation_fail = {}
    n_checked = 0
    for p, idx, (ok, res, log) in zip(files, index, results):
        if not ok or 0 not in res:
            rep.obligation(False, 8 * len(idx))
            rep.violation("C17/correspondence-run", f"case file {p.name} did not evaluate",
                          {"theorem_or_correspondence": f"correspondence file {p.name}", "log": log}, False)
            continue
        fails = MX.decode_failures(res[0])
        for j, k in enumerate(idx):
            fo = fails.get(j, [])
            rep.obligation(True, 8 - len(fo))
            if fo:
                rep.obligation(False, len(fo))
                obligation_fail.setdefault(k, []).extend(fo)
        n_checked += len(idx)

    # evidence value: one interval goal per case (a slice of the cases in the quick tier)
    # (every scaled case: the evidence is the one output in which an absolute constant can hide)
    step = 3 if tier == "quick" else 2
    ev_idx = [k for j, k in enumerate(ok_idx) if j % step == 0 or (stream[k] == "scales" and tier == "quick")]
    from concurrent.futures import ThreadPoolExecutor
    goals = [(k, f"lml_goal case_{k}", "lml_tac") for k in ev_idx]
    chunks = [goals[i::14] for i in range(14) if goals[i::14]]

    def run_chunk(ic):
        i, ch = ic
        pre = "\n".join([EV_PREAMBLE] + [f"Definition case_{k} : lin_case :=\n {texts[k]}." for k, _, _ in ch])
        return IV._run_chunk(PROP, f"evidence_{i}", pre, "", ch, 900)
    failed, broken = [], []
    with ThreadPoolExecutor(max_workers=14) as ex:
        for fl, br in ex.map(run_chunk, enumerate(chunks)):
            failed.extend(fl)
            if br:
                broken.append(br)
    lap("evidence goals (coq-interval)")
    for br in broken:
        rep.obligation(False)
        rep.violation("C17/evidence-run", "an evidence goal file did not run",
                      {"theorem_or_correspondence": "Matrix.InversionEvidence.lml_goal", "log": br}, False)
    rep.obligation(True, len(goals) - len(failed))
    for k, log in failed:
        rep.obligation(False)
        obligation_fail.setdefault(k, []).append(8)
    for k, fo in obligation_fail.items():
        suspicious[k] = "; ".join(filter(None, [suspicious.get(k)] + [OBLIGATION_NAMES[o] for o in fo]))
    for k, fo in typed_fail.items():
        suspicious[k] = "; ".join(filter(None, [suspicious.get(k)] + [TYPED_OBLIGATION_NAMES[o] for o in fo]))
    rep.coverage["cases_validated_against_impl"] = n_checked
    rep.coverage["evidence_goals"] = len(goals)
    rep.coverage["correspondence_disagreements"] = len(suspicious)
    rep.coverage["obligations_per_case"] = OBLIGATION_NAMES

    for si, fo in hist_fail.items():
        for k in sessions[si]:
            if outs[k]["status"] == "ok" and where[k][1] < len(sessions[si]):
                i = where[k][1]
                mine = [0] if 0 in fo else []
                for o, key in ((1, "cov_alias"), (2, "mean_alias")):
                    al = observed[si][key]
                    if o in fo and (al[i] != i or any(a == i for j, a in enumerate(al) if j != i)):
                        mine.append(o)
                if 3 in fo and i not in observed[si]["cov_hold"][i]:
                    mine.append(3)
                if 4 in fo and i not in observed[si]["mean_hold"][i]:
                    mine.append(4)
                if mine:
                    suspicious[k] = "; ".join(filter(None, [suspicious.get(k)] + [HIST_OBLIGATION_NAMES[o] for o in mine]))
    rep.coverage["correspondence_disagreements"] = len(suspicious)

    def hist_text(k, rp=None):
        n, i = len(sessions[where[k][0]]), where[k][1]
        if rp is not None and "history" in rp:
            n, i = len(rp["history"]), rp["index"]
        return "" if n == 1 else f" [inverter {i + 1} of {n} constructed in the same process before any was used]"

    def repr_text(k):
        t, i = cases[k].get("theta_repr", "float64"), cases[k].get("input_repr", "float64")
        if t == i == "float64":
            return ""
        return f" [hyper-parameters handed over as {t}, y / model matrix / positions as {i}]"

    reported = 0
    # silently wrong numbers first, then exceptions, then the rest
    for k in sorted(suspicious, key=lambda k: (1 if outs[k]["status"] != "ok" else 0 if outs[k].get("foreign") else 2, k)):
        if reported >= 12:
            break
        reported += 1
        case, out = cases[k], outs[k]
        if out["status"] != "ok":
            rp = replay_of(cases, sessions, where, k)
            rp["impl"] = {k2: out[k2] for k2 in ("status", "stage", "error")}
            rep.violation("C17/exception", f"GpLinearInverter failed on a valid input ({suspicious[k]})" + hist_text(k, rp)
                          + repr_text(k), rp, True)
            continue
        bad = oracle(case, out)
        if bad:
            rp = replay_of(cases, sessions, where, k)
            rp["failing_obligations"] = obligation_fail.get(k)
            rp["history_obligations"] = hist_fail.get(where[k][0])
            rp["representation_obligations"] = typed_fail.get(k)
            rep.violation("C17/property", "; ".join(bad[:3]) + hist_text(k, rp) + repr_text(k), rp, True)
        else:
            rep.violation("C17/correspondence",
                          "implementation and model disagree (" + suspicious[k] +
                          "), but the property was not seen to fail on this input" + hist_text(k) + repr_text(k),
                          {"theorem_or_correspondence": "Matrix.InversionCheck.check_lin / Model.InversionHistory.check_hist "
                                                        "(correspondence with GpLinearInverter)",
                           "failing_obligations": obligation_fail.get(k),
                           "history_obligations": hist_fail.get(where[k][0]),
                           "representation_obligations": typed_fail.get(k),
                           "case": describe(case),
                           "history": [describe(cases[j]) for j in sessions[where[k][0]]], "index": where[k][1]}, False)

    n_or = 0
    for j, k in enumerate(ok_idx):
        if j % (6 if tier == "quick" else 3) and not (stream[k] != "cases" and j % 2 == 0 and tier == "quick"):
            continue
        if k in suspicious:
            continue
        bad = oracle(cases[k], outs[k])
        n_or += 1
        if bad:
            rp = replay_of(cases, sessions, where, k)
            rep.violation("C17/property", "; ".join(bad[:3]) + hist_text(k, rp) + repr_text(k), rp, True)
    rep.coverage["oracle_runs"] = n_or
    lap("oracle")
    large_finish(rep, large_state, tier)
    collect_audits()
    lap("large data sets: goals collected, oracle; audits of C17Repr / C17Large collected")

    rep.assumptions = [
        "scipy.linalg.solve / cholesky / solve_triangular are exact in the theorems; the run compares every output "
        "to 1e-7*scale on inputs with cond(I+KW), cond(J) <= 1e6",
        "kernel and mean-function values and their hyper-parameter gradients are inputs of the model (C10); they are "
        "built by fresh kernel / mean objects on the inverter's own positions, and the inverter's own objects must "
        "reproduce them (C17_history_own_positions is the theorem, history.v the correspondence)",
        "a caller-made kernel / mean instance is given to at most one constructor (hypothesis wf_history)",
        "that the trace forms of the gradient are the derivative of the evidence (Jacobi's formula, "
        "d(J^-1) = -J^-1 dJ J^-1) is cited, not proved; it is tested [R] by central differences of the "
        "implementation's own marginal_likelihood",
        "sum_i ln L_ii = 1/2 ln det J uses ln of a product (Reals); det J = (prod L_ii)^2 is a theorem",
        "ListOps implements the same algebra as the MathComp instance: not proved (DESIGN 2.3)",
        "representations: reduced-precision containers are the caller's choice of precision -- for a float32 "
        "hyper-parameter vector the model takes the K the kernel objects build for that vector; float32 positions / "
        "y_err and 8/16-bit integer vectors are not generated; an integer y_err is refused by the constructor "
        "(ValueError) and counted, not checked",
        "large data sets: the recorded Cholesky factor is tied to A K A^T + S by LAPACK and by the independent "
        "slogdet oracle [R] only; C17_evidence_logdet (reals) and C17_evidence_value (any realFieldType) are stated "
        "separately",
    ]
    return rep.finish(
        level="proof",
        checker_cmd="make -C /verif/coq + coqc on coq/gen/C17/cases_*.v, typed.v, history.v (vm_compute) and "
                    "evidence_*.v, large_*.v (coq-interval)",
        trusted_base=C.KERNEL_TB + ["axioms: none in the C17 theorems (closed under the global context); the evidence "
                                    "goals use Coq's Reals (ClassicalDedekindReals.sig_forall_dec, sig_not_dec, "
                                    "functional_extensionality_dep) and coq-interval (Uint63 primitives)",
                                    "Matrix/ListOps.v (executable matrix instance; inverses verified at run time)"],
        rule="configurations walk kernel (SE, RQ, SE+WN, SE+RQ, ChangePoint(SE,RQ)) x mean (3) x shape of A (tall, "
             "wide, square, rank-deficient: duplicated row / zero column / rank 1 / zero matrix); m, n <= 7; positions "
             "in 1-2 D; A entries multiples of 1/16; resampled until cond <= 1e6; a case is non-trivial when A != 0. "
             "Stream `scales`: the same walk with the signal in units 2^-40..2^20, 3e-9..1e4 and / or a forward-model "
             "gain 2^-20..2^10, 1e-6, 1e-3 (20 fixed pairs, all visited every run; y_err down to ~1e-13), tolerances "
             "relative to the unit. Stream `histories`: sessions of 2-4 inverters constructed in one process before any "
             "is used, >= 2 of them with the kernel left at its default, the others default / class / instance, 3 in 4 "
             "sessions with one common number of parameters, positions always different; the model of the object "
             "structure (Model/InversionHistory.v) is evaluated on every session (also the single-inverter ones). "
             "Stream `representations`: the same walk (m, n <= 5) with the hyper-parameter vector handed to every method "
             "as int64 / int32 array, list / tuple of Python ints (whole numbers -2..2), list / tuple of floats, float32 "
             "array (multiples of 1/64) x y, model matrix, positions as float64 / int64 / int32 arrays, y alone as int64, "
             "y and model matrix as float32, y_err as int64 (refused-or-right); Model/InversionRepr.v evaluated on each "
             "(typed.v). Stream `large`: 7 (13) fixed problem shapes with 120..1000 data rows, 15..300 parameters, "
             "y_err 0.5 %..50 at unit 1 and 2-5 % in units 2^-30, 2^-13, 2^17, one problem cut to the number of rows "
             "at which prod(diag L) is a subnormal double; arrays drawn from a seeded numpy generator; interval goals on "
             "the implementation's recorded Cholesky factor for both evidence routines (the 1000-row problem: thorough "
             "tier only), slogdet oracle and central differences on all")


def replay(path):
    import json
    d = json.load(open(path))
    rp = d["replay"]
    if "large_case" in rp and "theorem_or_correspondence" not in rp:
        sp = rp["large_case"]
        out = large_eval(sp)
        if out["status"] != "ok":
            print("implementation fails:", out)
            return 1
        bad = large_oracle(sp, out)
        print(f"{sp['m']} data rows, {sp['n']} parameters: marginal_likelihood = {out['lml']!r}, "
              f"marginal_likelihood_gradient()[0] = {out['lml_g']!r}")
        print("property failures:", bad)
        return 1 if bad else 0
    if "case" not in rp:
        print("replay names a broken theorem / correspondence:", rp.get("theorem_or_correspondence"))
        return 1
    session, i = (rp["history"], rp["index"]) if "history" in rp else ([rp["case"]], 0)
    if len(session) > 1:
        print(f"constructing {len(session)} inverters in this process, then evaluating number {i + 1}")
    outs, obs = run_session(session)
    case, out = session[i], outs[i]
    if out["status"] != "ok":
        print("implementation fails:", out)
        return 1
    bad = oracle(case, out)
    print("implementation returns: posterior mean", out["pmean"], "evidence", out["lml"])
    if out.get("foreign"):
        print("note:", out["foreign"])
    print("property failures:", bad)
    return 1 if bad else 0
